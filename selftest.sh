#!/bin/bash
# Monitor validation (not a registered check): applies a patch to a scratch copy of /repo,
# points the checks at it with VERIF_REPO and reports which checks fire.
#   ./selftest.sh <patch-file> <check-id>...        expects at least one VIOLATION among the ids
#   ./selftest.sh --reverse <commit> <check-id>...  the reverse of a fix commit as the mutant
#   ./selftest.sh --benign <patch-file> <id>...     expects silence
set -u
ROOT="$(cd "$(dirname "$0")" && pwd)"
MODE=fire
if [ "$1" = "--benign" ]; then MODE=silent; shift; fi
SCR=$(mktemp -d /tmp/verif-scratch.XXXXXX)
trap 'rm -rf "$SCR"' EXIT
rsync -a --exclude .git --exclude /jqawk /repo/ "$SCR/"
if [ "$1" = "--reverse" ]; then
  # several commits of one repair are given as a+b (oldest first) and undone newest first; the undoing is a
  # three-way merge (git revert) in a scratch clone, so that lines a later commit moved or re-spelled are still found
  rm -rf "$SCR"; git clone -q /repo "$SCR" || { echo "SKIP cannot clone /repo"; exit 3; }
  for h in $(echo "$2" | tr '+' '\n' | tac); do
    (cd "$SCR" && git -c user.name=selftest -c user.email=selftest@localhost revert --no-commit "$h" >/dev/null 2>&1) || { echo "SKIP reverse of $h does not apply (conflicts with later commits)"; exit 3; }
  done
  rm -rf "$SCR/.git" "$SCR/jqawk"
  NAME="reverse-of-$2"; shift 2
else
  PATCH="$(cd "$(dirname "$1")" && pwd)/$(basename "$1")"
  (cd "$SCR" && patch -p1 -s < "$PATCH") || { echo "SKIP $1 does not apply"; exit 3; }
  NAME="$(basename "$1")"; shift
fi
export GOFLAGS=-mod=mod GOPROXY=off GOSUMDB=off GOTOOLCHAIN=local
( cd "$SCR" && go build ./... && go test -vet=off -count=1 . >/dev/null 2>&1 ) || { echo "INVALID $NAME: does not build or fails the repository's tests"; exit 4; }
fired=""
for id in "$@"; do
  out=$(VERIF_REPO="$SCR" VERIF_EVIDENCE_DIR="$SCR/.evidence" "$ROOT/check" "$id" quick 2>&1)
  n=$(echo "$out" | grep -c '^VIOLATION')
  if [ "$n" -gt 0 ]; then fired="$fired $id($n)"; first=$(echo "$out" | grep -A1 '^VIOLATION' | sed -n 2p | cut -c1-160); echo "  $id: $first"; fi
done
if [ "$MODE" = fire ]; then
  if [ -n "$fired" ]; then echo "CAUGHT $NAME by$fired"; exit 0; else echo "MISSED $NAME (ran: $*)"; exit 1; fi
else
  if [ -z "$fired" ]; then echo "SILENT $NAME (ran: $*)"; exit 0; else echo "FALSE-ALARM $NAME by$fired"; exit 1; fi
fi
