#!/bin/bash
# Monitor validation (not a registered check): applies a patch to a scratch copy of /repo,
# points the checks at it with VERIF_REPO and reports which checks fire.
#   ./selftest.sh <patch-file> <check-id>...        expects at least one VIOLATION among the ids
#   ./selftest.sh --reverse <commit> <check-id>...  the reverse of a fix commit as the mutant
#   ./selftest.sh --benign <patch-file> <id>...     expects silence
set -u
ROOT="$(cd "$(dirname "$0")" && pwd)"
MODE=fire
if [ "$1" = "--benign" ]; then MODE=silent; shift; fi
SCR=$(mktemp -d /tmp/verif-scratch.XXXXXX)
trap 'rm -rf "$SCR"' EXIT
rsync -a --exclude .git --exclude /jqawk /repo/ "$SCR/"
if [ "$1" = "--reverse" ]; then
  # several commits of one repair are given as a+b (oldest first) and undone newest first
  for h in $(echo "$2" | tr '+' '\n' | tac); do
    # lines of an old commit that a later commit (36f0a12: Array became a pointer) rewrote are brought to today's spelling first
    git -C /repo show "$h" -- src cli > "$SCR/.rev.diff"
    (cd "$SCR" && patch -R -p1 -s --dry-run < .rev.diff >/dev/null 2>&1) || sed -i -E 's/len\(v\.Array\)/len(*v.Array)/g; s/range v\.Array/range *v.Array/g; s/:= value\.Value\.Array$/:= *value.Value.Array/' "$SCR/.rev.diff"
    (cd "$SCR" && patch -R -p1 -s < .rev.diff) || { echo "SKIP reverse of $h does not apply"; exit 3; }
    rm -f "$SCR/.rev.diff" "$SCR"/src/*.orig "$SCR"/src/*.rej
  done
  NAME="reverse-of-$2"; shift 2
else
  PATCH="$(cd "$(dirname "$1")" && pwd)/$(basename "$1")"
  (cd "$SCR" && patch -p1 -s < "$PATCH") || { echo "SKIP $1 does not apply"; exit 3; }
  NAME="$(basename "$1")"; shift
fi
export GOFLAGS=-mod=mod GOPROXY=off GOSUMDB=off GOTOOLCHAIN=local
( cd "$SCR" && go build ./... && go test -vet=off -count=1 . >/dev/null 2>&1 ) || { echo "INVALID $NAME: does not build or fails the repository's tests"; exit 4; }
fired=""
for id in "$@"; do
  out=$(VERIF_REPO="$SCR" VERIF_EVIDENCE_DIR="$SCR/.evidence" "$ROOT/check" "$id" quick 2>&1)
  n=$(echo "$out" | grep -c '^VIOLATION')
  if [ "$n" -gt 0 ]; then fired="$fired $id($n)"; first=$(echo "$out" | grep -A1 '^VIOLATION' | sed -n 2p | cut -c1-160); echo "  $id: $first"; fi
done
if [ "$MODE" = fire ]; then
  if [ -n "$fired" ]; then echo "CAUGHT $NAME by$fired"; exit 0; else echo "MISSED $NAME (ran: $*)"; exit 1; fi
else
  if [ -z "$fired" ]; then echo "SILENT $NAME (ran: $*)"; exit 0; else echo "FALSE-ALARM $NAME by$fired"; exit 1; fi
fi
