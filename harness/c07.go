package main

// C07 — control flow executes statements in the documented order (DESIGN §4 C07).

import (
	"fmt"
	"sort"
	"strconv"
	"strings"
)

// ---- enumerated matrix: signal x loop kind x placement

type c07Cell struct {
	sig    string // break continue return next exit
	loop   string // while for forin-array forin-string forin-object
	inner  bool   // signal in the inner loop of a 2-nest (else: outer)
	before bool   // before the trace print of the body (else: after)
}

func c07Matrix() []c07Cell {
	var out []c07Cell
	for _, s := range []string{"break", "continue", "return", "next", "exit"} {
		for _, l := range []string{"while", "for", "forin-array", "forin-string", "forin-object"} {
			for _, in := range []bool{true, false} {
				for _, bf := range []bool{true, false} {
					out = append(out, c07Cell{s, l, in, bf})
				}
			}
		}
	}
	return out
}

// mkLoop builds one loop of the given kind whose body is body; v is the visible loop variable.
func mkLoop(kind, id string, body []Stmt) (Stmt, string) {
	switch kind {
	case "while":
		k := "w" + id
		b := append([]Stmt{ES(&IncDec{Op: "++", X: V(k)})}, body...)
		return Blk(ES(Asg(V(k), N("0"))), &While{C: Bin("<", V(k), N("3")), Body: &Block{Stmts: b}}), k
	case "for":
		k := "f" + id
		// observable post-expression: counts completed-or-continued iterations
		post := &Assign{Op: "=", L: V(k), R: Bin("+", V(k), &Paren{X: &Assign{Op: "=", L: V("post" + id), R: Bin("+", V("post"+id), N("1"))}})}
		_ = post
		return Blk(ES(Asg(V("post"+id), N("0"))),
			&For{Pre: Asg(V(k), N("0")), C: Bin("<", V(k), N("3")), Post: &IncDec{Op: "++", X: V(k)}, Body: &Block{Stmts: body}}), k
	case "forin-array":
		k := "a" + id
		return &ForIn{V: k, V2: "ai" + id, It: Arr(N("10"), N("20"), N("30")), Body: &Block{Stmts: body}}, k
	case "forin-string":
		k := "s" + id
		return &ForIn{V: k, V2: "si" + id, It: S("xéz"), Body: &Block{Stmts: body}}, k
	default:
		k := "o" + id
		return &ForIn{V: k, V2: "ov" + id, It: &ObjectLit{Keys: []string{"only"}, Quoted: []bool{false}, Vals: []Expr{N("7")}}, Body: &Block{Stmts: body}}, k
	}
}

func sigStmt(s string) Stmt {
	switch s {
	case "break":
		return &Break{}
	case "continue":
		return &Continue{}
	case "return":
		return &Return{X: S("ret")}
	case "next":
		return &Next{}
	}
	return &Exit{}
}

func c07CellProgram(cell c07Cell, guardOn int) (*Program, []byte) {
	// inner body: trace, and the signal when the inner loop variable's iteration number == guardOn
	cnt := "n"
	sig := &If{C: Bin("==", V(cnt), N(strconv.Itoa(guardOn))), Then: sigStmt(cell.sig)}
	mk := func(withSig bool, tag string, extra []Stmt) []Stmt {
		var b []Stmt
		b = append(b, ES(&IncDec{Op: "++", X: V(cnt)}))
		if withSig && cell.before {
			b = append(b, sig)
		}
		b = append(b, Pr(S(tag), V(cnt)))
		b = append(b, extra...)
		if withSig && !cell.before {
			b = append(b, sig)
		}
		b = append(b, Pr(S(tag+"-end"), V(cnt)))
		return b
	}
	inner, _ := mkLoop(cell.loop, "i", mk(cell.inner, "in", nil))
	outer, _ := mkLoop("for", "o", mk(!cell.inner, "out", []Stmt{inner, Pr(S("after-inner"))}))
	if cell.loop == "for" {
		outer, _ = mkLoop("while", "o", mk(!cell.inner, "out", []Stmt{inner, Pr(S("after-inner"))}))
	}
	body := []Stmt{ES(Asg(V(cnt), N("0"))), Pr(S("start")), outer, Pr(S("after-outer"), V(cnt))}
	fn := &Func{Name: "run", Body: &Block{Stmts: append(body, &Return{X: S("fell-off")})}}
	p := &Program{Items: []any{
		fn,
		&Rule{Kind: "pattern", Body: Blk(Pr(S("rule1"), V("$")), Pr(S("result"), CallE(V("run"))), Pr(S("rule1-end")))},
		&Rule{Kind: "pattern", Body: Blk(Pr(S("rule2"), V("$")))},
		&Rule{Kind: "END", Body: Blk(Pr(S("END")))},
	}}
	return p, []byte("[1,2]")
}

// ---- signals raised inside a loop header (through a match block): the header is not inside its own loop

type c07Header struct{ sig, pos, outer string }

var c07HeadersCache []c07Header

func c07Headers() []c07Header {
	if c07HeadersCache == nil {
		c07HeadersCache = c07HeadersBuild()
	}
	return c07HeadersCache
}

func c07HeadersBuild() []c07Header {
	var out []c07Header
	for _, s := range []string{"break", "continue", "return", "next", "exit"} {
		for _, pos := range []string{"for-pre", "for-cond", "for-post", "while-cond", "forin-iterable"} {
			for _, o := range []string{"while", "for", "forin-array"} {
				out = append(out, c07Header{s, pos, o})
			}
		}
	}
	return out
}

func c07HeaderProgram(h c07Header, guardOn int) (*Program, []byte) {
	// match (subject) { guard => { SIG }, other => rest }
	sw := func(subj Expr, guard int, rest Expr) Expr {
		return &MatchExpr{Subj: subj, Cases: []*MatchCase{
			{Pats: []Expr{N(strconv.Itoa(guard))}, Block: Blk(Pr(S("signal-from-header")), sigStmt(h.sig))},
			{Pats: []Expr{V("other")}, Body: rest},
		}}
	}
	body := []Stmt{ES(&IncDec{Op: "++", X: V("n")}), Pr(S("in"), V("n"), V("j"))}
	var inner Stmt
	switch h.pos {
	case "for-pre":
		inner = &For{Pre: Asg(V("j"), sw(V("round"), guardOn, N("0"))), C: Bin("<", V("j"), N("2")), Post: &IncDec{Op: "++", X: V("j")}, Body: &Block{Stmts: body}}
	case "for-cond":
		inner = &For{Pre: Asg(V("j"), N("0")), C: sw(V("j"), guardOn%3, Bin("<", V("other"), N("3"))), Post: &IncDec{Op: "++", X: V("j")}, Body: &Block{Stmts: body}}
	case "for-post":
		inner = &For{Pre: Asg(V("j"), N("0")), C: Bin("<", V("j"), N("4")), Post: Asg(V("j"), sw(V("j"), guardOn%3, Bin("+", V("other"), N("1")))), Body: &Block{Stmts: body}}
	case "while-cond":
		inner = Blk(ES(Asg(V("j"), N("0"))), &While{C: sw(V("j"), guardOn%3, Bin("<", V("other"), N("3"))), Body: &Block{Stmts: append([]Stmt{ES(&IncDec{Op: "++", X: V("j")})}, body...)}})
	default:
		inner = &ForIn{V: "j", It: sw(V("round"), guardOn, Arr(N("10"), N("20"))), Body: &Block{Stmts: body}}
	}
	ob := []Stmt{ES(&IncDec{Op: "++", X: V("round")}), Pr(S("out"), V("round")), inner, Pr(S("after-inner"), V("round"))}
	outer, _ := mkLoop(h.outer, "o", ob)
	fb := []Stmt{ES(Asg(V("n"), N("0"))), ES(Asg(V("round"), N("0"))), Pr(S("start")), outer, Pr(S("after-outer"), V("n"), V("round")), &Return{X: S("fell-off")}}
	p := &Program{Items: []any{
		&Func{Name: "run", Body: &Block{Stmts: fb}},
		&Rule{Kind: "pattern", Body: Blk(Pr(S("rule1"), V("$")), Pr(S("result"), CallE(V("run"))), Pr(S("rule1-end")))},
		&Rule{Kind: "pattern", Body: Blk(Pr(S("rule2"), V("$")))},
		&Rule{Kind: "END", Body: Blk(Pr(S("END")))},
	}}
	return p, []byte("[1,2]")
}

// ---- else-if chains whose conditions have effects: every condition is evaluated at most once per pass, in order

func c07ChainPrograms() []*Program {
	var out []*Program
	thr := []string{"0", "1", "2", "3", "100"}
	mk := func(ts []string, braceless bool) *Program {
		// if (++cnt > t0) {..} else if (++cnt > t1) {..} ... else {..}
		var build func(i int) Stmt
		build = func(i int) Stmt {
			if i == len(ts) {
				return Blk(Pr(S("else"), V("cnt")))
			}
			cond := Bin(">", &Paren{X: Asg(V("cnt"), Bin("+", V("cnt"), N("1")))}, N(ts[i]))
			var then Stmt = Blk(Pr(S("body"+strconv.Itoa(i)), V("cnt")))
			if braceless && i%2 == 0 {
				then = Pr(S("body"+strconv.Itoa(i)), V("cnt"))
			}
			return &If{C: cond, Then: then, Else: build(i + 1)}
		}
		body := []Stmt{asg(V("cnt"), N("0")), Pr(S("pass")), build(0), Pr(S("after"), V("cnt"))}
		loop := &For{Pre: Asg(V("round"), N("0")), C: Bin("<", V("round"), N("2")), Post: &IncDec{Op: "++", X: V("round")}, Body: &Block{Stmts: body}}
		return &Program{Items: []any{&Rule{Kind: "BEGIN", Body: Blk(loop, Pr(S("end")))}}}
	}
	for _, a := range thr {
		for _, b := range thr {
			out = append(out, mk([]string{a, b}, false))
			for _, cc := range thr {
				out = append(out, mk([]string{a, b, cc}, (len(out)%2 == 0)))
			}
		}
	}
	for _, ts := range [][]string{{"100", "100", "100", "100"}, {"4", "4", "4", "4"}, {"1", "2", "3", "4"}, {"4", "3", "2", "1"}, {"100", "4", "100", "5"}, {"3", "3", "3", "3", "3"}, {"5", "5", "5", "5", "5"}} {
		out = append(out, mk(ts, false), mk(ts, true))
	}
	return out
}

// ---- loops whose bound is a variable that the body, the post-expression or a called function changes:
// the condition is evaluated afresh before every round

func c07BoundPrograms() []*Program {
	var out []*Program
	type ch struct {
		name       string
		body, post Stmt
		fn         bool
	}
	changes := []struct {
		name string
		body []Stmt
		post Expr
	}{
		{"none", nil, nil},
		{"bound-- in body", []Stmt{ES(&IncDec{Op: "--", X: V("bound")})}, nil},
		{"bound++ on round 1 and 2", []Stmt{&If{C: Bin("<", V("k"), N("2")), Then: Blk(ES(&IncDec{Op: "++", X: V("bound")}))}}, nil},
		{"bound = bound - 2 in body", []Stmt{asg(V("bound"), Bin("-", V("bound"), N("2")))}, nil},
		{"bound = 0 on round 1", []Stmt{&If{C: Bin("==", V("k"), N("1")), Then: Blk(asg(V("bound"), N("0")))}}, nil},
		{"bound changed by a called function", []Stmt{ES(CallE(V("shrink")))}, nil},
		{"bound-- in the post-expression", nil, &IncDec{Op: "--", X: V("bound")}},
		{"work list: bound grows while k < 3", []Stmt{&If{C: Bin("<", V("k"), N("3")), Then: Blk(asg(V("bound"), Bin("+", V("bound"), N("1"))))}}, nil},
	}
	for _, cmp := range []string{"<", "<=", "!=", ">", ">="} {
		for _, chg := range changes {
			for _, form := range []string{"for", "while", "for-bound-left"} {
				start, bnd, step := "0", "5", "++"
				if cmp == ">" || cmp == ">=" {
					continue // written through the mirrored forms below
				}
				var cond Expr = Bin(cmp, V("k"), V("bound"))
				if form == "for-bound-left" {
					mirror := map[string]string{"<": ">", "<=": ">=", "!=": "!="}[cmp]
					cond = Bin(mirror, V("bound"), V("k"))
				}
				guard := &If{C: Bin(">", &Paren{X: Asg(V("guard"), Bin("+", V("guard"), N("1")))}, N("12")), Then: Blk(Pr(S("guard")), &Break{})}
				body := append([]Stmt{guard, Pr(S("round"), V("k"), V("bound"))}, chg.body...)
				var loop Stmt
				if form == "while" {
					b := append(append([]Stmt{}, body...), ES(&IncDec{Op: step, X: V("k")}))
					if chg.post != nil {
						b = append(b, ES(chg.post))
					}
					loop = Blk(asg(V("k"), N(start)), &While{C: cond, Body: &Block{Stmts: b}})
				} else {
					var post Expr = &IncDec{Op: step, X: V("k")}
					if chg.post != nil {
						post = Arr(&IncDec{Op: step, X: V("k")}, chg.post)
					}
					loop = &For{Pre: Asg(V("k"), N(start)), C: cond, Post: post, Body: &Block{Stmts: body}}
				}
				fn := &Func{Name: "shrink", Body: Blk(asg(V("bound"), Bin("-", V("bound"), N("1"))), &Return{X: V("bound")})}
				p := &Program{Items: []any{fn, &Rule{Kind: "BEGIN", Body: Blk(asg(V("bound"), N(bnd)), asg(V("guard"), N("0")), loop, Pr(S("after"), V("k"), V("bound")))}}}
				out = append(out, p)
			}
		}
	}
	return out
}

// ---- an object iterated, given a new key through another reference, and iterated again: every key exactly once each time

func c07ObjAliasPrograms() []*Program {
	var out []*Program
	o := V("o")
	loop := func(tag string, it Expr) Stmt {
		return &ForIn{V: "k", V2: "v", It: it, Body: Blk(Pr(S(tag), V("k"), V("v")))}
	}
	obj := func(keys ...string) *ObjectLit {
		l := &ObjectLit{}
		for i, k := range keys {
			l.Keys = append(l.Keys, k)
			l.Quoted = append(l.Quoted, false)
			l.Vals = append(l.Vals, N(strconv.Itoa(i+1)))
		}
		return l
	}
	addFn := &Func{Name: "add", Params: []string{"t", "key"}, Body: Blk(asg(Idx(V("t"), V("key")), S("added")), &Return{X: V("t")})}
	for _, init := range []*ObjectLit{obj("b"), obj("b", "d"), obj(), obj("m", "c", "x")} {
		adds := [][]Stmt{
			{asg(V("p"), o), asg(Mem(V("p"), "a"), S("new"))},
			{ES(CallE(V("add"), o, S("a")))},
			{asg(V("r"), CallE(V("add"), o, S("zz"))), asg(Mem(V("r"), "a"), S("new"))},
			{asg(V("h"), obj1("inner", o)), asg(Mem(Mem(V("h"), "inner"), "a"), S("new"))},
			{asg(V("arr"), Arr(o)), asg(Mem(Idx(V("arr"), N("0")), "a"), S("new"))},
			{asg(Mem(o, "a"), S("new"))},
			{&ForIn{V: "e", It: Arr(o), Body: Blk(asg(Mem(V("e"), "a"), S("new")))}},
		}
		for _, add := range adds {
			body := []Stmt{asg(o, init), loop("first", o), Pr(S("length"), Meth(o, "length"))}
			body = append(body, add...)
			body = append(body, loop("second", o), Pr(S("length"), Meth(o, "length")), asg(V("q"), o), asg(Mem(V("q"), "b2"), N("9")), loop("third", o), loop("third-through-q", V("q")))
			out = append(out, &Program{Items: []any{addFn, &Rule{Kind: "BEGIN", Body: &Block{Stmts: body}}}})
		}
	}
	return out
}

// ---- conditions with effects whose operands are of different kinds: evaluated exactly once per test

func c07EffectfulConditions() []*Program {
	var out []*Program
	begin := func(st ...Stmt) *Program {
		return &Program{Items: []any{&Rule{Kind: "BEGIN", Body: &Block{Stmts: st}}}}
	}
	q, item, st, n, it, v, i, a := V("q"), V("item"), V("st"), V("n"), V("it"), V("v"), V("i"), V("a")
	take := func(dst, from Expr, m string) Expr { return &Paren{X: Asg(dst, Meth(from, m))} }
	for _, m := range []string{"popfirst", "pop"} {
		for _, cmp := range []struct {
			op  string
			rhs Expr
		}{{"!=", &NullLit{}}, {"!=", S("stop")}, {"<", S("3")}, {"!=", &BoolLit{V: false}}, {">", &NullLit{}}} {
			out = append(out, begin(asg(q, Arr(N("1"), N("2"), S("two"), &BoolLit{V: true}, N("3"), S("stop"), &BoolLit{V: false}, N("4"))),
				&While{C: Bin(cmp.op, take(item, q, m), cmp.rhs), Body: Blk(Pr(S("got"), item, jsonOf(q)))}, Pr(S("left"), jsonOf(q), item)))
			out = append(out, begin(asg(it, Arr(&BoolLit{V: true}, N("0"), S("x"), &NullLit{}, N("5"))),
				&For{Pre: Asg(i, N("0")), C: Bin(cmp.op, take(v, it, m), cmp.rhs), Post: &IncDec{Op: "++", X: i}, Body: Blk(Pr(S("round"), i, v))}, Pr(S("left"), jsonOf(it), i)))
		}
		out = append(out, begin(asg(st, Arr(S("x"), S("y"), N("1"), S("x"))),
			&If{C: Bin("==", Meth(st, m), S("x")), Then: Blk(Pr(S("x"))), Else: Blk(Pr(S("not x")))}, Pr(jsonOf(st)),
			&If{C: Bin("==", Meth(st, m), N("1")), Then: Blk(Pr(S("one"))), Else: Blk(Pr(S("else")))}, Pr(jsonOf(st)),
			&If{C: Bin("<", Meth(st, m), &NullLit{}), Then: Blk(Pr(S("below null"))), Else: &If{C: Bin("!=", Meth(st, m), &BoolLit{V: true}), Then: Blk(Pr(S("else-if")))}}, Pr(jsonOf(st))))
	}
	out = append(out, begin(asg(n, N("0")), &While{C: Bin("<", &Paren{X: Asg(n, Bin("+", n, N("1")))}, S("4")), Body: Blk(Pr(n))}, Pr(S("after"), n)))
	out = append(out, begin(asg(a, Arr(N("3"), &NullLit{}, S("s"), N("1"), N("9"))), asg(i, N("0")), &While{C: Bin("!=", Idx(a, &IncDec{Op: "++", X: i}), N("1")), Body: Blk(Pr(S("loop"), i))}, Pr(S("after"), i)))
	fn := &Func{Name: "bump", Body: Blk(asg(V("c"), Bin("+", V("c"), N("1"))), Pr(S("bump"), V("c")), &If{C: Bin(">", V("c"), N("3")), Then: Blk(&Return{X: &BoolLit{V: true}})}, &Return{X: V("c")})}
	p := begin(asg(V("c"), N("0")), &While{C: Bin("!=", CallE(V("bump")), &BoolLit{V: true}), Body: Blk(Pr(S("body"), V("c")))}, Pr(S("after"), V("c")))
	p.Items = append([]any{fn}, p.Items...)
	out = append(out, p)
	return out
}

// ---- long histories: the signals work the same on the 100000th round as on the first (law on the implementation alone)

type c07Long struct{ name, prog, input, want string }

var c07LongsCache []c07Long

func c07Longs() []c07Long {
	if c07LongsCache == nil {
		c07LongsCache = c07LongsBuild()
	}
	return c07LongsCache
}

func c07LongsBuild() []c07Long {
	big := func(n int) string {
		var sb strings.Builder
		sb.WriteByte('[')
		for i := 0; i < n; i++ {
			if i > 0 {
				sb.WriteByte(',')
			}
			sb.WriteString(strconv.Itoa(i))
		}
		sb.WriteByte(']')
		return sb.String()
	}
	return []c07Long{
		{"continue-in-for/150000", "BEGIN { for (i = 0; i < 150000; i++) { if (i % 2 == 0) { continue } n++ } print n, i }", "", "75000 150000\n"},
		{"break-inner-of-while/120000", "BEGIN { while (i < 120000) { i++; for (j in [1, 2, 3]) { if (j == 2) { break } n++ } } print n, i }", "", "120000 120000\n"},
		{"continue-in-forin/120000", "BEGIN { for (i = 0; i < 120000; i++) { for (j in [1, 2, 3]) { if (j == 2) continue; n++ } } print n }", "", "240000\n"},
		{"early-return/120000", "function f(x) { if (x % 2 == 0) { return 'even' } return 'odd' } BEGIN { for (i = 0; i < 120000; i++) { if (f(i) == 'even') n++ } print n }", "", "60000\n"},
		{"return-from-loop-in-function/120000", "function f(x) { for (k in [1, 2, 3]) { while (true) { return k + x } } } BEGIN { for (i = 0; i < 120000; i++) { n = n + f(1) } print n }", "", "240000\n"},
		{"next-in-rule/120000", "$ % 2 == 0 { next } { n++ } END { print n }", big(120000), "60000\n"},
		{"next-in-function/70000", "function skip() { next } $ % 2 == 0 { skip() } { n++ } END { print n }", big(70000), "35000\n"},
		{"return-in-match-block/120000", "function f(x) { match (x % 2) { 0 => { return 'even' }, other => { return 'odd' } } } BEGIN { for (i = 0; i < 120000; i++) { if (f(i) == 'even') n++ } print n }", "", "60000\n"},
		{"continue-in-match-block/120000", "BEGIN { n = 0; for (i = 0; i < 120000; i++) { match (i % 3) { 0 => { continue }, 1 => { n++ } } m++ } print n, m }", "", "40000 80000\n"},
		{"break-in-match-block/120000", "BEGIN { for (i = 0; i < 120000; i++) { for (j in [1, 2]) { match (j) { 2 => { break } } n++ } } print n }", "", "120000\n"},
		{"next-in-match-block/70000", "{ match ($ % 2) { 0 => { next } } n++ } END { print n }", big(70000), "35000\n"},
	}
}

func c07LongRun(c *Case, l c07Long) {
	var files []InFile
	if l.input != "" {
		files = []InFile{{Name: "in.json", Data: []byte(l.input)}}
	}
	lib := RunLib(l.prog, files, nil, RunOpts{Budget: 2000000000})
	c.NonTrivial("long:" + l.name)
	c.Count("long_history:" + strings.SplitN(l.name, "/", 2)[0])
	want := strings.ReplaceAll(l.want, "\\n", "\n")
	if lib.Class == "ok" && string(lib.Stdout) == want {
		c.Held()
		return
	}
	c.Violation(fmt.Sprintf("long history %s: want %q, got %s (%s) %q", l.name, want, lib.Class, lib.Msg, clip(string(lib.Stdout), 80)), nil, map[string]any{"program": l.prog, "input_elements": strings.Count(l.input, ",") + 1})
}

// ---- object-order slice: each key exactly once, same order in repeated runs and iterations

func c07ObjOrder(c *Case) {
	rng := c.Rng
	n := 2 + rng.IntN(11)
	keys := map[string]bool{}
	o := &ObjectLit{}
	doc := map[string]any{}
	for len(keys) < n {
		k := fmt.Sprintf("%c%d", 'a'+rng.IntN(26), rng.IntN(50))
		if keys[k] {
			continue
		}
		keys[k] = true
		v := rng.IntN(100)
		o.Keys = append(o.Keys, k)
		o.Quoted = append(o.Quoted, false)
		o.Vals = append(o.Vals, N(strconv.Itoa(v)))
		doc[k] = float64(v)
	}
	fromDoc := rng.IntN(2) == 0
	var src Expr = o
	if fromDoc {
		src = V("$")
	}
	loop := func(tag string) Stmt {
		return &ForIn{V: "k", V2: "v", It: V("obj"), Body: Blk(Pr(S(tag), V("k"), V("v")))}
	}
	// a second object with other keys, iterated INSIDE the first loop (directly and through a function):
	// every (outer key, inner key) pair must appear exactly once and the outer loop must carry on
	o2 := &ObjectLit{}
	for j := 0; j < 2+rng.IntN(3); j++ {
		o2.Keys = append(o2.Keys, fmt.Sprintf("in%d", j))
		o2.Quoted = append(o2.Quoted, false)
		o2.Vals = append(o2.Vals, N(strconv.Itoa(j)))
	}
	nestedBody := Blk(&ForIn{V: "k2", V2: "v2", It: V("obj2"), Body: Blk(Pr(S("N"), V("k"), V("k2"), V("v2")))}, ES(CallE(V("inner"), V("k"))), Pr(S("O"), V("k"), V("v")))
	nested := &ForIn{V: "k", V2: "v", It: V("obj"), Body: nestedBody}
	innerFn := &Func{Name: "inner", Params: []string{"tag"}, Body: Blk(&ForIn{V: "k3", It: V("obj2"), Body: Blk(Pr(S("F"), V("tag"), V("k3")))})}
	p := &Program{Items: []any{innerFn, &Rule{Kind: "pattern", Body: Blk(ES(Asg(V("obj"), src)), ES(Asg(V("obj2"), o2)), loop("A"), loop("B"), nested)}}}
	text := Canon(p)
	files := []InFile{{Name: "in.json", Data: docBytes(doc)}}
	var first string
	c.NonTrivial("objorder:" + text)
	c.Count("objorder_cases")
	for run := 0; run < 8; run++ {
		lib := RunLib(text, files, nil, RunOpts{})
		if lib.Class != "ok" {
			c.Violation("objorder: for-in over an object failed: "+lib.Class+" "+lib.Msg, nil, map[string]any{"program": text})
			return
		}
		all := strings.Split(strings.TrimSuffix(string(lib.Stdout), "\n"), "\n")
		var lines, nest []string
		for _, l := range all {
			if strings.HasPrefix(l, "A ") || strings.HasPrefix(l, "B ") {
				lines = append(lines, l)
			} else {
				nest = append(nest, l)
			}
		}
		// nested iteration: every (outer, inner) pair once for N and F lines, every outer key once for O lines
		cnt := map[string]int{}
		for _, l := range nest {
			cnt[l]++
		}
		nestBad := ""
		for k := range keys {
			if cnt[fmt.Sprintf("O %s %v", k, doc[k])] != 1 {
				nestBad = "outer key " + k + " not visited exactly once after a nested object loop"
			}
			for j, k2 := range o2.Keys {
				if cnt[fmt.Sprintf("N %s %s %d", k, k2, j)] != 1 || cnt[fmt.Sprintf("F %s %s", k, k2)] != 1 {
					nestBad = fmt.Sprintf("pair (%s, %s) not visited exactly once in a nested object loop", k, k2)
				}
			}
		}
		if nestBad == "" && len(nest) != len(keys)*(1+2*len(o2.Keys)) {
			nestBad = fmt.Sprintf("nested loops printed %d lines, expected %d", len(nest), len(keys)*(1+2*len(o2.Keys)))
		}
		if nestBad != "" {
			c.Violation("objorder: "+nestBad, nil, map[string]any{"program": text, "stdout": string(lib.Stdout)})
			return
		}
		if len(lines) != 2*n {
			c.Violation(fmt.Sprintf("objorder: expected %d iterations, got %d lines", 2*n, len(lines)), nil, map[string]any{"program": text, "stdout": string(lib.Stdout)})
			return
		}
		var a, b []string
		for _, l := range lines {
			if strings.HasPrefix(l, "A ") {
				a = append(a, l[2:])
			} else {
				b = append(b, l[2:])
			}
		}
		// each key exactly once with its value
		seen := append([]string{}, a...)
		sort.Strings(seen)
		var want []string
		for k := range keys {
			want = append(want, fmt.Sprintf("%s %v", k, doc[k]))
		}
		sort.Strings(want)
		if strings.Join(seen, "|") != strings.Join(want, "|") {
			c.Violation("objorder: for-in did not visit every key exactly once with its value: "+strings.Join(a, ","), nil, map[string]any{"program": text, "stdout": string(lib.Stdout)})
			return
		}
		if strings.Join(a, "|") != strings.Join(b, "|") {
			c.Violation("objorder: two iterations over one object in one run used different orders: "+strings.Join(a, ",")+" vs "+strings.Join(b, ","), nil, map[string]any{"program": text})
			return
		}
		if run == 0 {
			first = strings.Join(a, "|")
		} else if first != strings.Join(a, "|") {
			c.Violation(fmt.Sprintf("objorder: run %d iterated the keys in a different order than run 0: %s vs %s", run, strings.Join(a, ","), strings.ReplaceAll(first, "|", ",")), nil, map[string]any{"program": text})
			return
		}
	}
	c.Held()
}

var c07Chains = c07ChainPrograms()
var c07Bounds = append(append(append(c07BoundPrograms(), c07ObjAliasPrograms()...), c07EffectfulConditions()...), c07NextInSpecialRules()...)

// next outside the pattern rules leaves the rule it is in and nothing else: the following rules of the same kind
// still run (directly, from inside loops, from a called function; with exit in a later rule as a tripwire)
func c07NextInSpecialRules() []*Program {
	var out []*Program
	fn := &Func{Name: "leave", Params: []string{"v"}, Body: Blk(&ForIn{V: "e", It: Arr(N("1"), N("2")), Body: Blk(&If{C: Bin("==", V("e"), V("v")), Then: Blk(&Next{})})}, &Return{X: S("not left")})}
	for _, kind := range []string{"BEGIN", "END", "BEGINFILE", "ENDFILE"} {
		tag := func(t string) Expr { return S(kind + " " + t) }
		bodies := [][]Stmt{
			{Pr(tag("first")), &Next{}, Pr(tag("unreachable"))},
			{Pr(tag("first")), &ForIn{V: "e", It: Arr(N("1"), N("2"), N("3")), Body: Blk(&While{C: &BoolLit{V: true}, Body: Blk(&If{C: Bin("==", V("e"), N("2")), Then: Blk(&Next{})}, &Break{})}, Pr(tag("loop"), V("e")))}, Pr(tag("unreachable"))},
			{Pr(tag("first")), Pr(CallE(V("leave"), N("2"))), Pr(tag("unreachable"))},
			{Pr(tag("first")), &If{C: Bin(">", V("seen"), N("0")), Then: Blk(&Next{})}, ES(&IncDec{Op: "++", X: V("seen")}), Pr(tag("first time only"))},
		}
		for _, b := range bodies {
			items := []any{fn, &Rule{Kind: kind, Body: &Block{Stmts: b}}, &Rule{Kind: kind, Body: Blk(Pr(tag("second")))}, &Rule{Kind: kind, Body: Blk(Pr(tag("third")), &Next{})}, &Rule{Kind: kind, Body: Blk(Pr(tag("fourth")))},
				&Rule{Kind: "pattern", Body: Blk(Pr(S("rule"), V("$")))}}
			if kind != "END" {
				items = append(items, &Rule{Kind: "END", Body: Blk(Pr(S("end")))})
			}
			out = append(out, &Program{Items: items})
		}
	}
	return out
}

func c07Cases(tier string) int {
	n := len(c07Matrix())*3 + 300 + len(c07Headers())*3 + len(c07Longs()) + len(c07Chains) + len(c07Bounds)
	if tier == "thorough" {
		return n + 2000000
	}
	return n + 60000
}

func c07Run(c *Case) {
	if c.Idx == 0 {
		round8Hand(c, "C07")
	}
	mat := c07Matrix()
	i := c.Idx
	switch {
	case i < len(mat)*3:
		cell := mat[i/3]
		p, doc := c07CellProgram(cell, 2+(i%3)*2)
		key := fmt.Sprintf("cell:%s/%s/inner=%v/before=%v/g%d", cell.sig, cell.loop, cell.inner, cell.before, i%3)
		c.NonTrivial(key)
		c.Count("matrix:" + cell.sig + "/" + cell.loop)
		m2(c, &M2Case{Prog: p, Files: []InFile{{Name: "in.json", Data: doc}}, Desc: key})
		if i == 4 {
			c.Sample(map[string]any{"matrix_cell": key, "program": Canon(p)})
		}
	case i < len(mat)*3+300:
		c07ObjOrder(c)
	case i < len(mat)*3+300+len(c07Headers())*3:
		k := i - len(mat)*3 - 300
		h := c07Headers()[k/3]
		p, doc := c07HeaderProgram(h, 1+k%3)
		key := fmt.Sprintf("header:%s/%s/outer=%s/g%d", h.sig, h.pos, h.outer, 1+k%3)
		c.NonTrivial(key)
		c.Count("header:" + h.sig + "/" + h.pos)
		m2(c, &M2Case{Prog: p, Files: []InFile{{Name: "in.json", Data: doc}}, Desc: key})
		if k == 7 {
			c.Sample(map[string]any{"header_cell": key, "program": Canon(p)})
		}
	case i < len(mat)*3+300+len(c07Headers())*3+len(c07Longs()):
		// the long histories run at indices spread over the sampled range (see below) so that they land in different workers
		c.Count("placeholder_for_long_history")
		c.Held()
	case i < len(mat)*3+300+len(c07Headers())*3+len(c07Longs())+len(c07Chains):
		k := i - (len(mat)*3 + 300 + len(c07Headers())*3 + len(c07Longs()))
		c.NonTrivial(fmt.Sprintf("chain:%d", k))
		c.Count("else_if_chains_with_effects")
		m2(c, &M2Case{Prog: c07Chains[k], Desc: "else-if chain whose conditions have effects"})
	case i < len(mat)*3+300+len(c07Headers())*3+len(c07Longs())+len(c07Chains)+len(c07Bounds):
		k := i - (len(mat)*3 + 300 + len(c07Headers())*3 + len(c07Longs()) + len(c07Chains))
		c.NonTrivial(fmt.Sprintf("bound:%d", k))
		c.Count("loops_with_moving_bound")
		m2(c, &M2Case{Prog: c07Bounds[k], Files: []InFile{{Name: "in.json", Data: []byte("[1, 2] 3")}}, Desc: "loop whose bound variable changes while it runs / next outside the pattern rules"})
	default:
		if start := len(mat)*3 + 300 + len(c07Headers())*3 + len(c07Longs()) + len(c07Chains) + len(c07Bounds); (i-start)%5000 == 17 && (i-start)/5000 < len(c07Longs()) {
			c07LongRun(c, c07Longs()[(i-start)/5000])
			return
		}
		g := newStructGen(c.Rng, sgOpts{MaxDepth: 2 + c.Rng.IntN(4), Funcs: c.Rng.IntN(2) == 0, Signals: true, Exit: true, MultiRule: true, NonASCII: true})
		p, doc := g.Program()
		mode := ParenMinimal
		rd := RenderProgram(p, mode, nil)
		text, _ := rd.Layout(nil)
		if rd.LeadBad {
			c.Inconclusive("generator-discipline")
			return
		}
		if c.Rng.IntN(3) == 0 {
			doc = append(append(append([]byte{}, doc...), '\n'), doc...) // two values: something is left to run after an exit in ENDFILE
		}
		r := m2(c, &M2Case{Prog: p, Text: text, Files: []InFile{{Name: "in.json", Data: doc}}, Desc: "structured program"})
		if r.Mod != nil {
			nsig := 0
			for k, v := range r.Mod.Signals {
				c.CountN("signal_executed:"+k, v)
				nsig += v
			}
			lines := strings.Count(r.Mod.Stdout, "\n")
			if lines >= 5 && nsig >= 1 && g.opts.MaxDepth >= 2 {
				c.NonTrivial(text)
			}
			for k, v := range g.stats {
				c.CountN("generated:"+k, v)
			}
			c.Max("max_trace_lines", lines)
		}
		if i == len(mat)*3+300+len(c07Headers())*3+len(c07Longs())+len(c07Chains)+len(c07Bounds) {
			c.Sample(map[string]any{"structured_program": text, "input": string(doc)})
		}
	}
}

func init() {
	register(&Prop{
		ID: "C07", Level: "exploration",
		Rule:          "enumerated: 5 signals (break continue return next exit) x 5 loop kinds x {inner, outer loop of a 2-nest} x {before, after the trace print} x 3 guard positions, inside a function called from the first of two pattern rules over a 2-element input; 300 object-order cases (2-12 keys: every key once, identical order in two iterations and 8 runs); 5 signals raised from inside a loop header (for initialiser / condition / post-expression, while condition, for-in iterable, through a match block) x 3 enclosing loop kinds x 3 guard positions: the header is not inside its own loop; 11 long histories (70000-150000 rounds of continue / break / return / next, also from match blocks and from a called function, results known in closed form): the hundred-thousandth signal works like the first; 164 else-if chains of 2-5 conditions that count their own evaluations (every combination of thresholds 0/1/2/3/100, with and without braces, two passes): each condition evaluated at most once per pass, in order; 72 loops (for, while, bound on the left) whose bound is a variable changed by the body, the post-expression or a called function (shrinking, growing, zeroed): the condition is evaluated afresh before every round; 25 loops and ifs whose condition takes an element off a queue / increments a counter and compares it with a value of another kind (null, string, boolean): the condition is evaluated exactly once per test; 28 programs that iterate an object, give it a new key through another reference (second name, parameter, returned reference, member, element, loop variable) and iterate it again: every key exactly once each time; sampled: structured programs (if/else incl. brace-less and dangling else, while, 3-clause for, for-in over arrays/strings/objects, nesting <= 5, guarded signals, functions) whose stdout trace is compared line by line with the reference model. Non-trivial = trace of >= 5 lines and at least one signal executed (counted in the model's execution); distinct by program text.",
		NumCases:      c07Cases,
		Run:           c07Run,
		MinConclusive: func(tier string) int { return 3000 },
		Exhaustive: func(tier string) string {
			return "signal x loop kind x placement matrix (300 cells), signal x header position x enclosing loop (225 cells), long-history table"
		},
		Assumptions: []string{"statement semantics of DESIGN.md section 3.6-3.7", "generated programs obey the generator discipline of section 3.14 (no location both read and written in one statement, no mutation of an iterated container)"},
	})
}
