package main

// AST -> token list -> text. Two independent policy knobs (DESIGN §2.4):
// parenthesisation (minimal / full / random-redundant) and layout (canonical
// or random separators subject to the exceptions listed in property C13).

import (
	"math/rand/v2"
	"strings"
)

type TokKind int

const (
	TWord TokKind = iota
	TNum
	TStr
	TRegex
	TPunct
	TRaw
)

type Gap int

const (
	GapFree      Gap = iota // anything, including newlines and comments
	GapNoNL                 // horizontal white space only (after print/return/print-list comma, before ';')
	GapStmt                 // separates two statements: newline or ';'
	GapStmtBrace            // previous statement ended in '}' of a block/match: newline or blank, never ';'
	GapTop                  // between top-level items
	GapStart                // before the first token
)

type Tok struct {
	Kind  TokKind
	Text  string
	Gap   Gap // gap before this token
	Quote byte
	Off   int // byte offset of the token after layout (for strings: of the opening quote)
	End   int
	Opt   bool // a comma the grammar does not require (between the members of an object literal, between match cases)
}

type ParenMode int

const (
	ParenMinimal ParenMode = iota
	ParenFull
	ParenRandom
)

type Rendered struct {
	Toks    []Tok
	Spans   map[any][2]int // node -> [first token, last token]
	LeadBad bool           // a statement/pattern starts with a token that could continue the previous expression
	Text    string
}

type renderer struct {
	toks    []Tok
	spans   map[any][2]int
	mode    ParenMode
	rng     *rand.Rand
	leadBad bool
	gap     Gap

	lastStmtBrace  bool
	lastMatchClose int
}

func (r *renderer) emit(kind TokKind, text string) {
	r.toks = append(r.toks, Tok{Kind: kind, Text: text, Gap: r.gap})
	r.gap = GapFree
}
func (r *renderer) word(s string)  { r.emit(TWord, s) }
func (r *renderer) punct(s string) { r.emit(TPunct, s) }

func (r *renderer) optComma() {
	r.emit(TPunct, ",")
	r.toks[len(r.toks)-1].Opt = true
}

// precedence levels (DESIGN §3.3); higher binds tighter
const (
	lvLowest = 0
	lvAssign = 3
	lvLogic  = 4
	lvCmp    = 5
	lvAdd    = 6
	lvMul    = 7
	lvPrefix = 8
	lvPost   = 9
	lvAtom   = 10
)

func binLevel(op string) int {
	switch op {
	case "*", "/", "%":
		return lvMul
	case "+", "-":
		return lvAdd
	case "==", "!=", "<", "<=", ">", ">=", "~", "!~":
		return lvCmp
	case "&&", "||":
		return lvLogic
	}
	return lvLowest
}

func exprLevel(e Expr) int {
	switch x := e.(type) {
	case *NumLit, *StrLit, *BoolLit, *NullLit, *RegexLit, *Var, *ArrayLit, *ObjectLit, *MatchExpr, *Paren:
		return lvAtom
	case *RawExpr:
		return lvLowest
	case *Member, *Index, *Call:
		return lvPost
	case *Unary:
		return lvPrefix
	case *IncDec:
		if !x.Prefix {
			return lvPost // x++ binds like a suffix: - x ++ is -(x++), x ++ * y is (x++) * y
		}
		return lvLowest // the prefix forms are only ever written as a complete operand
	case *Binary:
		return binLevel(x.Op)
	case *IsExpr:
		return lvCmp
	case *Assign:
		return lvAssign
	}
	return lvLowest
}

func isOperator(e Expr) bool {
	switch e.(type) {
	case *Unary, *IncDec, *Binary, *IsExpr, *Assign:
		return true
	}
	return false
}

// expr renders e where an expression of at least minLevel is required.
// lead: e starts a statement or pattern. noExtra: never add redundant parens here (lvalues, patterns).
func (r *renderer) expr(e Expr, minLevel int, lead, noExtra bool) {
	need := exprLevel(e) < minLevel
	wrap := need
	if !wrap && !noExtra && !lead {
		switch r.mode {
		case ParenFull:
			wrap = isOperator(e)
		case ParenRandom:
			if isOperator(e) {
				wrap = r.rng.IntN(100) < 35
			} else {
				wrap = r.rng.IntN(100) < 6
			}
		}
	}
	first := len(r.toks)
	if wrap {
		if lead {
			r.leadBad = true
		}
		r.punct("(")
		r.exprInner(e, false, noExtra)
		r.punct(")")
	} else {
		r.exprInner(e, lead, noExtra)
	}
	if _, ok := r.spans[e]; !ok {
		r.spans[e] = [2]int{first, len(r.toks) - 1}
	}
}

func (r *renderer) exprInner(e Expr, lead, noExtra bool) {
	first := len(r.toks)
	defer func() {
		if e != nil {
			r.spans[innerKey{e}] = [2]int{first, len(r.toks) - 1}
		}
	}()
	switch x := e.(type) {
	case *NumLit:
		r.emit(TNum, x.Text)
	case *StrLit:
		r.emit(TStr, x.Raw)
	case *BoolLit:
		if x.V {
			r.word("true")
		} else {
			r.word("false")
		}
	case *NullLit:
		r.word("null")
	case *RegexLit:
		if lead {
			r.leadBad = true
		}
		r.emit(TRegex, x.Pat)
	case *Var:
		r.word(x.Name)
	case *RawExpr:
		r.emit(TRaw, x.Text)
	case *Paren:
		if lead {
			r.leadBad = true
		}
		r.punct("(")
		r.expr(x.X, lvLowest, false, true)
		r.punct(")")
	case *Unary:
		if lead {
			r.leadBad = true
		}
		r.punct(x.Op)
		r.expr(x.X, lvPrefix, false, noExtra)
	case *IncDec:
		if x.Prefix {
			if lead {
				r.leadBad = true
			}
			r.punct(x.Op)
			r.expr(x.X, lvPost, false, true)
		} else {
			r.expr(x.X, lvPost, lead, true)
			r.punct(x.Op)
		}
	case *Binary:
		lv := binLevel(x.Op)
		r.expr(x.L, lv, lead, noExtra)
		r.punct(x.Op)
		r.expr(x.R, lv+1, false, noExtra)
	case *IsExpr:
		r.expr(x.X, lvCmp, lead, noExtra)
		r.word("is")
		r.word(x.T)
	case *Assign:
		r.expr(x.L, lvPost, lead, true)
		r.punct(x.Op)
		r.expr(x.R, lvAssign, false, noExtra)
	case *Member:
		r.expr(x.X, lvPost, lead, noExtra)
		r.punct(".")
		r.word(x.Name)
	case *Index:
		r.expr(x.X, lvPost, lead, noExtra)
		r.punct("[")
		r.expr(x.I, lvLowest+1, false, noExtra)
		r.punct("]")
	case *Call:
		r.expr(x.F, lvPost, lead, noExtra)
		r.punct("(")
		for i, a := range x.Args {
			if i > 0 {
				r.punct(",")
			}
			r.expr(a, lvLowest+1, false, noExtra)
		}
		r.punct(")")
	case *ArrayLit:
		if lead {
			r.leadBad = true
		}
		r.punct("[")
		for i, a := range x.Items {
			if i > 0 {
				r.punct(",")
			}
			r.expr(a, lvLowest+1, false, noExtra)
		}
		r.punct("]")
	case *ObjectLit:
		if lead {
			r.leadBad = true
		}
		r.punct("{")
		for i, k := range x.Keys {
			if i > 0 {
				r.optComma()
			}
			if i < len(x.Quoted) && x.Quoted[i] {
				r.emit(TStr, k)
			} else {
				r.word(k)
			}
			r.punct(":")
			r.expr(x.Vals[i], lvLowest+1, false, noExtra)
		}
		r.punct("}")
	case *MatchExpr:
		r.word("match")
		r.punct("(")
		r.expr(x.Subj, lvLowest+1, false, noExtra)
		r.punct(")")
		r.punct("{")
		for i, c := range x.Cases {
			if i > 0 {
				r.optComma()
			}
			for j, p := range c.Pats {
				if j > 0 {
					r.punct(",")
				}
				r.expr(p, lvLowest+1, false, true)
			}
			r.punct("=>")
			if c.Block != nil {
				r.block(c.Block)
			} else {
				r.expr(c.Body, lvLowest+1, false, noExtra)
			}
		}
		r.punct("}")
		r.lastMatchClose = len(r.toks) - 1
	default:
		panic("render: unknown expr")
	}
}

type innerKey struct{ e any }

// openIf: rendered without braces, a following 'else' would attach to an if inside s.
func openIf(s Stmt) bool {
	switch x := s.(type) {
	case *If:
		if x.Else == nil {
			return true
		}
		return openIf(x.Else)
	case *While:
		return openIf(x.Body)
	case *For:
		return openIf(x.Body)
	case *ForIn:
		return openIf(x.Body)
	}
	return false
}

func endsInBrace(s Stmt) bool {
	switch x := s.(type) {
	case *Block:
		return true
	case *If:
		if x.Else != nil {
			return endsInBrace(x.Else)
		}
		return endsInBrace(x.Then)
	case *While:
		return endsInBrace(x.Body)
	case *For:
		return endsInBrace(x.Body)
	case *ForIn:
		return endsInBrace(x.Body)
	case *ExprStmt:
		return exprEndsInMatch(x.X)
	case *Return:
		return x.X != nil && exprEndsInMatch(x.X)
	case *Print:
		return len(x.Args) > 0 && exprEndsInMatch(x.Args[len(x.Args)-1])
	}
	return false
}

// exprEndsInMatch: the last token of the rendering is the '}' of a match expression
// (only in minimal mode is this reliable; the renderer re-checks on tokens).
func exprEndsInMatch(e Expr) bool {
	switch x := e.(type) {
	case *MatchExpr:
		return true
	case *Binary:
		return exprEndsInMatch(x.R)
	case *Assign:
		return exprEndsInMatch(x.R)
	case *Unary:
		return exprEndsInMatch(x.X)
	}
	return false
}

func (r *renderer) block(b *Block) {
	first := len(r.toks)
	r.punct("{")
	r.stmts(b.Stmts)
	r.punct("}")
	r.spans[b] = [2]int{first, len(r.toks) - 1}
}

func (r *renderer) stmts(ss []Stmt) {
	for i, s := range ss {
		if i > 0 {
			// was the previous statement's last token a '}' that ended a block or match?
			if r.lastStmtBrace {
				r.gap = GapStmtBrace
			} else {
				r.gap = GapStmt
			}
		}
		r.stmt(s)
	}
}

func (r *renderer) stmt(s Stmt) {
	first := len(r.toks)
	r.lastStmtBrace = false
	switch x := s.(type) {
	case *Block:
		r.block(x)
		r.lastStmtBrace = true
	case *Print:
		r.word("print")
		for i, a := range x.Args {
			if i == 0 {
				r.gap = GapNoNL
			} else {
				r.punct(",")
				r.gap = GapNoNL
			}
			r.expr(a, lvLowest+1, false, false)
		}
		r.lastStmtBrace = len(x.Args) > 0 && r.endsWithMatchBrace(first)
	case *ExprStmt:
		r.expr(x.X, lvLowest, true, false)
		r.lastStmtBrace = r.endsWithMatchBrace(first)
	case *Return:
		r.word("return")
		if x.X != nil {
			r.gap = GapNoNL
			r.expr(x.X, lvLowest+1, false, false)
			r.lastStmtBrace = r.endsWithMatchBrace(first)
		}
	case *If:
		r.word("if")
		r.punct("(")
		r.expr(x.C, lvLowest+1, false, false)
		r.punct(")")
		if x.Else != nil && openIf(x.Then) {
			r.block(&Block{Stmts: []Stmt{x.Then}})
			r.lastStmtBrace = true
		} else {
			r.stmt(x.Then)
		}
		if x.Else != nil {
			r.word("else")
			r.stmt(x.Else)
		}
	case *While:
		r.word("while")
		r.punct("(")
		r.expr(x.C, lvLowest+1, false, false)
		r.punct(")")
		r.stmt(x.Body)
	case *For:
		r.word("for")
		r.punct("(")
		r.expr(x.Pre, lvLowest+1, false, false)
		r.gap = GapNoNL
		r.punct(";")
		r.expr(x.C, lvLowest+1, false, false)
		r.gap = GapNoNL
		r.punct(";")
		r.expr(x.Post, lvLowest+1, false, false)
		r.punct(")")
		r.stmt(x.Body)
	case *ForIn:
		r.word("for")
		r.punct("(")
		r.word(x.V)
		if x.V2 != "" {
			r.punct(",")
			r.word(x.V2)
		}
		r.word("in")
		r.expr(x.It, lvLowest+1, false, false)
		r.punct(")")
		r.stmt(x.Body)
	case *Break:
		r.word("break")
	case *Continue:
		r.word("continue")
	case *Next:
		r.word("next")
	case *Exit:
		r.word("exit")
	case *RawStmt:
		r.emit(TRaw, x.Text)
	default:
		panic("render: unknown stmt")
	}
	r.spans[s] = [2]int{first, len(r.toks) - 1}
}

// endsWithMatchBrace: the statement just rendered ends with the closing brace of a match
// expression (the parser treats the statement as ended there).
func (r *renderer) endsWithMatchBrace(first int) bool {
	if len(r.toks) == 0 {
		return false
	}
	return r.lastMatchClose == len(r.toks)-1 && r.lastMatchClose >= first
}

func RenderProgram(p *Program, mode ParenMode, rng *rand.Rand) *Rendered {
	r := &renderer{spans: map[any][2]int{}, mode: mode, rng: rng, gap: GapStart, lastMatchClose: -1}
	prevBodyless := false
	for i, it := range p.Items {
		if i > 0 {
			r.gap = GapTop
		}
		first := len(r.toks)
		switch x := it.(type) {
		case *Rule:
			switch x.Kind {
			case "BEGIN", "END", "BEGINFILE", "ENDFILE":
				r.word(x.Kind)
			default:
				if x.Pattern != nil {
					before := r.leadBad
					r.expr(x.Pattern, lvLowest+1, true, false)
					if !prevBodyless {
						// a pattern after a complete rule body may start with anything
						r.leadBad = before
					}
				} else if prevBodyless {
					r.leadBad = true // '{' would become the body of the previous rule
				}
			}
			if x.Body != nil {
				r.block(x.Body)
			}
			prevBodyless = x.Body == nil
		case *Func:
			r.word("function")
			r.word(x.Name)
			r.punct("(")
			for j, a := range x.Params {
				if j > 0 {
					r.punct(",")
				}
				r.word(a)
			}
			r.punct(")")
			r.block(x.Body)
			prevBodyless = false
		}
		r.spans[it] = [2]int{first, len(r.toks) - 1}
	}
	return &Rendered{Toks: r.toks, Spans: r.spans, LeadBad: r.leadBad}
}

func RenderExpr(e Expr, mode ParenMode, rng *rand.Rand) *Rendered {
	r := &renderer{spans: map[any][2]int{}, mode: mode, rng: rng, gap: GapStart, lastMatchClose: -1}
	r.expr(e, lvLowest, false, false)
	return &Rendered{Toks: r.toks, Spans: r.spans}
}

// ---------------------------------------------------------------------------
// layout

var twoCharOps = map[string]bool{"++": true, "--": true, "+=": true, "-=": true, "*=": true, "/=": true, "==": true,
	"=>": true, "<=": true, ">=": true, "!=": true, "!~": true, "&&": true, "||": true}

// needSep: written without white space the two tokens would not lex back as themselves.
func needSep(a, b *Tok) bool {
	if a.Kind == TRaw || b.Kind == TRaw {
		return true
	}
	aw := a.Kind == TWord || a.Kind == TNum
	bw := b.Kind == TWord || b.Kind == TNum
	if aw && bw {
		return true
	}
	if a.Kind == TPunct && a.Text == "." && b.Kind == TNum {
		return true
	}
	if a.Kind == TPunct && b.Kind == TPunct {
		if twoCharOps[a.Text[len(a.Text)-1:]+b.Text[:1]] {
			return true
		}
	}
	if a.Kind == TPunct && a.Text == "/" && b.Kind == TRegex {
		return true
	}
	if a.Kind == TRegex && b.Kind == TRegex {
		return true
	}
	return false
}

type LayoutStats struct {
	Seps     map[string]int
	Changed  int // gaps that differ from the canonical layout
	Newlines int
	Comments int
	Glued    int
	Semis    int
}

func tokText(t *Tok, q byte) string {
	switch t.Kind {
	case TStr:
		return string(q) + t.Text + string(q)
	case TRegex:
		return "/" + t.Text + "/"
	}
	return t.Text
}

func pickQuote(t *Tok, rng *rand.Rand) byte {
	hasS := strings.Contains(t.Text, "'")
	hasD := strings.Contains(t.Text, "\"")
	switch {
	case hasS:
		return '"'
	case hasD:
		return '\''
	case rng == nil:
		return '\''
	case rng.IntN(2) == 0:
		return '\''
	}
	return '"'
}

var commentPool = []string{"# c", "#", "# if (x) { print } else", "#é日本", "# 'quote\" /re/", "#\t}"}

func hws(rng *rand.Rand, allowEmpty bool) string {
	opts := []string{" ", "  ", "\t", " \t", "\r", " \r "}
	if allowEmpty && rng.IntN(3) == 0 {
		return ""
	}
	return opts[rng.IntN(len(opts))]
}

func nlSeq(rng *rand.Rand, st *LayoutStats) string {
	var sb strings.Builder
	if rng.IntN(4) == 0 {
		sb.WriteString(hws(rng, false))
	}
	if rng.IntN(5) == 0 {
		sb.WriteString(commentPool[rng.IntN(len(commentPool))])
		st.Comments++
	}
	if rng.IntN(8) == 0 {
		sb.WriteString("\r")
	}
	sb.WriteString("\n")
	st.Newlines++
	for rng.IntN(5) == 0 {
		if rng.IntN(3) == 0 {
			sb.WriteString(commentPool[rng.IntN(len(commentPool))])
			st.Comments++
		}
		sb.WriteString("\n")
		st.Newlines++
	}
	if rng.IntN(3) == 0 {
		sb.WriteString(hws(rng, false))
	}
	return sb.String()
}

// Layout turns the token list into text. rng == nil gives the canonical layout: one
// space between tokens, one statement per line, single quotes.
func (rd *Rendered) Layout(rng *rand.Rand) (string, *LayoutStats) {
	st := &LayoutStats{Seps: map[string]int{}}
	var sb strings.Builder
	for i := range rd.Toks {
		t := &rd.Toks[i]
		var prev *Tok
		if i > 0 {
			prev = &rd.Toks[i-1]
		}
		sep := ""
		must := prev != nil && needSep(prev, t)
		if rng == nil {
			switch t.Gap {
			case GapStart:
				sep = ""
			case GapStmt, GapStmtBrace, GapTop:
				sep = "\n"
			default:
				sep = " "
			}
		} else {
			canon := " "
			switch t.Gap {
			case GapStart:
				canon = ""
				if rng.IntN(4) == 0 {
					sep = nlSeq(rng, st)
				} else if rng.IntN(4) == 0 {
					sep = hws(rng, false)
				}
			case GapFree, GapTop:
				if t.Gap == GapTop {
					canon = "\n"
				}
				k := rng.IntN(10)
				switch {
				case k < 2 && !must:
					sep = ""
					st.Glued++
				case k < 6:
					sep = hws(rng, false)
				default:
					sep = nlSeq(rng, st)
				}
			case GapNoNL:
				if !must && rng.IntN(3) == 0 {
					sep = ""
					st.Glued++
				} else {
					sep = hws(rng, false)
				}
			case GapStmt:
				canon = "\n"
				if rng.IntN(2) == 0 {
					sep = nlSeq(rng, st)
				} else {
					st.Semis++
					sep = hws(rng, true) + ";"
					switch rng.IntN(3) {
					case 0:
						sep += hws(rng, true)
					case 1:
						sep += nlSeq(rng, st)
					default:
						sep += " "
					}
				}
			case GapStmtBrace:
				canon = "\n"
				if rng.IntN(3) > 0 {
					sep = nlSeq(rng, st)
				} else if must {
					sep = hws(rng, false)
				} else {
					sep = hws(rng, true)
				}
			}
			if sep != canon {
				st.Changed++
			}
		}
		sb.WriteString(sep)
		q := byte('\'')
		if t.Kind == TStr {
			q = pickQuote(t, rng)
		}
		t.Quote = q
		t.Off = sb.Len()
		sb.WriteString(tokText(t, q))
		t.End = sb.Len()
	}
	if rng != nil {
		switch rng.IntN(4) {
		case 0:
			sb.WriteString("\n")
		case 1:
			sb.WriteString(" # end")
		case 2:
			sb.WriteString("\n\n# end\n")
		}
	} else {
		sb.WriteString("\n")
	}
	rd.Text = sb.String()
	return rd.Text, st
}

// Span returns the byte span [start, end) of a node in the last layout.
func (rd *Rendered) Span(node any) (int, int, bool) {
	sp, ok := rd.Spans[node]
	if !ok || sp[0] > sp[1] || sp[1] >= len(rd.Toks) {
		return 0, 0, false
	}
	return rd.Toks[sp[0]].Off, rd.Toks[sp[1]].End, true
}

// Canon renders a program with minimal parentheses in the canonical layout.
func Canon(p *Program) string {
	rd := RenderProgram(p, ParenMinimal, nil)
	s, _ := rd.Layout(nil)
	return s
}

func CanonExpr(e Expr) string {
	rd := RenderExpr(e, ParenMinimal, nil)
	s, _ := rd.Layout(nil)
	return strings.TrimRight(s, "\n")
}
