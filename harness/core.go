package main

// Core of the harness: property registry, per-case context, worker
// subprocesses with a START/END journal (crash isolation), orchestrator,
// evidence writer. See DESIGN.md §2.2, §2.8.

import (
	"bufio"
	"encoding/json"
	"fmt"
	"hash/fnv"
	"math/rand/v2"
	"os"
	"os/exec"
	"path/filepath"
	"sort"
	"strconv"
	"strings"
	"sync"
	"time"
)

type Prop struct {
	ID    string
	Level string // exploration | fault_enumeration
	Rule  string // how cases are generated and what non-trivial means
	// NumCases returns the number of cases of the tier (pure function of tier).
	NumCases func(tier string) int
	// Run executes case c.Idx. All randomness must come from c.Rng.
	Run func(c *Case)
	// MinConclusive: the run fails (exit 2) if fewer oracle evaluations were conclusive.
	MinConclusive func(tier string) int
	Assumptions   []string
	// Exhaustive names the enumerated sub-space that is run completely (for evidence).
	Exhaustive func(tier string) string
	// Serial: run with this many workers at most (0 = default).
	MaxWorkers int
	// ChunkSize override (cases per worker process).
	Chunk func(tier string) int
	// CrashIsViolation: the death of a worker by running out of memory is a violation too (C20).
	CrashIsViolation bool
}

var props = map[string]*Prop{}

func register(p *Prop) { props[p.ID] = p }

// ---------------------------------------------------------------------------

type Violation struct {
	Case   int            `json:"case"`
	Desc   string         `json:"desc"`
	Replay map[string]any `json:"replay"`
}

type Summary struct {
	From, To     int
	Evaluations  int
	Held         int
	Violations   []Violation
	Known        map[string]int    // finding id -> count
	KnownDesc    map[string]string // finding id -> one witness description
	Inconclusive map[string]int
	Notes        []string
	Counters     map[string]int
	Maxes        map[string]int
	Distinct     []uint64 // hashes of distinct non-trivial cases
	Samples      []any
	Done         bool
}

func newSummary() *Summary {
	return &Summary{Known: map[string]int{}, KnownDesc: map[string]string{}, Inconclusive: map[string]int{},
		Counters: map[string]int{}, Maxes: map[string]int{}}
}

type Case struct {
	Idx   int
	Tier  string
	Seed  int64
	Rng   *rand.Rand
	sum   *Summary
	dset  map[uint64]struct{}
	env   *Env
	nsamp int
}

type Env struct {
	Prop      *Prop
	Tier      string
	Seed      int64
	Jqawk     string // path to the product binary built from the tree under test
	JqawkRace string // optional: the same built with -race (checkptr); thorough C01 only
	Repo      string
	Scratch   string // per-worker scratch directory (under /verif/build)
	Known     []Finding
	Verbose   bool
}

func (c *Case) Env() *Env { return c.env }

func (c *Case) Count(key string)         { c.sum.Counters[key]++ }
func (c *Case) CountN(key string, n int) { c.sum.Counters[key] += n }
func (c *Case) Max(key string, v int) {
	if v > c.sum.Maxes[key] {
		c.sum.Maxes[key] = v
	}
}

// NonTrivial marks this case (or a sub-case) as non-trivial; key identifies it for distinctness.
func (c *Case) NonTrivial(key string) {
	h := fnv.New64a()
	h.Write([]byte(key))
	v := h.Sum64()
	if _, ok := c.dset[v]; !ok {
		c.dset[v] = struct{}{}
		c.sum.Distinct = append(c.sum.Distinct, v)
	}
}

func (c *Case) Sample(v any) {
	if len(c.sum.Samples) < 3 {
		c.sum.Samples = append(c.sum.Samples, v)
	}
}

// Held records one conclusive oracle evaluation without disagreement.
func (c *Case) Held() { c.sum.Evaluations++; c.sum.Held++ }

func (c *Case) Inconclusive(reason string) { c.sum.Inconclusive[reason]++ }

func (c *Case) Note(s string) {
	if len(c.sum.Notes) < 20 {
		c.sum.Notes = append(c.sum.Notes, s)
	}
}

// Violation records a conclusive oracle evaluation that disagreed. If a known
// finding registered for this property matches (by tag), it is attributed to it.
func (c *Case) Violation(desc string, tags []string, replay map[string]any) {
	c.sum.Evaluations++
	for _, f := range c.env.Known {
		if f.Property != c.env.Prop.ID || f.Tag == "" {
			continue
		}
		for _, t := range tags {
			if t == f.Tag {
				c.sum.Known[f.ID]++
				if _, ok := c.sum.KnownDesc[f.ID]; !ok {
					c.sum.KnownDesc[f.ID] = f.What
				}
				return
			}
		}
	}
	if replay == nil {
		replay = map[string]any{}
	}
	replay["tags"] = tags
	c.sum.Violations = append(c.sum.Violations, Violation{Case: c.Idx, Desc: desc, Replay: replay})
}

func caseRng(seed int64, prop string, idx int) *rand.Rand {
	h := fnv.New64a()
	fmt.Fprintf(h, "%d/%s/%d", seed, prop, idx)
	s1 := h.Sum64()
	fmt.Fprintf(h, "/x")
	s2 := h.Sum64()
	return rand.New(rand.NewPCG(s1, s2))
}

// ---------------------------------------------------------------------------
// worker

func runWorker(env *Env, from, to int, journal, out string) {
	jf, err := os.OpenFile(journal, os.O_CREATE|os.O_WRONLY|os.O_TRUNC, 0o644)
	if err != nil {
		fmt.Fprintln(os.Stderr, "journal:", err)
		os.Exit(2)
	}
	sum := newSummary()
	sum.From, sum.To = from, to
	dset := map[uint64]struct{}{}
	for i := from; i < to; i++ {
		jf.WriteString("S " + strconv.Itoa(i) + "\n") // unbuffered: survives a fatal error
		c := &Case{Idx: i, Tier: env.Tier, Seed: env.Seed, Rng: caseRng(env.Seed, env.Prop.ID, i), sum: sum, dset: dset, env: env}
		t0 := time.Now()
		env.Prop.Run(c)
		if d := time.Since(t0); d > 20*time.Second { // reported for tuning only, never part of a verdict
			c.Max("slowest_case_seconds", int(d.Seconds()))
			if f := os.Getenv("VERIF_SLOWLOG"); f != "" {
				if lf, err := os.OpenFile(f, os.O_CREATE|os.O_APPEND|os.O_WRONLY, 0o644); err == nil {
					fmt.Fprintf(lf, "%s case %d %.1fs\n", env.Prop.ID, i, d.Seconds())
					lf.Close()
				}
			}
		}
	}
	jf.WriteString("E\n")
	jf.Close()
	sum.Done = true
	b, _ := json.Marshal(sum)
	if err := os.WriteFile(out, b, 0o644); err != nil {
		fmt.Fprintln(os.Stderr, "summary:", err)
		os.Exit(2)
	}
}

// ---------------------------------------------------------------------------
// orchestrator

type chunk struct{ from, to int }

func lastStart(journal string) (int, bool) {
	f, err := os.Open(journal)
	if err != nil {
		return 0, false
	}
	defer f.Close()
	last, ok := 0, false
	sc := bufio.NewScanner(f)
	for sc.Scan() {
		l := sc.Text()
		if strings.HasPrefix(l, "S ") {
			if n, err := strconv.Atoi(l[2:]); err == nil {
				last, ok = n, true
			}
		}
	}
	return last, ok
}

func tailFile(path string, n int) string {
	b, err := os.ReadFile(path)
	if err != nil {
		return ""
	}
	if len(b) > n {
		b = b[len(b)-n:]
	}
	return string(b)
}

func headFile(path string, n int) string {
	b, err := os.ReadFile(path)
	if err != nil {
		return ""
	}
	if len(b) > n {
		b = b[:n]
	}
	return string(b)
}

type crashInfo struct {
	Case   int
	Kind   string // stack-overflow | oom | signal | exit
	Stderr string
}

func classifyDeath(stderr string) string {
	switch {
	case strings.Contains(stderr, "stack overflow") || strings.Contains(stderr, "goroutine stack exceeds"):
		return "stack-overflow"
	case strings.Contains(stderr, "out of memory") || strings.Contains(stderr, "cannot allocate memory"):
		return "oom"
	case strings.Contains(stderr, "fatal error:"):
		return "fatal"
	case strings.Contains(stderr, "panic:"):
		return "panic"
	case strings.Contains(stderr, "watchdog"):
		return "watchdog"
	}
	return "died"
}

func orchestrate(env *Env, self string, only int) int {
	p := env.Prop
	start := time.Now()
	n := p.NumCases(env.Tier)
	workers := 16
	if v := os.Getenv("VERIF_WORKERS"); v != "" {
		if k, err := strconv.Atoi(v); err == nil && k > 0 {
			workers = k
		}
	}
	if p.MaxWorkers > 0 && p.MaxWorkers < workers {
		workers = p.MaxWorkers
	}
	csize := (n + workers*4 - 1) / (workers * 4)
	if p.Chunk != nil {
		csize = p.Chunk(env.Tier)
	}
	if csize < 1 {
		csize = 1
	}
	var queue []chunk
	if only >= 0 {
		queue = []chunk{{only, only + 1}}
	} else {
		for a := 0; a < n; a += csize {
			b := a + csize
			if b > n {
				b = n
			}
			queue = append(queue, chunk{a, b})
		}
	}
	scratch := filepath.Join(env.Scratch, fmt.Sprintf("%s-%d", p.ID, os.Getpid()))
	os.RemoveAll(scratch)
	os.MkdirAll(scratch, 0o755)
	defer os.RemoveAll(scratch)

	var mu sync.Mutex
	total := newSummary()
	dset := map[uint64]struct{}{}
	var crashes []crashInfo
	pending := queue
	active := 0
	cond := sync.NewCond(&mu)
	seq := 0

	merge := func(s *Summary) {
		total.Evaluations += s.Evaluations
		total.Held += s.Held
		total.Violations = append(total.Violations, s.Violations...)
		for k, v := range s.Known {
			total.Known[k] += v
		}
		for k, v := range s.KnownDesc {
			if _, ok := total.KnownDesc[k]; !ok {
				total.KnownDesc[k] = v
			}
		}
		for k, v := range s.Inconclusive {
			total.Inconclusive[k] += v
		}
		for k, v := range s.Counters {
			total.Counters[k] += v
		}
		for k, v := range s.Maxes {
			if v > total.Maxes[k] {
				total.Maxes[k] = v
			}
		}
		for _, h := range s.Distinct {
			dset[h] = struct{}{}
		}
		if len(total.Notes) < 20 {
			total.Notes = append(total.Notes, s.Notes...)
		}
		if s.From == 0 || len(total.Samples) == 0 {
			if len(s.Samples) > 0 && (s.From == 0 || len(total.Samples) == 0) {
				total.Samples = s.Samples
			}
		}
	}

	runChunk := func(ch chunk, id int) {
		journal := filepath.Join(scratch, fmt.Sprintf("j%d", id))
		out := filepath.Join(scratch, fmt.Sprintf("o%d", id))
		errf := filepath.Join(scratch, fmt.Sprintf("e%d", id))
		wscratch := filepath.Join(scratch, fmt.Sprintf("w%d", id))
		os.MkdirAll(wscratch, 0o755)
		ef, _ := os.Create(errf)
		cmd := exec.Command(self, "worker", p.ID, "--tier", env.Tier, "--seed", strconv.FormatInt(env.Seed, 10),
			"--from", strconv.Itoa(ch.from), "--to", strconv.Itoa(ch.to), "--journal", journal, "--out", out,
			"--jqawk", env.Jqawk, "--jqawk-race", env.JqawkRace, "--repo", env.Repo, "--scratch", wscratch)
		cmd.Stdout = ef
		cmd.Stderr = ef
		cmd.Env = append(os.Environ(), "GOTRACEBACK=single")
		err := cmd.Run()
		ef.Close()
		os.RemoveAll(wscratch)
		mu.Lock()
		defer mu.Unlock()
		var s Summary
		if b, rerr := os.ReadFile(out); rerr == nil && json.Unmarshal(b, &s) == nil && s.Done {
			merge(&s)
			os.Remove(journal)
			os.Remove(out)
			os.Remove(errf)
			return
		}
		// the worker died: find the case it was running
		k, ok := lastStart(journal)
		stderr := tailFile(errf, 4000)
		head := headFile(errf, 1500)
		if !ok {
			crashes = append(crashes, crashInfo{Case: -1, Kind: "worker-failed", Stderr: fmt.Sprintf("%v\n%s", err, stderr)})
			return
		}
		crashes = append(crashes, crashInfo{Case: k, Kind: classifyDeath(head + stderr), Stderr: head + "\n...\n" + stderr})
		if k > ch.from {
			pending = append(pending, chunk{ch.from, k})
		}
		if k+1 < ch.to {
			pending = append(pending, chunk{k + 1, ch.to})
		}
		os.Remove(journal)
		os.Remove(errf)
	}

	mu.Lock()
	for len(pending) > 0 || active > 0 {
		if len(pending) > 0 && active < workers {
			ch := pending[0]
			pending = pending[1:]
			active++
			seq++
			id := seq
			go func() {
				runChunk(ch, id)
				mu.Lock()
				active--
				cond.Broadcast()
				mu.Unlock()
			}()
			continue
		}
		cond.Wait()
	}
	mu.Unlock()

	// crashes are handed to the property's crash policy: by default a crash is a violation
	replayDir := filepath.Join(evidenceDir(), "replay")
	os.MkdirAll(replayDir, 0o755)
	if only < 0 {
		if old, _ := filepath.Glob(filepath.Join(replayDir, fmt.Sprintf("%s-%s-s%d-*", p.ID, env.Tier, env.Seed))); len(old) > 0 {
			for _, f := range old {
				os.Remove(f)
			}
		}
	}
	exit := 0
	nviol := 0
	workerFailed := false
	for _, cr := range crashes {
		if cr.Case < 0 {
			fmt.Printf("ERROR worker could not run: %s\n", cr.Stderr)
			workerFailed = true
			continue
		}
		if (cr.Kind == "oom" && !p.CrashIsViolation) || cr.Kind == "watchdog" {
			total.Inconclusive["worker-"+cr.Kind]++
			fmt.Printf("NOTE property=%s case=%d worker lost (%s): inconclusive\n", p.ID, cr.Case, cr.Kind)
			continue
		}
		total.Evaluations++
		total.Violations = append(total.Violations, Violation{Case: cr.Case, Desc: "worker process died (" + cr.Kind + ") while running this case",
			Replay: map[string]any{"stderr": cr.Stderr}})
	}
	sort.Slice(total.Violations, func(i, j int) bool { return total.Violations[i].Case < total.Violations[j].Case })
	if dump := os.Getenv("VERIF_DUMP"); dump != "" {
		var sb strings.Builder
		for _, v := range total.Violations {
			sb.WriteString(fmt.Sprintf("case=%d %s\n", v.Case, oneLine(v.Desc, 400)))
		}
		os.WriteFile(dump, []byte(sb.String()), 0o644)
	}
	for i, v := range total.Violations {
		nviol++
		if i >= 25 {
			continue
		}
		path := filepath.Join(replayDir, fmt.Sprintf("%s-%s-s%d-c%d-%d.json", p.ID, env.Tier, env.Seed, v.Case, i))
		rp := map[string]any{"property": p.ID, "tier": env.Tier, "seed": env.Seed, "case": v.Case, "desc": v.Desc, "detail": v.Replay}
		b, _ := json.MarshalIndent(rp, "", " ")
		os.WriteFile(path, b, 0o644)
		fmt.Printf("VIOLATION property=%s replay=%s\n", p.ID, path)
		fmt.Printf("  %s\n", oneLine(v.Desc, 300))
		exit = 1
	}
	if nviol > 25 {
		fmt.Printf("  (%d further violations not written out)\n", nviol-25)
	}
	kids := make([]string, 0, len(total.Known))
	for k := range total.Known {
		kids = append(kids, k)
	}
	sort.Strings(kids)
	for _, k := range kids {
		fmt.Printf("KNOWN-FINDING: property=%s %s %s (%d cases)\n", p.ID, k, total.KnownDesc[k], total.Known[k])
	}
	for _, nmsg := range total.Notes {
		fmt.Printf("NOTE %s\n", nmsg)
	}
	wall := time.Since(start).Seconds()
	conclusive := total.Evaluations
	minc := 0
	if p.MinConclusive != nil {
		minc = p.MinConclusive(env.Tier)
	}
	if only < 0 {
		writeEvidence(env, total, len(dset), nviol, wall)
		if workerFailed {
			exit = 2
		} else if conclusive < minc && exit == 0 {
			fmt.Printf("ERROR property=%s only %d conclusive evaluations (floor %d): the run observed too little\n", p.ID, conclusive, minc)
			exit = 2
		}
	}
	inc := 0
	for _, v := range total.Inconclusive {
		inc += v
	}
	fmt.Printf("SUMMARY property=%s tier=%s seed=%d cases=%d evaluations=%d held=%d violations=%d known=%d inconclusive=%d distinct_nontrivial=%d wall=%.1fs\n",
		p.ID, env.Tier, env.Seed, n, total.Evaluations, total.Held, nviol, len(total.Known), inc, len(dset), wall)
	return exit
}

func oneLine(s string, n int) string {
	s = strings.ReplaceAll(s, "\n", "\\n")
	if len(s) > n {
		s = s[:n] + "..."
	}
	return s
}

// evidenceDir: where evidence and replay files go (the self-test redirects it so that runs
// against mutated scratch copies never overwrite the evidence of the real tree).
func evidenceDir() string {
	if v := os.Getenv("VERIF_EVIDENCE_DIR"); v != "" {
		return v
	}
	return filepath.Join(verifRoot(), "evidence")
}

func verifRoot() string {
	if v := os.Getenv("VERIF_ROOT"); v != "" {
		return v
	}
	return "/verif"
}

func writeEvidence(env *Env, s *Summary, distinct, nviol int, wall float64) {
	p := env.Prop
	cov := map[string]any{
		"evaluations":         s.Evaluations,
		"distinct_nontrivial": distinct,
		"rule":                p.Rule + round8RuleNote(p.ID),
		"samples":             s.Samples,
		"held":                s.Held,
		"known_finding_cases": s.Known,
		"inconclusive":        s.Inconclusive,
		"observed":            s.Counters,
		"observed_max":        s.Maxes,
		"cases":               p.NumCases(env.Tier),
	}
	if len(s.Samples) == 0 {
		cov["samples"] = []any{"(no sample recorded)"}
	}
	if p.Exhaustive != nil {
		if e := p.Exhaustive(env.Tier); e != "" {
			cov["exhaustive"] = true
			cov["exhaustive_over"] = e
		}
	}
	ev := map[string]any{
		"property_id": p.ID,
		"tier":        env.Tier,
		"seed":        env.Seed,
		"level":       p.Level,
		"coverage":    cov,
		"assumptions": p.Assumptions,
		"wall_s":      wall,
		"violations":  nviol,
	}
	b, _ := json.MarshalIndent(ev, "", " ")
	os.MkdirAll(evidenceDir(), 0o755)
	os.WriteFile(filepath.Join(evidenceDir(), p.ID+".json"), b, 0o644)
}

// ---------------------------------------------------------------------------
// known findings

type Finding struct {
	Property string
	ID       string
	Tag      string
	Witness  string
	What     string
}

func loadFindings() []Finding {
	var out []Finding
	b, err := os.ReadFile(filepath.Join(verifRoot(), "findings", "KNOWN_FINDINGS.txt"))
	if err != nil {
		return nil
	}
	for _, line := range strings.Split(string(b), "\n") {
		line = strings.TrimSpace(line)
		if !strings.HasPrefix(line, "finding:") {
			continue
		}
		rest := strings.TrimSpace(strings.TrimPrefix(line, "finding:"))
		f := Finding{}
		fields := strings.Fields(rest)
		i := 0
		for ; i < len(fields); i++ {
			kv := strings.SplitN(fields[i], "=", 2)
			if len(kv) != 2 {
				break
			}
			switch kv[0] {
			case "property":
				f.Property = kv[1]
			case "id":
				f.ID = kv[1]
			case "tag":
				f.Tag = kv[1]
			case "witness":
				f.Witness = kv[1]
			default:
				goto done
			}
		}
	done:
		f.What = strings.Join(fields[i:], " ")
		out = append(out, f)
	}
	return out
}
