package main

// C06 — precedence and associativity (DESIGN §4 C06).
// M3: minimal vs fully parenthesised rendering run by the same implementation.
// M2: the model's evaluation of the intended tree vs the minimal rendering.

import (
	"fmt"
	"math/rand/v2"
	"strings"
)

var c06Ops = []string{"+", "-", "*", "/", "%", "==", "!=", "<", "<=", ">", ">=", "~", "!~", "&&", "||", "is", "=", "+=", "-=", "*=", "/="}

func c06Level(op string) int {
	switch op {
	case "=", "+=", "-=", "*=", "/=":
		return lvAssign
	case "is":
		return lvCmp
	}
	return binLevel(op)
}

func isAssignOp(op string) bool { return c06Level(op) == lvAssign }

// flat sequence: operands[0] ops[0] operands[1] ... ; for "is" the right operand is a type name.
type flatSeq struct {
	operands []Expr
	ops      []string
	types    []string // type name for each "is" op (same index as ops)
}

// treeOf builds the tree the documented grammar assigns to the flat sequence
// (precedence climbing over §3.3). bad reports an assignment whose target is not assignable.
func (f *flatSeq) treeOf() (e Expr, bad bool) {
	pos := 0
	var parse func(min int) Expr
	parse = func(min int) Expr {
		lhs := f.operands[pos]
		for pos < len(f.ops) {
			op := f.ops[pos]
			lv := c06Level(op)
			if lv < min {
				break
			}
			if op == "is" {
				lhs = &IsExpr{X: lhs, T: f.types[pos]}
				pos++
				// the operand slot after "is" is unused: skip it
				continue
			}
			pos++
			if isAssignOp(op) {
				rhs := parse(lv)
				if !isLocation(lhs) {
					bad = true
				}
				lhs = &Assign{Op: op, L: lhs, R: rhs}
			} else {
				rhs := parse(lv + 1)
				lhs = Bin(op, lhs, rhs)
			}
		}
		return lhs
	}
	e = parse(lvLowest)
	return e, bad
}

// flatText writes the sequence without any parentheses.
func (f *flatSeq) flatText() string {
	var sb strings.Builder
	sb.WriteString(CanonExpr(f.operands[0]))
	for i, op := range f.ops {
		sb.WriteString(" " + op + " ")
		if op == "is" {
			sb.WriteString(f.types[i])
		} else {
			sb.WriteString(CanonExpr(f.operands[i+1]))
		}
	}
	return sb.String()
}

// bracketings returns all binary bracketings of the sequence as trees (ignoring precedence);
// invalid ones (non-assignable target) are dropped.
func (f *flatSeq) bracketings() []Expr {
	n := len(f.ops)
	type span struct{ i, j int }
	memo := map[span][]Expr{}
	var build func(i, j int) []Expr // operands i..j inclusive
	build = func(i, j int) []Expr {
		if r, ok := memo[span{i, j}]; ok {
			return r
		}
		var out []Expr
		if i == j {
			out = []Expr{f.operands[i]}
		} else {
			for k := i; k < j; k++ { // split at op k
				op := f.ops[k]
				if op == "is" {
					// "is" takes no right operand expression: only valid when the right part is the unused slot
					if k+1 == j {
						for _, l := range build(i, k) {
							out = append(out, &IsExpr{X: l, T: f.types[k]})
						}
					}
					continue
				}
				for _, l := range build(i, k) {
					for _, r := range build(k+1, j) {
						if isAssignOp(op) {
							if isLocation(l) {
								out = append(out, &Assign{Op: op, L: l, R: r})
							}
						} else {
							out = append(out, Bin(op, l, r))
						}
					}
				}
			}
		}
		memo[span{i, j}] = out
		return out
	}
	_ = n
	return build(0, len(f.operands)-1)
}

var c06Setup = []Stmt{
	ES(Asg(V("x"), N("8"))), ES(Asg(V("y"), N("3"))), ES(Asg(V("z"), N("2"))), ES(Asg(V("w"), N("0.5"))),
	ES(Asg(V("s"), S("10"))), ES(Asg(V("t"), S("9"))), ES(Asg(V("p"), &BoolLit{V: true})), ES(Asg(V("q"), &BoolLit{V: false})),
}

var c06LeafPool = [][]string{
	{"x", "y", "z", "w"}, {"y", "x", "w", "z"}, {"s", "t", "z", "x"}, {"z", "s", "y", "t"}, {"p", "y", "q", "z"}, {"w", "z", "x", "p"},
	{"t", "w", "s", "q"}, {"x", "x", "y", "y"},
}

var c06Types = []string{"number", "string", "bool"}

func c06Program(e Expr) *Program {
	stm := append([]Stmt{}, c06Setup...)
	stm = append(stm, Pr(S("v"), e), Pr(V("x"), V("y"), V("z"), V("w"), V("s"), V("t"), V("p"), V("q")))
	return &Program{Items: []any{&Rule{Kind: "BEGIN", Body: &Block{Stmts: stm}}}}
}

func c06ProgText(exprText string) string {
	p := c06Program(&RawExpr{Text: exprText})
	return Canon(p)
}

func modelEval(e Expr) (string, string) {
	mo := RunModel(c06Program(e), nil, nil, ModelOpts{Budget: 20000})
	return mo.Class, mo.Stdout
}

// c06Flat checks one flat sequence.
func c06Flat(c *Case, f *flatSeq, label string) {
	tree, bad := f.treeOf()
	flat := f.flatText()
	text := c06ProgText(flat)
	c.Count("sequences:" + label)
	if bad {
		// the grammar makes the target of an assignment a non-assignable expression: syntax error, no output
		lib := RunLib(text, nil, nil, RunOpts{Budget: 20000})
		c.Count("expected_syntax_error")
		c.NonTrivial("bad:" + flat)
		if lib.Class == "syntax" && len(lib.Stdout) == 0 {
			c.Held()
		} else {
			c.Violation(fmt.Sprintf("%s: assignment to a non-assignable target must be a syntax error; got %s (%s) stdout %q | expr: %s", label, lib.Class, lib.Msg, clip(string(lib.Stdout), 60), flat),
				nil, map[string]any{"program": text})
		}
		return
	}
	// discriminating? some other bracketing evaluates differently in the model
	cls, out := modelEval(tree)
	disc := false
	for _, alt := range f.bracketings() {
		ac, ao := modelEval(alt)
		if ac != cls || ao != out {
			disc = true
			break
		}
	}
	if disc {
		c.NonTrivial(flat)
		c.Count("discriminating")
	}
	// sanity: the minimal rendering of the intended tree is the flat text
	if CanonExpr(tree) == flat {
		c.Count("flat_equals_minimal_rendering")
	}
	// M2: model vs implementation on the flat text
	p := c06Program(tree)
	r := m2(c, &M2Case{Prog: p, Text: text, Budget: 20000, Desc: label + " `" + flat + "`"})
	// M3: fully parenthesised rendering by the same implementation
	rd := RenderProgram(p, ParenFull, nil)
	full, _ := rd.Layout(nil)
	libFull := RunLib(full, nil, nil, RunOpts{Budget: 20000})
	if r.Lib.Class == "budget" || libFull.Class == "budget" {
		c.Inconclusive("budget")
		return
	}
	if r.Lib.Class == libFull.Class && string(r.Lib.Stdout) == string(libFull.Stdout) {
		c.Held()
	} else {
		c.Violation(fmt.Sprintf("%s: `%s` evaluates differently from its fully parenthesised form `%s`: %s %q vs %s %q", label, flat,
			CanonExpr(fullParen(tree)), r.Lib.Class, clip(string(r.Lib.Stdout), 50), libFull.Class, clip(string(libFull.Stdout), 50)),
			nil, map[string]any{"minimal": text, "full": full})
	}
}

// c06Long checks one left-leaning run too long for the enumeration of bracketings: the model of the
// left-to-right tree against the implementation on the text without parentheses (M2), and that text against
// the fully parenthesised one on the same implementation (M3).
func c06Long(c *Case, tree Expr, label string) {
	p := c06Program(tree)
	c.Count("sequences:long-run")
	c.NonTrivial("long:" + label)
	r := m2(c, &M2Case{Prog: p, Budget: 40000, Desc: label})
	rd := RenderProgram(p, ParenFull, nil)
	full, _ := rd.Layout(nil)
	libFull := RunLib(full, nil, nil, RunOpts{Budget: 40000})
	if r.Lib.Class == "budget" || libFull.Class == "budget" {
		c.Inconclusive("budget")
		return
	}
	if r.Lib.Class == libFull.Class && string(r.Lib.Stdout) == string(libFull.Stdout) {
		c.Held()
	} else {
		c.Violation(fmt.Sprintf("%s evaluates differently from its fully parenthesised form: %s %q vs %s %q", label,
			r.Lib.Class, clip(string(r.Lib.Stdout), 60), libFull.Class, clip(string(libFull.Stdout), 60)),
			nil, map[string]any{"minimal": Canon(p), "full": full})
	}
}

func fullParen(e Expr) Expr {
	rd := RenderExpr(e, ParenFull, nil)
	s, _ := rd.Layout(nil)
	return &RawExpr{Text: strings.TrimSpace(s)}
}

func mkFlat(ops []string, leaves []string, rng *rand.Rand) *flatSeq {
	f := &flatSeq{ops: ops, types: make([]string, len(ops))}
	for _, op := range ops {
		if isAssignOp(op) && leaves[0] == leaves[1] {
			// a statement that reads and writes one location in different sub-expressions has no documented meaning (§3.14)
			leaves = c06LeafPool[0]
		}
	}
	for i := 0; i <= len(ops); i++ {
		f.operands = append(f.operands, V(leaves[i%len(leaves)]))
	}
	for i, op := range ops {
		if op == "is" {
			f.types[i] = c06Types[(i+len(leaves[0]))%len(c06Types)]
			if rng != nil {
				f.types[i] = c06Types[rng.IntN(len(c06Types))]
			}
		}
	}
	return f
}

// ---- random trees (sampled part)

type exprGen struct {
	rng     *rand.Rand
	targets int
}

var c06Bin = []string{"+", "-", "*", "/", "%", "==", "!=", "<", "<=", ">", ">=", "~", "!~", "&&", "||"}

func (g *exprGen) leaf() Expr {
	switch g.rng.IntN(12) {
	case 0, 1, 2:
		return V([]string{"x", "y", "z", "w"}[g.rng.IntN(4)])
	case 3:
		return V([]string{"s", "t"}[g.rng.IntN(2)])
	case 4:
		return V([]string{"p", "q"}[g.rng.IntN(2)])
	case 5, 6:
		return N([]string{"0", "1", "2", "3", "7", "10", "0.5", "2.5", "100"}[g.rng.IntN(9)])
	case 7:
		return S([]string{"10", "9", "ab", "", "b"}[g.rng.IntN(5)])
	case 8:
		return Mem(V("o"), "k")
	case 9:
		return Idx(V("a"), N([]string{"0", "1", "2"}[g.rng.IntN(3)]))
	case 10:
		return CallE(V("f"), V([]string{"x", "y", "z"}[g.rng.IntN(3)]))
	}
	return Meth(V("s"), "length")
}

func (g *exprGen) gen(depth int) Expr {
	if depth <= 0 || g.rng.IntN(5) == 0 {
		return g.leaf()
	}
	switch k := g.rng.IntN(20); {
	case k < 13:
		return Bin(c06Bin[g.rng.IntN(len(c06Bin))], g.gen(depth-1), g.gen(depth-1))
	case k < 16:
		return &Unary{Op: []string{"!", "-", "+"}[g.rng.IntN(3)], X: g.gen(depth - 1)}
	case k < 17:
		return &IsExpr{X: g.gen(depth - 1), T: c06Types[g.rng.IntN(3)]}
	case k < 19:
		g.targets++
		op := []string{"=", "=", "+=", "-=", "*=", "/="}[g.rng.IntN(6)]
		return &Assign{Op: op, L: V(fmt.Sprintf("t%d", g.targets)), R: g.gen(depth - 1)}
	}
	return CallE(V("f"), g.gen(depth-1))
}

func c06RandProgram(e Expr, targets int) *Program {
	stm := append([]Stmt{}, c06Setup...)
	stm = append(stm, ES(Asg(V("o"), &ObjectLit{Keys: []string{"k"}, Quoted: []bool{false}, Vals: []Expr{N("4")}})),
		ES(Asg(V("a"), Arr(N("5"), N("6"), S("7")))))
	for i := 1; i <= targets; i++ {
		stm = append(stm, ES(Asg(V(fmt.Sprintf("t%d", i)), N(fmt.Sprint(i+1)))))
	}
	stm = append(stm, Pr(S("v"), e))
	args := []Expr{}
	for i := 1; i <= targets; i++ {
		args = append(args, V(fmt.Sprintf("t%d", i)))
	}
	if len(args) > 0 {
		stm = append(stm, Pr(args...))
	}
	fn := &Func{Name: "f", Params: []string{"n"}, Body: Blk(&Return{X: Bin("+", V("n"), N("1"))})}
	return &Program{Items: []any{fn, &Rule{Kind: "BEGIN", Body: &Block{Stmts: stm}}}}
}

func c06Random(c *Case) {
	g := &exprGen{rng: c.Rng}
	e := g.gen(2 + c.Rng.IntN(5))
	p := c06RandProgram(e, g.targets)
	min := Canon(p)
	c.Count("random_trees")
	r := m2(c, &M2Case{Prog: p, Text: min, Budget: 50000, Desc: "random tree"})
	if r.Lib.Class == "budget" {
		return
	}
	minExpr := CanonExpr(e)
	for _, mode := range []ParenMode{ParenFull, ParenRandom} {
		rd := RenderProgram(p, mode, c.Rng)
		txt, _ := rd.Layout(nil)
		lib := RunLib(txt, nil, nil, RunOpts{Budget: 50000})
		if lib.Class == r.Lib.Class && string(lib.Stdout) == string(r.Lib.Stdout) {
			c.Held()
		} else {
			c.Violation(fmt.Sprintf("random tree: minimal rendering `%s` and a parenthesised rendering disagree: %s %q vs %s %q", clip(minExpr, 120),
				r.Lib.Class, clip(string(r.Lib.Stdout), 50), lib.Class, clip(string(lib.Stdout), 50)), nil, map[string]any{"minimal": min, "other": txt})
		}
	}
	if strings.Count(minExpr, " ") >= 6 {
		c.NonTrivial("rand:" + minExpr)
	}
	if c.Idx%500 == 0 {
		c.Sample(map[string]any{"random_tree_minimal": minExpr})
	}
}

// ---- enumerated special forms: prefix x binary, suffix chains, parentheses overriding

func c06Specials(c *Case) {
	type sp struct {
		text string
		tree Expr
	}
	a0 := Idx(V("a"), N("0"))
	list := []sp{
		// postfix ++ / -- bind tighter than the prefix operators (the awk idiom ! seen [ k ] ++)
		{"- x ++", &Unary{Op: "-", X: &IncDec{Op: "++", X: V("x")}}},
		{"! x --", &Unary{Op: "!", X: &IncDec{Op: "--", X: V("x")}}},
		{"- o . k ++ + 1", Bin("+", &Unary{Op: "-", X: &IncDec{Op: "++", X: Mem(V("o"), "k")}}, N("1"))},
		{"! a [ 0 ] ++", &Unary{Op: "!", X: &IncDec{Op: "++", X: a0}}},
		{"- - x --", &Unary{Op: "-", X: &Unary{Op: "-", X: &IncDec{Op: "--", X: V("x")}}}},
		{"x ++ * - y --", Bin("*", &IncDec{Op: "++", X: V("x")}, &Unary{Op: "-", X: &IncDec{Op: "--", X: V("y")}})},
		{"- x * y", Bin("*", &Unary{Op: "-", X: V("x")}, V("y"))},
		{"- x + y", Bin("+", &Unary{Op: "-", X: V("x")}, V("y"))},
		{"! p == q", Bin("==", &Unary{Op: "!", X: V("p")}, V("q"))},
		{"! x < y", Bin("<", &Unary{Op: "!", X: V("x")}, V("y"))},
		{"- o . k", &Unary{Op: "-", X: Mem(V("o"), "k")}},
		{"! f ( x )", &Unary{Op: "!", X: CallE(V("f"), V("x"))}},
		{"- a [ 0 ]", &Unary{Op: "-", X: a0}},
		{"! ! x", &Unary{Op: "!", X: &Unary{Op: "!", X: V("x")}}},
		{"- - x", &Unary{Op: "-", X: &Unary{Op: "-", X: V("x")}}},
		{"! - x", &Unary{Op: "!", X: &Unary{Op: "-", X: V("x")}}},
		{"- x - - y", Bin("-", &Unary{Op: "-", X: V("x")}, &Unary{Op: "-", X: V("y")})},
		{"x * - y", Bin("*", V("x"), &Unary{Op: "-", X: V("y")})},
		{"x - ! p", Bin("-", V("x"), &Unary{Op: "!", X: V("p")})},
		{"o . k + a [ 0 ] * f ( z )", Bin("+", Mem(V("o"), "k"), Bin("*", a0, CallE(V("f"), V("z"))))},
		{"oo . a [ 0 ] . b", Mem(Idx(Mem(V("oo"), "a"), N("0")), "b")},
		{"g ( 1 ) [ 0 ]", Idx(CallE(V("g"), N("1")), N("0"))},
		{"s . length ( ) + 1", Bin("+", Meth(V("s"), "length"), N("1"))},
		{"- s . length ( )", &Unary{Op: "-", X: Meth(V("s"), "length")}},
		{"( x + y ) * z", Bin("*", Bin("+", V("x"), V("y")), V("z"))},
		{"x * ( y + z )", Bin("*", V("x"), Bin("+", V("y"), V("z")))},
		{"x - ( y - z )", Bin("-", V("x"), Bin("-", V("y"), V("z")))},
		{"x / ( y / z )", Bin("/", V("x"), Bin("/", V("y"), V("z")))},
		{"x < y == p", Bin("==", Bin("<", V("x"), V("y")), V("p"))},
		{"x < ( y == p )", Bin("<", V("x"), Bin("==", V("y"), V("p")))},
		{"p || q && q", Bin("&&", Bin("||", V("p"), V("q")), V("q"))},
		{"p || ( q && q )", Bin("||", V("p"), Bin("&&", V("q"), V("q")))},
		{"- ( x + y )", &Unary{Op: "-", X: Bin("+", V("x"), V("y"))}},
		{"! ( x == y )", &Unary{Op: "!", X: Bin("==", V("x"), V("y"))}},
		{"( x = 5 ) + y", Bin("+", &Assign{Op: "=", L: V("x"), R: N("5")}, V("y"))},
		{"x = y = z", &Assign{Op: "=", L: V("x"), R: &Assign{Op: "=", L: V("y"), R: V("z")}}},
		{"x += y *= z", &Assign{Op: "+=", L: V("x"), R: &Assign{Op: "*=", L: V("y"), R: V("z")}}},
		{"o . k = a [ 0 ] = 7", &Assign{Op: "=", L: Mem(V("o"), "k"), R: &Assign{Op: "=", L: a0, R: N("7")}}},
		{"x is number == p", Bin("==", &IsExpr{X: V("x"), T: "number"}, V("p"))},
		{"x + y is number", &IsExpr{X: Bin("+", V("x"), V("y")), T: "number"}},
		{"p && x is string", Bin("&&", V("p"), &IsExpr{X: V("x"), T: "string"})},
	}
	// forms whose text is whatever the renderer gives for the tree (the tree is the statement of how they group)
	for _, t := range []Expr{
		Bin("*", V("x"), Meth(N("2.5"), "round")), Bin("/", V("w"), Meth(N("2.5"), "ceil")), Bin("%", V("z"), Meth(N("2.5"), "floor")), Bin("-", V("x"), Meth(N("2.5"), "round")),
		Bin("*", V("x"), Meth(N("7"), "floor")), Bin("+", Bin("*", V("x"), Meth(N("2.5"), "round")), N("1")), Bin("*", Meth(N("2.5"), "round"), Meth(N("3.5"), "floor")),
		Bin("*", V("x"), Mem(V("o"), "k")), Bin("/", V("x"), Idx(V("a"), N("1"))), Bin("%", V("z"), CallE(V("f"), N("2"))), Bin("*", V("x"), Meth(S("abc"), "length")), Bin("*", N("2"), Meth(Arr(N("1"), N("2")), "length")),
		Bin("<", V("x"), Meth(N("2.5"), "round")), Bin("==", V("x"), Meth(N("4.4"), "floor")), Bin("&&", V("p"), Meth(N("0.4"), "round")),
		// a member / element / call on the left of an operator, written with and without spaces (see below)
		Bin("-", Mem(V("o"), "k"), V("x")), Bin("-", Mem(V("o"), "k"), Bin("*", V("x"), V("y"))), Bin("-", Bin("*", V("y"), Mem(V("o"), "k")), V("x")), Bin("+", Mem(Idx(Mem(V("oo"), "a"), N("0")), "b"), V("x")),
		Bin("-", Idx(V("a"), N("1")), V("x")), Bin("<", Mem(V("o"), "k"), V("x")), Bin("-", Mem(V("o"), "k"), Mem(V("o"), "k")), Bin("/", Meth(V("s"), "length"), V("y")),
		// long subscripts and argument lists (more tokens between the brackets than any small look-behind holds)
		Bin("+", Idx(V("a"), Bin("%", &Paren{X: Bin("-", Bin("+", Bin("*", &Paren{X: Bin("+", V("x"), N("1"))}, N("2")), V("y")), &Unary{Op: "-", X: V("x")})}, N("2"))), N("1")),
		Bin("-", Idx(V("a"), Bin("%", &Paren{X: Bin("+", Bin("+", Bin("+", Bin("+", Bin("+", Bin("+", Bin("+", V("x"), V("y")), V("z")), V("w")), V("x")), V("y")), V("z")), V("w"))}, N("2"))), N("1")),
		Bin("*", CallE(V("f"), Bin("+", Bin("+", Bin("+", Bin("+", Bin("+", Bin("+", Bin("+", Bin("+", V("x"), V("y")), V("z")), V("w")), V("x")), V("y")), V("z")), V("w")), N("1"))), N("2")),
		Bin("+", Idx(Idx(Mem(V("oo"), "a"), Bin("*", &Paren{X: Bin("-", Bin("-", Bin("-", Bin("-", Bin("-", Bin("-", V("x"), V("x")), V("y")), V("y")), V("z")), V("z")), V("w"))}, N("0"))), S("b")), N("1")),
		&IsExpr{X: &Unary{Op: "!", X: V("x")}, T: "string"}, &IsExpr{X: &Unary{Op: "!", X: V("x")}, T: "bool"}, &IsExpr{X: &Unary{Op: "!", X: V("s")}, T: "string"}, &IsExpr{X: &Unary{Op: "!", X: V("p")}, T: "number"},
		&IsExpr{X: Bin("+", N("2"), &Unary{Op: "!", X: V("x")}), T: "string"}, &IsExpr{X: &Unary{Op: "-", X: V("x")}, T: "number"}, &IsExpr{X: &Unary{Op: "-", X: V("s")}, T: "string"},
		Bin("==", &IsExpr{X: &Unary{Op: "!", X: V("x")}, T: "bool"}, V("p")), Bin("&&", &IsExpr{X: &Unary{Op: "!", X: V("s")}, T: "bool"}, V("q")),
	} {
		list = append(list, struct {
			text string
			tree Expr
		}{CanonExpr(t), t})
	}
	for _, s := range list {
		stm := append([]Stmt{}, c06Setup...)
		stm = append(stm,
			ES(Asg(V("o"), &ObjectLit{Keys: []string{"k"}, Quoted: []bool{false}, Vals: []Expr{N("4")}})),
			ES(Asg(V("a"), Arr(N("5"), N("6")))),
			ES(Asg(V("oo"), &ObjectLit{Keys: []string{"a"}, Quoted: []bool{false}, Vals: []Expr{Arr(&ObjectLit{Keys: []string{"b"}, Quoted: []bool{false}, Vals: []Expr{N("11")}})}})),
			Pr(S("v"), s.tree), Pr(V("x"), V("y"), V("z"), Mem(V("o"), "k"), Idx(V("a"), N("0"))))
		fn := &Func{Name: "f", Params: []string{"n"}, Body: Blk(&Return{X: Bin("+", V("n"), N("1"))})}
		gn := &Func{Name: "g", Params: []string{"n"}, Body: Blk(&Return{X: Arr(Bin("*", V("n"), N("3")))})}
		p := &Program{Items: []any{fn, gn, &Rule{Kind: "BEGIN", Body: &Block{Stmts: stm}}}}
		if got := CanonExpr(s.tree); got != s.text {
			c.Violation("internal: special form renders as `"+got+"`, expected `"+s.text+"`", []string{"pinned:internal"}, nil)
			continue
		}
		c.NonTrivial("special:" + s.text)
		c.Count("special_forms")
		m2(c, &M2Case{Prog: p, Budget: 20000, Desc: "special form `" + s.text + "`"})
		// the same tokens written without any space that the token table does not require
		rd := RenderProgram(p, ParenMinimal, nil)
		if !rd.LeadBad {
			glued, n := glueLayout(rd, nil, true)
			if n > 0 {
				c.Count("special_forms_without_spaces")
				m2(c, &M2Case{Prog: p, Text: glued, Budget: 20000, Desc: "special form `" + s.text + "` written without spaces"})
			}
		}
	}
	// runs of one operator with 4 and 5 operands (left to right also beyond three operands)
	for _, op := range c06Bin {
		for _, leaves := range [][]string{{"s", "t", "z", "x", "w"}, {"w", "x", "y", "z", "s"}, {"z", "s", "y", "t", "x"}, {"x", "y", "z", "w", "y"}} {
			for _, n := range []int{3, 4} {
				ops := make([]string, n)
				for i := range ops {
					ops[i] = op
				}
				c06Flat(c, mkFlat(ops, leaves, nil), "chain")
			}
		}
	}
	// long runs of one operator (seventh round: a parser that re-balances runs of 16 and more + or * operators):
	// 15 to 63 operators, a string among numbers for + (concatenation is not associative with addition),
	// decimals for the arithmetic operators (floating-point addition and multiplication are not associative)
	decs := []string{"0.1", "0.7", "1.3", "2.9", "0.3"}
	for _, op := range c06Bin {
		for li, n := range []int{15, 16, 17, 23, 24, 31, 32, 33, 40, 47, 63} {
			for variant := 0; variant < 2; variant++ {
				var e Expr
				for i := 0; i <= n; i++ {
					var leaf Expr
					switch {
					case variant == 0 && i == (n*(li+2))/13%(n+1):
						leaf = S("s")
					case variant == 0:
						leaf = N("1")
					default:
						leaf = N(decs[(i+li)%len(decs)])
					}
					if i == 0 {
						e = leaf
					} else {
						e = Bin(op, e, leaf)
					}
				}
				c06Long(c, e, fmt.Sprintf("run of %d %s (variant %d)", n, op, variant))
			}
		}
	}
	// a subscript that begins with a prefix operator and goes on with a binary one (eighth round: a[-1 + n] read as a[-(1 + n)])
	neg := func(x Expr) Expr { return &Unary{Op: "-", X: x} }
	arr := Arr(N("10"), N("20"), N("30"), N("40"), N("50"))
	for i, sub := range []Expr{
		Bin("+", neg(N("1")), V("z")), Bin("-", neg(V("z")), N("1")), Bin("+", neg(N("1")), N("2")), Bin("+", neg(V("z")), N("3")),
		Bin("+", Bin("-", neg(N("1")), N("1")), N("1")), Bin("+", neg(N("4")), V("y")), Bin("-", neg(N("1")), neg(N("1"))),
		Bin("+", &Unary{Op: "!", X: V("q")}, N("1")), Bin("-", &Unary{Op: "+", X: V("z")}, N("1")),
	} {
		c06Long(c, Idx(arr, sub), fmt.Sprintf("subscript form %d `%s`", i, CanonExpr(sub)))
		c06Long(c, Bin("*", Idx(Idx(Arr(arr, arr), N("1")), sub), N("2")), fmt.Sprintf("second subscript form %d `%s`", i, CanonExpr(sub)))
	}
	for _, fm := range []struct {
		text string
		e    Expr
	}{
		{"- 2.5 . floor ( )", &Unary{Op: "-", X: Meth(N("2.5"), "floor")}},
		{"3 * - 1.5 . floor ( ) + 10", Bin("+", Bin("*", N("3"), &Unary{Op: "-", X: Meth(N("1.5"), "floor")}), N("10"))},
		{"- 7 . floor ( )", &Unary{Op: "-", X: Meth(N("7"), "floor")}},
		{"! 0 . floor ( )", &Unary{Op: "!", X: Meth(N("0"), "floor")}},
		{"- 's' . length ( )", &Unary{Op: "-", X: Meth(S("s"), "length")}},
	} {
		if got := CanonExpr(fm.e); got != fm.text {
			c.Violation("internal: form renders as `"+got+"`, expected `"+fm.text+"`", []string{"pinned:internal"}, nil)
			continue
		}
		c.NonTrivial("special:" + fm.text)
		p := &Program{Items: []any{&Rule{Kind: "BEGIN", Body: Blk(Pr(S("v"), fm.e))}}}
		m2(c, &M2Case{Prog: p, Budget: 20000, Desc: "special form `" + fm.text + "`"})
		// and glued: no white space at all
		rd := RenderProgram(p, ParenMinimal, nil)
		glued, _ := glueLayout(rd, nil, true)
		m2(c, &M2Case{Prog: p, Text: glued, Budget: 20000, Desc: "special form glued `" + fm.text + "`"})
	}
	// calling the result of an index that is not a function is a runtime error, not a parse problem
	p := &Program{Items: []any{&Rule{Kind: "BEGIN", Body: Blk(ES(Asg(V("a"), Arr(N("1")))), Pr(S("pre")), Pr(CallE(Idx(V("a"), N("0")), N("1"))))}}}
	m2(c, &M2Case{Prog: p, Budget: 20000, Desc: "a[0](1)"})
}

func c06Cases(tier string) int {
	n := len(c06Ops)
	pairs := n * n
	triples := n * n * n
	random := 20000
	if tier == "thorough" {
		triples = n * n * n
		random = 1500000
	}
	return 1 + pairs + triples + random
}

func c06Run(c *Case) {
	n := len(c06Ops)
	i := c.Idx
	switch {
	case i == 0:
		c06Specials(c)
	case i < 1+n*n:
		j := i - 1
		ops := []string{c06Ops[j/n], c06Ops[j%n]}
		for t := 0; t < 3; t++ {
			leaves := c06LeafPool[(j+t*3)%len(c06LeafPool)]
			f := mkFlat(ops, leaves, nil)
			c06Flat(c, f, "pair")
		}
		if i == 1+3*n+1 {
			c.Sample(map[string]any{"pair": mkFlat(ops, c06LeafPool[0], nil).flatText()})
		}
	default:
		nt := c06Cases(c.Tier) - 1 - n*n
		random := 20000
		if c.Tier == "thorough" {
			random = 1500000
		}
		ntrip := nt - random
		j := i - 1 - n*n
		if j < ntrip {
			var k int
			k = j
			ops := []string{c06Ops[k/(n*n)], c06Ops[(k/n)%n], c06Ops[k%n]}
			for t := 0; t < 2; t++ {
				leaves := c06LeafPool[c.Rng.IntN(len(c06LeafPool))]
				f := mkFlat(ops, leaves, c.Rng)
				c06Flat(c, f, "triple")
			}
			if j == 7 {
				c.Sample(map[string]any{"triple": mkFlat(ops, c06LeafPool[1], nil).flatText()})
			}
		} else {
			c06Random(c)
		}
	}
}

func init() {
	register(&Prop{
		ID: "C06", Level: "exploration",
		Rule:          "enumerated: a op1 b op2 c for every ordered pair of the 21 binary operators (13 value operators, && ||, is, = += -= *= /=) with 3 leaf tuples each; all 9261 ordered triples with 2 leaf tuples; runs of 4 and 5 operands of one operator; runs of 15-63 operators of each binary operator (a string among numbers, decimals: M2 and M3 only); 40 prefix/suffix/parenthesis forms (also written without any white space); sampled: random trees to depth 6 rendered minimal, full and random-redundant. Each case is checked twice: model of the intended tree vs. the implementation on the unparenthesised text (M2), and unparenthesised vs. fully parenthesised text run by the same implementation (M3). Non-trivial = discriminating: the model evaluates every other bracketing of the same token string and at least one gives a different value or outcome (random trees: at least 4 operators).",
		NumCases:      c06Cases,
		Run:           c06Run,
		MinConclusive: func(tier string) int { return 5000 },
		Exhaustive: func(tier string) string {
			return "all ordered pairs and triples of binary operators"
		},
		Assumptions: []string{"precedence table of DESIGN.md section 3.3 (from the property statement)", "leaf values are taken from a fixed pool chosen so that groupings disagree"},
	})
}
