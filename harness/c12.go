package main

// C12 — reported error positions are consistent with, and point into, the program text.

import (
	"fmt"
	"math/rand/v2"
	"regexp"
	"strconv"
	"strings"
	"time"
)

type posExpect struct {
	class  string // runtime | syntax
	level2 bool   // the fault is confined to one line and its span is known
	exact  bool   // column must be exactly the start of the span
	start  int    // byte offsets of the span in the text
	end    int
	kind   string
}

// lineOf splits on \n only and returns 1-based line, 0-based byte column of offset.
func lineOf(text string, off int) (int, int) {
	line, ls := 1, 0
	for i := 0; i < off && i < len(text); i++ {
		if text[i] == '\n' {
			line++
			ls = i + 1
		}
	}
	return line, off - ls
}

func splitLines(text string) []string {
	ls := strings.Split(text, "\n")
	return ls
}

// checkPos applies M6 to one reported error. selectors: texts an error may also refer to.
func checkPos(text string, line, col int, src string, exp *posExpect) string {
	lines := splitLines(text)
	n := len(lines)
	if n > 1 && lines[n-1] == "" {
		n-- // a trailing newline does not start a further line
	}
	if line < 1 || line > n {
		return fmt.Sprintf("reported line %d is outside the program (%d lines)", line, n)
	}
	if lines[line-1] != src {
		return fmt.Sprintf("quoted source line %q is not line %d of the program (%q)", clip(src, 60), line, clip(lines[line-1], 60))
	}
	if col < 0 || col > len(src) {
		return fmt.Sprintf("reported column %d does not lie on the quoted line (%d bytes)", col, len(src))
	}
	if exp == nil || !exp.level2 {
		return ""
	}
	l0, c0 := lineOf(text, exp.start)
	l1, c1 := lineOf(text, exp.end-1)
	if l0 != l1 {
		return "" // not confined to one line after all
	}
	if line != l0 {
		return fmt.Sprintf("fault is on line %d, reported line %d", l0, line)
	}
	if exp.exact {
		if col != c0 {
			return fmt.Sprintf("offending token is at column %d of line %d, reported column %d", c0, l0, col)
		}
		return ""
	}
	if col < c0 || col > c1 {
		return fmt.Sprintf("offending construct spans columns %d-%d of line %d, reported column %d", c0, c1, l0, col)
	}
	return ""
}

// forceOneLine keeps the tokens of node on one line in random layouts.
func forceOneLine(rd *Rendered, node any) bool {
	sp, ok := rd.Spans[node]
	if !ok {
		return false
	}
	for i := sp[0] + 1; i <= sp[1] && i < len(rd.Toks); i++ {
		if rd.Toks[i].Gap == GapFree {
			rd.Toks[i].Gap = GapNoNL
		}
	}
	return true
}

// filler: harmless top-level items that add lines before / after the fault
func c12Filler(rng *rand.Rand, tag string) []any {
	var out []any
	for i := rng.IntN(4); i > 0; i-- {
		switch rng.IntN(4) {
		case 0:
			out = append(out, &Func{Name: fmt.Sprintf("fill%s%d", tag, i), Params: []string{"fa"}, Body: Blk(
				asg(V("fl"), Bin("+", V("fa"), N("1"))), &If{C: Bin(">", V("fl"), N("2")), Then: Blk(&Return{X: S("é日本")})}, &Return{X: V("fl")})})
		case 1:
			out = append(out, &Rule{Kind: "BEGIN", Body: Blk(asg(V("fv"+tag), S("añb")), asg(V("fw"+tag), Arr(N("1"), N("2"))))})
		case 2:
			// literals that contain raw newlines (the lexer scans them to the closing delimiter)
			out = append(out, &Rule{Kind: "BEGIN", Body: Blk(asg(V("ml"+tag), S("first line\nsecond line é\nthird")), asg(V("mr"+tag), &RegexLit{Pat: "a\nb"}))})
		default:
			out = append(out, &Rule{Kind: "END", Body: Blk(&ForIn{V: "fe", It: Arr(), Body: Blk(Pr(S("never")))})})
		}
	}
	return out
}

var c12ExactSplices = map[string]bool{"illegal-byte-at": true, "illegal-byte-backtick": true, "illegal-byte-control": true, "illegal-byte-utf8-continuation": true,
	"illegal-byte-question": true, "illegal-single-ampersand": true, "return-outside-function": true, "break-outside-loop": true, "continue-outside-loop": true}
var c12SpanSplices = map[string]bool{"illegal-nonascii-2byte": true, "illegal-nonascii-3byte": true, "missing-operand": true, "assign-to-literal": true, "assign-to-string-literal": true, "assign-to-arithmetic": true, "compound-assign-to-arithmetic": true}

type c12Built struct {
	text   string
	files  []InFile
	sels   []string
	exp    *posExpect
	desc   string
	layout *LayoutStats
}

func c12BuildRuntime(rng *rand.Rand) *c12Built {
	faults, poss, ctxs := c11Faults(), c11Positions(), c11Contexts()
	fk := faults[rng.IntN(len(faults))]
	for fk.heavy && rng.IntN(10) != 0 {
		fk = faults[rng.IntN(len(faults))]
	}
	ctx := ctxs[rng.IntN(len(ctxs))]
	var stmts []Stmt
	var node any
	posName := "statement"
	if fk.stmtOnly != nil {
		st := fk.stmtOnly()
		stmts = []Stmt{st}
		node = st
	} else {
		pos := poss[rng.IntN(len(poss))]
		posName = pos.name
		f := fk.mk()
		stmts = pos.mk(f)
		node = f
	}
	// a statement with multi-byte characters directly before the planted one (same line in some layouts)
	stmts = append([]Stmt{asg(V("sink0"), S([]string{"é日本語", "ascii", "añ", "𝒳"}[rng.IntN(4)]))}, stmts...)
	items := append(c12Filler(rng, "a"), c11Setup()...)
	p, data := ctx.wrap(stmts, items)
	p.Items = append(p.Items, c12Filler(rng, "b")...)
	rd := RenderProgram(p, ParenMinimal, nil)
	if rd.LeadBad || !forceOneLine(rd, node) {
		return nil
	}
	text, st := rd.Layout(rng)
	s, e, _ := rd.Span(node)
	b := &c12Built{text: text, exp: &posExpect{class: "runtime", level2: !fk.heavy, start: s, end: e, kind: fk.name + "@" + posName}, desc: fk.name + "@" + posName + "/" + ctx.name, layout: st}
	if data != nil {
		b.files = []InFile{{Name: "in.json", Data: data}}
	}
	return b
}

func c12BuildSyntax(rng *rand.Rand) *c12Built {
	p, doc := c11Host(rng)
	p.Items = append(c12Filler(rng, "a"), p.Items...)
	p.Items = append(p.Items, c12Filler(rng, "b")...)
	sp := c11Splices[rng.IntN(len(c11Splices))]
	var rd *Rendered
	var node any
	if spliceProgram(rng, p, sp, &rd, &node) == "" {
		return nil
	}
	text, st := rd.Layout(rng)
	if sp.name == "lone-double-quote" && strings.Count(text, "\"") != 1 {
		return nil // the random layout chose double quotes somewhere: the lone quote would pair up
	}
	if (sp.name == "unterminated-string" || sp.name == "unterminated-regex") && rd != nil {
		// nothing after the literal may close it
		i := strings.LastIndex(text, sp.stmt)
		if i < 0 || strings.ContainsAny(text[i+len(sp.stmt):], "'/") {
			return nil
		}
	}
	s, e, _ := rd.Span(node)
	exp := &posExpect{class: "syntax", start: s, end: e, kind: sp.name}
	if c12ExactSplices[sp.name] {
		exp.level2, exp.exact = true, true
	} else if c12SpanSplices[sp.name] {
		exp.level2 = true
	}
	return &c12Built{text: text, files: []InFile{{Name: "in.json", Data: doc}}, exp: exp, desc: "splice " + sp.name, layout: st}
}

var stderrLineRe = regexp.MustCompile(`^(syntax|runtime) error on line (\d+): `)

// c12Selector: a runtime fault inside a -r selector; the reported position refers to the selector text
func c12Selector(c *Case) {
	rng := c.Rng
	var cands []faultKind
	for _, f := range c11Faults() {
		if f.selfCont && f.stmtOnly == nil {
			cands = append(cands, f)
		}
	}
	fk := cands[rng.IntN(len(cands))]
	f := fk.mk()
	var e Expr = f
	switch rng.IntN(4) {
	case 0:
		e = Bin("+", N("1"), f)
	case 1:
		e = Arr(S("é日本"), f)
	case 2:
		e = CallE(V("json"), Arr(f))
	}
	rd := RenderExpr(e, ParenMinimal, nil)
	if !forceOneLine(rd, e) {
		return
	}
	text, _ := rd.Layout(rng)
	s0, e0, _ := rd.Span(f)
	lib := RunLib("BEGIN { print 'b' } { print $ }", []InFile{{Name: "in.json", Data: []byte(`{"a": 1}`)}}, []string{text}, RunOpts{})
	if lib.Class != "runtime" {
		c.Inconclusive("fault-not-reported-as-runtime")
		return
	}
	c.Count("selector_faults")
	c.NonTrivial("sel:" + text)
	why := checkPos(text, lib.Line, lib.Col, lib.SrcLine, &posExpect{class: "runtime", level2: true, start: s0, end: e0})
	if why == "" {
		c.Held()
	} else {
		c.Violation(fmt.Sprintf("fault %s in a -r selector: %s (reported line %d col %d) | selector %q", fk.name, why, lib.Line, lib.Col, text), nil, map[string]any{"selector": text})
	}
}

// faults in the very first tokens of the program (byte offset 0, line 1), reached only on a later input element after
// other statements have run: the position is still that of the failing expression
func c12First(c *Case) {
	heads := []struct {
		expr string // the program starts with this pattern expression; it fails on the second element
		in   string
	}{
		{"$.n > 1", `[{"n": 2}, {"n": [1]}]`}, {"$[0] < 2", `[[1], [[1]]]`}, {"$ ~ $.p", `["a", {"p": "("}]`}, {"$.s ~ $.p", `[{"s": "a", "p": "a"}, {"s": "a", "p": "[z"}]`},
		{"$ % $ == 0", `[1, 0]`}, {"$.a.b.c(1)", `[{"a": {"b": 1}}, {"a": {"b": {"c": 1}}}]`}, {"[$][0].n > 1", `[{"n": 2}, {"n": {}}]`}, {"-$.n < $.m", `[{"n": 1, "m": 2}, {"n": 1, "m": []}]`},
		{"$.n() || 1", `[{"x": 1}, {"n": 3}]`}, {"!$.f(1)", `[{"x": 1}, {"f": "s"}]`},
	}
	bodies := []string{" {\n  print 'hit'\n}\n", "\n{ seen = seen + 1 }\n", " { print 'first', $ }\n{ print 'second rule' }\nEND { print 'end' }\n"}
	for _, h := range heads {
		for bi, body := range bodies {
			text := h.expr + body
			lib := RunLib(text, []InFile{{Name: "in.json", Data: []byte(h.in)}}, nil, RunOpts{Budget: 100000})
			key := fmt.Sprintf("first-token:%s:%d", h.expr, bi)
			c.NonTrivial(key)
			c.Count("faults_at_the_start_of_the_program")
			rp := map[string]any{"program": text, "input": h.in, "line": lib.Line, "col": lib.Col, "srcline": lib.SrcLine, "msg": lib.Msg}
			switch {
			case lib.Class != "runtime":
				c.Inconclusive("fault-not-reported-as-runtime")
			case lib.Line != 1 || lib.SrcLine != strings.SplitN(text, "\n", 2)[0]:
				c.Violation(fmt.Sprintf("%s: a fault in the first expression of the program (line 1) is reported on line %d, quoting %q (%s)", key, lib.Line, clip(lib.SrcLine, 60), lib.Msg), nil, rp)
			case lib.Col < 0 || lib.Col >= len(h.expr):
				c.Violation(fmt.Sprintf("%s: column %d lies outside the failing expression (columns 0-%d) (%s)", key, lib.Col, len(h.expr)-1, lib.Msg), nil, rp)
			default:
				c.Held()
			}
		}
	}
}

// faults whose position is not the start of a token of the failing expression: the end of the input, the depth
// limit, the second loop variable, a member of an object literal, a string that opens on the last byte. Each is
// confined to one line (everything before it is complete, nothing but blanks and comments follows).
func c12Edges(c *Case) {
	type edge struct {
		name, text, in string
		class          string
		line           int // 1-based line of the fault
		c0, c1         int // the construct spans these 0-based columns of that line
	}
	var edges []edge
	heads := []string{"", "# helper\n\n", "BEGIN {\n  total = 0\n}\n\n# é comment\n", "function id(a) {\r\n  return a\r\n}\r\n"}
	tails := []string{"", "\n", " # c\n", "\n\n", "\r\n ", "\n\t\n# end\n", "   "}
	lasts := []string{"END { print (2 + 3) }", "{ total = 1 + id(2) }", "function f(a, b) { return [a, b] }", "$.a > 1 { print 'é', {k: $[0]} }", "BEGIN { x = \"abc\"; y = 'd' }", "{ if (x) { print 1 } else { print 2 } }"}
	for hi, h := range heads {
		nh := strings.Count(h, "\n")
		for li, last := range lasts {
			for cut := 1; cut < len(last); cut++ {
				for ti, t := range tails {
					c1 := cut - 1
					var open byte
					for i := 0; i < cut; i++ {
						if open == 0 && (last[i] == '"' || last[i] == '\'') {
							open = last[i]
						} else if last[i] == open {
							open = 0
						}
					}
					if open != 0 {
						c1 += len(strings.SplitN(t, "\n", 2)[0]) // the rest of the line is inside the string that was cut open
					}
					edges = append(edges, edge{name: fmt.Sprintf("truncated:%d:%d:%d:%d", hi, li, cut, ti), text: h + last[:cut] + t, class: "syntax", line: nh + 1, c0: 0, c1: c1})
				}
			}
		}
	}
	for hi, h := range heads {
		nh := strings.Count(h, "\n")
		pre := "function f(n) { return "
		deep := pre + strings.Repeat("0+(", 12) + "f(n)" + strings.Repeat(")", 12) + " }  BEGIN { f(1) }"
		edges = append(edges, edge{name: fmt.Sprintf("depth-limit-in-recursion:%d", hi), text: h + deep + "\n", class: "runtime", line: nh + 1, c0: len("function f(n) { "), c1: len(deep) - 1})
		bangs := "BEGIN { x = " + strings.Repeat("!", 150000) + "1 }"
		edges = append(edges, edge{name: fmt.Sprintf("depth-limit-in-one-expression:%d", hi), text: h + bangs + "\n# after\n", class: "runtime", line: nh + 1, c0: len("BEGIN { "), c1: len(bangs) - 3})
		stmts := "BEGIN " + strings.Repeat("{ ", 150000) + "x = 1" + strings.Repeat(" }", 150000)
		edges = append(edges, edge{name: fmt.Sprintf("depth-limit-in-nested-blocks:%d", hi), text: h + stmts + "\n", class: "runtime", line: nh + 1, c0: len("BEGIN "), c1: len(stmts) - 1})
		edges = append(edges, edge{name: fmt.Sprintf("second-loop-variable:%d", hi), text: h + "BEGIN {\n  for (item,\n       $pos in [1, 2])\n    print item\n}\n", class: "runtime", line: nh + 3, c0: 7, c1: 10})
		edges = append(edges, edge{name: fmt.Sprintf("second-loop-variable-one-line:%d", hi), text: h + "BEGIN { for (item, $pos in [1, 2]) print item }", class: "runtime", line: nh + 1, c0: 19, c1: 22})
		edges = append(edges, edge{name: fmt.Sprintf("object-literal-member:%d", hi), text: h + "BEGIN {\n  cfg = {\n    name: \"x\",\n    fmt: printf\n  }\n}\n", class: "runtime", line: nh + 4, c0: 4, c1: 14})
		edges = append(edges, edge{name: fmt.Sprintf("object-literal-member-one-line:%d", hi), text: h + "BEGIN { cfg = { name: 1, fmt: printf, z: 2 } }", class: "runtime", line: nh + 1, c0: 25, c1: 35})
		for qi, q := range []string{"\"", "'"} {
			for ti, t := range []string{"", "\n", "\n\n", "\r\n"} {
				edges = append(edges, edge{name: fmt.Sprintf("string-opens-on-the-last-byte:%d:%d:%d", hi, qi, ti), text: h + "BEGIN {\n  x = 1\n  print x, " + q + t, class: "syntax", line: nh + 3, c0: 11, c1: 11 + len(strings.TrimSuffix(t, "\n"))})
			}
		}
	}
	for _, e := range edges {
		lib := RunLib(e.text, []InFile{{Name: "in.json", Data: []byte("[1]")}}, nil, RunOpts{Budget: 30000000})
		c.Count("edge_positions:" + strings.SplitN(e.name, ":", 2)[0])
		rp := map[string]any{"program": e.text, "line": lib.Line, "col": lib.Col, "srcline": lib.SrcLine, "msg": lib.Msg}
		if lib.Class != e.class {
			if e.class == "syntax" && lib.Class == "ok" {
				c.Count("edge_truncations_that_are_programs")
				continue
			}
			c.Inconclusive("fault-not-reported-as-" + e.class)
			continue
		}
		c.NonTrivial("edge:" + e.name)
		why := checkPos(e.text, lib.Line, lib.Col, lib.SrcLine, nil)
		if why == "" && lib.Line != e.line {
			why = fmt.Sprintf("the fault is on line %d, reported line %d", e.line, lib.Line)
		}
		if why == "" && (lib.Col < e.c0 || lib.Col > e.c1) {
			why = fmt.Sprintf("the offending construct spans columns %d-%d of line %d, reported column %d", e.c0, e.c1, e.line, lib.Col)
		}
		if why == "" {
			c.Held()
		} else {
			c.Violation(fmt.Sprintf("%s: %s (message %q, quoted %q)", e.name, why, lib.Msg, clip(lib.SrcLine, 60)), nil, rp)
		}
	}
}

func c12Run(c *Case) {
	rng := c.Rng
	if c.Idx == 0 {
		c12First(c)
		return
	}
	if c.Idx == 1 {
		c12Edges(c)
		return
	}
	if c.Idx%12 == 7 {
		c12Selector(c)
		return
	}
	var b *c12Built
	if rng.IntN(2) == 0 {
		b = c12BuildRuntime(rng)
	} else {
		b = c12BuildSyntax(rng)
	}
	if b == nil {
		c.Inconclusive("no-site")
		return
	}
	lib := RunLib(b.text, b.files, b.sels, RunOpts{Budget: 400000})
	if lib.Class == "budget" {
		c.Inconclusive("budget")
		return
	}
	if lib.Class != b.exp.class {
		// whether the fault is reported at all is C11's question
		c.Inconclusive("fault-not-reported-as-" + b.exp.class)
		return
	}
	c.Count("fault_class:" + b.exp.class)
	c.Count("fault_kind:" + b.exp.kind)
	l0, c0 := lineOf(b.text, b.exp.start)
	nlines := strings.Count(b.text, "\n") + 1
	lineClass := "middle"
	switch {
	case l0 == 1:
		lineClass = "first"
	case l0 >= nlines-1:
		lineClass = "last"
	}
	c.Count("fault_line_class:" + lineClass)
	lineStart := b.exp.start - c0
	multibyteBefore := !isASCII(b.text[lineStart:b.exp.start])
	if multibyteBefore {
		c.Count("multibyte_before_fault_on_same_line")
	}
	if !isASCII(b.text[:lineStart]) {
		c.Count("multibyte_on_earlier_lines")
	}
	if strings.Contains(b.text, "\r\n") {
		c.Count("programs_with_crlf")
	}
	c.Max("max_program_lines", nlines)
	if (nlines >= 3 && l0 > 1) || multibyteBefore {
		c.NonTrivial(b.text)
	}
	why := checkPos(b.text, lib.Line, lib.Col, lib.SrcLine, b.exp)
	if why == "" {
		c.Held()
	} else {
		c.Violation(fmt.Sprintf("%s: %s (reported line %d col %d, message %q)", b.desc, why, lib.Line, lib.Col, lib.Msg), nil,
			map[string]any{"program": b.text, "line": lib.Line, "col": lib.Col, "srcline": lib.SrcLine, "fault_offset": b.exp.start, "fault_end": b.exp.end})
	}
	if c.Idx%1500 == 2 {
		c.Sample(map[string]any{"fault": b.desc, "program": b.text, "reported_line": lib.Line, "reported_col": lib.Col})
	}
	// CLI level on a sample: the three diagnostic lines on stderr
	every := 40
	if c.Tier == "thorough" {
		every = 100
	}
	if c.Idx%every != 0 || strings.ContainsRune(b.text, 0) {
		return
	}
	args := []string{"--", b.text}
	var stdin []byte
	if len(b.files) > 0 {
		stdin = b.files[0].Data
	}
	r := RunCli(c.env.Jqawk, args, stdin, c.env.Scratch, 60*time.Second)
	if r.TimedOut {
		c.Inconclusive("cli-timeout")
		return
	}
	c.Count("cli_runs")
	se := strings.Split(strings.TrimSuffix(string(r.Stderr), "\n"), "\n")
	if r.Exit == 0 || len(se) < 3 {
		c.Violation(fmt.Sprintf("%s: binary exit %d, stderr %q; expected a three-line diagnostic", b.desc, r.Exit, clip(string(r.Stderr), 120)), nil, map[string]any{"program": b.text})
		return
	}
	// the quoted line may itself contain no newline; it is the first line, the caret the second, the message the last
	msg := se[len(se)-1]
	m := stderrLineRe.FindStringSubmatch(msg)
	if m == nil || !strings.HasPrefix(se[0], "  ") {
		c.Violation(fmt.Sprintf("%s: stderr is not the documented diagnostic: %q", b.desc, clip(string(r.Stderr), 160)), nil, map[string]any{"program": b.text})
		return
	}
	ln, _ := strconv.Atoi(m[2])
	caret := strings.Index(se[1], "^")
	why = checkPos(b.text, ln, caret-2, se[0][2:], b.exp)
	if m[1] != b.exp.class {
		why = "diagnostic says " + m[1] + " error"
	}
	if why == "" {
		c.Held()
	} else {
		c.Violation(fmt.Sprintf("%s (binary): %s | stderr %q", b.desc, why, clip(string(r.Stderr), 160)), nil, map[string]any{"program": b.text, "stderr": string(r.Stderr)})
	}
}

func init() {
	register(&Prop{
		ID: "C12", Level: "exploration",
		Rule: "sampled: a runtime fault (42 kinds x 38 positions x 3 contexts, as in C11) or a syntax splice (22 kinds) planted into a program with filler functions/rules before and after, laid out at random over many lines (blank lines, comment lines and trailing comments with non-ASCII text, CRLF, tabs, statements joined by ';', multi-byte string literals directly before the fault on the same line or on earlier lines); the planted construct is kept on one line and its byte span is known from the renderer. Level 1 for every error: 1 <= Line <= #lines and SrcLine is exactly line Line of the text (lines split on \\n only). Level 1 also: 0 <= Col <= length of the quoted line. Level 2: Line is the fault's line and Col lies inside the span (illegal bytes and misplaced return/break/continue: exactly on the token). 10 faults in the first expression of the program (offset 0) that occur only on the second input element, with 3 continuations: line 1, column inside the expression. 4 800 edge positions (every truncation of 6 complete last lines after 4 kinds of complete heads and before 7 kinds of blank / comment tails; the depth limit reached by recursion, by one 150 000-deep expression, by 150 000 nested blocks; an unknown second loop variable; an uncopyable member of an object literal; a string that opens on the last byte): the fault is confined to one line, the reported line is that line and the column lies on its construct. A sample is re-run through the binary and the three stderr lines are re-parsed. Non-trivial = >= 3 lines with the fault not on line 1, or a multi-byte character before the fault on its line; distinct by program text.",
		NumCases: func(tier string) int {
			if tier == "thorough" {
				return 2000000
			}
			return 40000
		},
		Run:           c12Run,
		MinConclusive: func(tier string) int { return 5000 },
		Assumptions:   []string{"the offending construct of a runtime fault is the smallest expression that contains it; of a syntax fault the statement (illegal bytes / misplaced keywords: the token)", "unmatched closers, lone quotes and unterminated literals are checked at level 1 only"},
	})
}
