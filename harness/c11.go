package main

// C11 — syntax errors pre-empt all execution; runtime faults stop the run at the fault.
// The planting machinery is shared with C12 (error positions).

import (
	"fmt"
	"math/rand/v2"
	"strings"
)

// ---------------------------------------------------------------------------
// runtime fault kinds: each is an expression that fails when (and only when) evaluated

type faultKind struct {
	name     string
	mk       func() Expr
	selfCont bool // needs no global set up by the first BEGIN rule (usable in a selector)
	stmtOnly func() Stmt
	heavy    bool // expensive to run (4096 nested calls): placed at a subset of the positions
}

func c11Faults() []faultKind {
	un := func(x Expr) Expr { return &Unary{Op: "-", X: x} }
	return []faultKind{
		{name: "div0", mk: func() Expr { return Bin("/", N("1"), N("0")) }, selfCont: true},
		{name: "mod0", mk: func() Expr { return Bin("%", N("7"), N("0")) }, selfCont: true},
		// % works on the truncated operands: a divisor between -1 and 1 is a zero divisor (seventh round)
		{name: "mod-fraction-divisor", mk: func() Expr { return Bin("%", N("7"), N("0.5")) }, selfCont: true},
		{name: "mod-negative-fraction-divisor", mk: func() Expr { return Bin("%", V("vnum"), un(N("0.25"))) }},
		{name: "mod-numeric-string-fraction-divisor", mk: func() Expr { return Bin("%", N("9"), S("0.9")) }, selfCont: true},
		{name: "mod-computed-fraction-divisor", mk: func() Expr { return Bin("%", N("10"), &Paren{X: Bin("/", N("1"), N("4"))}) }, selfCont: true},
		// array literals as the leftmost token of the failing operation, with an even and an odd number of tokens inside (eighth round)
		{name: "call-empty-array-literal", mk: func() Expr { return CallE(Arr(), N("1")) }, selfCont: true},
		{name: "call-array-literal-of-four-tokens", mk: func() Expr { return CallE(Arr(un(N("1")), N("2")), N("0")) }, selfCont: true},
		{name: "regex-match-against-empty-array-literal", mk: func() Expr { return Bin("~", S("s"), Arr()) }, selfCont: true},
		{name: "regex-match-against-array-literal-of-four-tokens", mk: func() Expr { return Bin("!~", S("s"), Arr(un(N("1")), N("2"))) }, selfCont: true},
		{name: "div0-compound", mk: func() Expr { return &Paren{X: &Assign{Op: "/=", L: V("vnum"), R: N("0")}} }},
		{name: "div0-computed", mk: func() Expr { return Bin("/", V("vnum"), &Paren{X: Bin("-", V("vnum"), V("vnum"))}) }},
		{name: "match-literal-against-container", selfCont: true, mk: func() Expr {
			return &MatchExpr{Subj: Arr(N("1")), Cases: []*MatchCase{{Pats: []Expr{N("1")}, Body: S("first")}, {Pats: []Expr{V("mo")}, Body: S("second")}}}
		}},
		{name: "match-nested-literal-against-container", selfCont: true, mk: func() Expr {
			return &MatchExpr{Subj: Arr(Arr(N("1")), N("2")), Cases: []*MatchCase{{Pats: []Expr{Arr(N("1"), V("mx"))}, Body: S("first")}, {Pats: []Expr{Arr(V("my"), N("2"))}, Body: S("second")}}}
		}},
		{name: "match-bad-escape-in-nested-pattern", selfCont: true, mk: func() Expr {
			return &MatchExpr{Subj: Arr(S("a"), N("2")), Cases: []*MatchCase{{Pats: []Expr{Arr(S("\\q"), V("mx"))}, Body: S("first")}, {Pats: []Expr{Arr(V("my"), N("2"))}, Body: S("second")}}}
		}},
		{name: "compare-container-with-its-own-alias", mk: func() Expr { return Bin("==", V("varr"), V("valias")) }},
		{name: "compare-container-member-with-itself", mk: func() Expr { return Bin("<=", Mem(V("vcyc"), "me"), V("vcyc")) }},
		{name: "invalid-regex-held-in-a-variable", mk: func() Expr { return Bin("~", S("abc-def"), V("vbadre")) }},
		{name: "invalid-pattern-string-held-in-a-variable", mk: func() Expr { return Bin("!~", V("vstr"), V("vbadpat")) }},
		{name: "invalid-regex-returned-by-a-function", mk: func() Expr { return Bin("~", S("abc"), CallE(V("idf"), V("vbadre"), N("0"))) }},
		{name: "invalid-regex-lone-closing-paren", selfCont: true, mk: func() Expr { return Bin("~", S("x)"), S("x)")) }},
		{name: "invalid-regex-closing-paren-literal", selfCont: true, mk: func() Expr { return Bin("!~", S("ab"), &RegexLit{Pat: "a)b"}) }},
		{name: "invalid-regex-open-bracket", selfCont: true, mk: func() Expr { return Bin("~", S("a"), S("[a")) }},
		{name: "invalid-regex-bad-repeat", selfCont: true, mk: func() Expr { return Bin("~", S("a"), S("a{2,1}")) }},
		{name: "invalid-regex-trailing-backslash", selfCont: true, mk: func() Expr { return Bin("~", S("a"), S("a\\\\")) }},
		{name: "invalid-regex-nothing-to-repeat", selfCont: true, mk: func() Expr { return Bin("~", S("a"), S("*a")) }},
		{name: "call-null", mk: func() Expr { return CallE(&NullLit{}) }, selfCont: true},
		{name: "call-number", mk: func() Expr { return CallE(V("vnum"), N("1")) }},
		{name: "call-string", mk: func() Expr { return CallE(S("s")) }, selfCont: true},
		{name: "call-missing-method", mk: func() Expr { return Meth(N("5.5"), "upper") }, selfCont: true},
		{name: "invalid-regex", mk: func() Expr { return Bin("~", S("a"), S("(")) }, selfCont: true},
		{name: "compare-container", mk: func() Expr { return Bin("<", Arr(N("1")), N("2")) }, selfCont: true},
		{name: "store-member-on-number", mk: func() Expr { return &Paren{X: Asg(Mem(V("vnum"), "k"), N("1"))} }},
		{name: "store-member-on-string", mk: func() Expr { return &Paren{X: Asg(Mem(V("vstr"), "k"), N("1"))} }},
		{name: "store-member-on-bool", mk: func() Expr { return &Paren{X: Asg(Mem(V("vbool"), "k"), N("1"))} }},
		// a member named like a method of the receiver's kind is still a member: storing it on an array / string / number fails
		{name: "store-method-named-member-on-array", mk: func() Expr { return &Paren{X: Asg(Mem(V("varr"), "length"), N("5"))} }},
		{name: "store-method-named-member-on-string", mk: func() Expr { return &Paren{X: Asg(Mem(V("vstr"), "upper"), N("1"))} }},
		{name: "store-method-named-member-on-number", mk: func() Expr { return &Paren{X: Asg(Mem(V("vnum"), "floor"), S("f"))} }},
		{name: "store-method-named-member-on-array-by-index-syntax", mk: func() Expr { return &Paren{X: Asg(Idx(V("varr"), S("push")), N("1"))} }},
		{name: "store-below-method-named-member-on-string", mk: func() Expr { return &Paren{X: Asg(Mem(Mem(V("vstr"), "split"), "x"), N("1"))} }},
		{name: "string-index-on-array-store", mk: func() Expr { return &Paren{X: Asg(Idx(V("varr"), S("k")), N("1"))} }},
		{name: "bad-escape", mk: func() Expr { return S("\\q") }, selfCont: true},
		{name: "unknown-dollar-variable", mk: func() Expr { return V("$nope") }, selfCont: true},
		{name: "index-before-start", mk: func() Expr { return Idx(V("varr"), un(N("9"))) }},
		{name: "printf-missing-argument", mk: func() Expr { return CallE(V("printf"), S("%s")) }, selfCont: true},
		{name: "printf-wrong-kind", mk: func() Expr { return CallE(V("printf"), S("%s"), N("1")) }, selfCont: true},
		{name: "printf-unknown-code", mk: func() Expr { return CallE(V("printf"), S("%d"), N("1")) }, selfCont: true},
		{name: "printf-dangling-percent", mk: func() Expr { return CallE(V("printf"), S("x%")) }, selfCont: true},
		{name: "split-without-argument", mk: func() Expr { return Meth(S("a,b"), "split") }, selfCont: true},
		{name: "json-of-cycle", mk: func() Expr { return CallE(V("json"), V("vcyc")) }},
		{name: "index-too-large", mk: func() Expr { return &Paren{X: Asg(Idx(V("varr"), N("5000000")), N("1"))} }},
		{name: "recursion-limit", mk: func() Expr { return CallE(V("rec"), N("1")) }, heavy: true},
		{name: "incdec-on-member-of-number", mk: func() Expr { return &Paren{X: &IncDec{Op: "++", X: Mem(V("vnum"), "y")}} }},
		{name: "forin-over-number", stmtOnly: func() Stmt { return &ForIn{V: "fx", It: N("5"), Body: Blk(Pr(S("never")))} }},
		{name: "forin-over-null", stmtOnly: func() Stmt { return &ForIn{V: "fx", It: &NullLit{}, Body: Blk(Pr(S("never")))} }},
	}
}

// globals every planted program starts with
func c11Setup() []any {
	rec := &Func{Name: "rec", Params: []string{"n"}, Body: Blk(&Return{X: CallE(V("rec"), Bin("+", V("n"), N("1")))})}
	idf := &Func{Name: "idf", Params: []string{"p", "q"}, Body: Blk(&Return{X: V("p")})}
	setup := &Rule{Kind: "BEGIN", Body: Blk(
		asg(V("vnum"), N("5")), asg(V("vstr"), S("str")), asg(V("vbool"), &BoolLit{V: true}), asg(V("varr"), Arr(N("1"), N("2"))), asg(V("valias"), V("varr")), asg(V("vbadre"), &RegexLit{Pat: "^[a-c]+-[0-9]+-[z-a]+$"}), asg(V("vbadpat"), S("ab(cd")),
		asg(V("vcyc"), &ObjectLit{}), asg(Mem(V("vcyc"), "me"), V("vcyc")), Pr(S("early")))}
	return []any{rec, idf, setup}
}

// positions: how a fault expression F is embedded into a statement list
type faultPos struct {
	name string
	mk   func(f Expr) []Stmt
}

func c11Positions() []faultPos {
	one := func(s Stmt) []Stmt { return []Stmt{s} }
	return []faultPos{
		{"expression-statement", func(f Expr) []Stmt { return one(ES(Asg(V("sink"), f))) }},
		{"bare-expression-statement", func(f Expr) []Stmt { return one(ES(CallE(V("idf"), f))) }},
		{"left-operand-arith", func(f Expr) []Stmt { return one(Pr(Bin("+", f, N("1")))) }},
		{"right-operand-arith", func(f Expr) []Stmt { return one(Pr(Bin("*", N("2"), f))) }},
		{"left-operand-compare", func(f Expr) []Stmt { return one(Pr(Bin("==", f, N("1")))) }},
		{"right-operand-compare", func(f Expr) []Stmt { return one(Pr(Bin("<", N("1"), f))) }},
		{"left-operand-logic", func(f Expr) []Stmt { return one(Pr(Bin("&&", f, N("1")))) }},
		{"right-operand-or-evaluated", func(f Expr) []Stmt { return one(Pr(Bin("||", N("0"), f))) }},
		{"right-operand-and-evaluated", func(f Expr) []Stmt { return one(Pr(Bin("&&", N("1"), f))) }},
		{"left-operand-match", func(f Expr) []Stmt { return one(Pr(Bin("~", f, S("a")))) }},
		{"is-operand", func(f Expr) []Stmt { return one(Pr(&IsExpr{X: &Paren{X: f}, T: "number"})) }},
		{"prefix-minus-operand", func(f Expr) []Stmt { return one(Pr(&Unary{Op: "-", X: &Paren{X: f}})) }},
		{"prefix-not-operand", func(f Expr) []Stmt { return one(Pr(&Unary{Op: "!", X: &Paren{X: f}})) }},
		{"callee", func(f Expr) []Stmt { return one(Pr(CallE(&Paren{X: f}, N("1")))) }},
		{"first-call-argument", func(f Expr) []Stmt { return one(Pr(CallE(V("idf"), f, N("1")))) }},
		{"second-call-argument", func(f Expr) []Stmt { return one(Pr(CallE(V("idf"), N("1"), f))) }},
		{"method-argument", func(f Expr) []Stmt { return one(Pr(Meth(Arr(N("1")), "contains", f))) }},
		{"surplus-argument-of-a-user-function", func(f Expr) []Stmt { return one(Pr(CallE(V("idf"), N("1"), N("2"), f))) }},
		{"surplus-argument-of-a-method", func(f Expr) []Stmt { return one(Pr(Meth(Arr(N("1")), "length", f))) }},
		{"second-of-two-surplus-arguments", func(f Expr) []Stmt { return one(ES(CallE(V("idf"), N("1"), N("2"), N("3"), f))) }},
		{"array-element", func(f Expr) []Stmt { return one(Pr(Arr(N("1"), f, N("3")))) }},
		{"object-value", func(f Expr) []Stmt {
			return one(asg(V("sink"), &ObjectLit{Keys: []string{"a", "k"}, Quoted: []bool{false, false}, Vals: []Expr{N("1"), f}}))
		}},
		{"index-expression", func(f Expr) []Stmt { return one(Pr(Idx(V("varr"), f))) }},
		{"member-base", func(f Expr) []Stmt { return one(Pr(Mem(&Paren{X: f}, "k"))) }},
		{"assignment-index", func(f Expr) []Stmt { return one(asg(Idx(V("sink2"), f), N("1"))) }},
		{"compound-assignment-rhs", func(f Expr) []Stmt { return one(ES(&Assign{Op: "+=", L: V("sink3"), R: f})) }},
		{"if-condition", func(f Expr) []Stmt { return one(&If{C: f, Then: Blk(Pr(S("then"))), Else: Blk(Pr(S("else")))}) }},
		{"while-condition", func(f Expr) []Stmt { return one(&While{C: f, Body: Blk(Pr(S("body")), &Break{})}) }},
		{"for-initialiser", func(f Expr) []Stmt {
			return one(&For{Pre: Asg(V("fi"), f), C: Bin("<", V("fi"), N("2")), Post: &IncDec{Op: "++", X: V("fi")}, Body: Blk(Pr(S("body"), V("fi")))})
		}},
		{"for-condition", func(f Expr) []Stmt {
			return one(&For{Pre: Asg(V("fi"), N("0")), C: f, Post: &IncDec{Op: "++", X: V("fi")}, Body: Blk(Pr(S("body")), &Break{})})
		}},
		{"for-post-expression", func(f Expr) []Stmt {
			return one(&For{Pre: Asg(V("fi"), N("0")), C: Bin("<", V("fi"), N("2")), Post: Asg(V("fi"), f), Body: Blk(Pr(S("body"), V("fi")))})
		}},
		{"forin-iterable", func(f Expr) []Stmt { return one(&ForIn{V: "fx", It: f, Body: Blk(Pr(S("body")))}) }},
		{"match-subject", func(f Expr) []Stmt {
			return one(Pr(&MatchExpr{Subj: f, Cases: []*MatchCase{{Pats: []Expr{V("mv")}, Body: S("matched")}}}))
		}},
		{"match-body-expression", func(f Expr) []Stmt {
			return one(Pr(&MatchExpr{Subj: N("1"), Cases: []*MatchCase{{Pats: []Expr{N("2")}, Body: S("no")}, {Pats: []Expr{V("mv")}, Body: f}}}))
		}},
		{"match-body-block", func(f Expr) []Stmt {
			return one(ES(&MatchExpr{Subj: N("1"), Cases: []*MatchCase{{Pats: []Expr{V("mv")}, Block: Blk(Pr(S("in-block")), asg(V("sink"), f), Pr(S("after-in-block")))}}}))
		}},
		{"print-argument", func(f Expr) []Stmt { return one(Pr(S("first"), f, S("third"))) }},
		{"printf-argument", func(f Expr) []Stmt { return one(ES(CallE(V("printf"), S("%v %v\n"), N("1"), f))) }},
		{"nested-blocks", func(f Expr) []Stmt {
			return one(&If{C: N("1"), Then: Blk(&While{C: N("1"), Body: Blk(&ForIn{V: "nb", It: Arr(N("1"), N("2")), Body: Blk(Pr(S("deep"), V("nb")), asg(V("sink"), f))}, &Break{})})})
		}},
	}
}

type plantCtx struct {
	name string
	// wrap puts the planted statements (surrounded by pre/post prints) into a program
	wrap func(stmts []Stmt, items []any) (*Program, []byte)
}

func c11Contexts() []plantCtx {
	sur := func(stmts []Stmt) []Stmt {
		return append(append([]Stmt{Pr(S("pre"))}, stmts...), Pr(S("post")))
	}
	return []plantCtx{
		{"BEGIN", func(st []Stmt, items []any) (*Program, []byte) {
			return &Program{Items: append(items, &Rule{Kind: "BEGIN", Body: &Block{Stmts: sur(st)}}, &Rule{Kind: "END", Body: Blk(Pr(S("END")))})}, nil
		}},
		{"pattern-rule-2nd-of-3", func(st []Stmt, items []any) (*Program, []byte) {
			body := []Stmt{Pr(S("elem"), V("$")), &If{C: Bin("==", V("$"), N("20")), Then: &Block{Stmts: sur(st)}}, Pr(S("elem-end"))}
			return &Program{Items: append(items, &Rule{Kind: "pattern", Body: &Block{Stmts: body}}, &Rule{Kind: "END", Body: Blk(Pr(S("END")))})}, []byte("[10, 20, 30]")
		}},
		{"function-called-from-END", func(st []Stmt, items []any) (*Program, []byte) {
			fn := &Func{Name: "planted", Body: &Block{Stmts: append(sur(st), &Return{X: N("1")})}}
			return &Program{Items: append(items, fn, &Rule{Kind: "pattern", Body: Blk(Pr(S("elem"), V("$")))},
				&Rule{Kind: "END", Body: Blk(Pr(S("END-start")), Pr(S("result"), CallE(V("planted"))), Pr(S("END-end")))})}, []byte("[1]")
		}},
	}
}

// special placements that are not statement lists
func c11Special(c *Case, fk faultKind, which int) {
	f := fk.mk()
	items := c11Setup()
	var p *Program
	var data []byte
	name := ""
	switch which {
	case 0:
		name = "rule-pattern"
		p = &Program{Items: append(items, &Rule{Kind: "pattern", Body: Blk(Pr(S("first-rule"), V("$")))},
			&Rule{Kind: "pattern", Pattern: f, Body: Blk(Pr(S("body")))}, &Rule{Kind: "END", Body: Blk(Pr(S("END")))})}
		data = []byte("[1, 2]")
	case 1:
		name = "function-return-value"
		fn := &Func{Name: "fr", Body: Blk(Pr(S("in-fr")), &Return{X: f})}
		p = &Program{Items: append(items, fn, &Rule{Kind: "BEGIN", Body: Blk(Pr(S("pre")), Pr(CallE(V("fr"))), Pr(S("post")))})}
	case 2:
		name = "BEGINFILE"
		p = &Program{Items: append(items, &Rule{Kind: "BEGINFILE", Body: Blk(Pr(S("bf")), asg(V("sink"), f), Pr(S("post")))},
			&Rule{Kind: "pattern", Body: Blk(Pr(S("never")))})}
		data = []byte("[1]")
	case 3:
		name = "ENDFILE"
		p = &Program{Items: append(items, &Rule{Kind: "pattern", Body: Blk(Pr(S("elem"), V("$")))},
			&Rule{Kind: "ENDFILE", Body: Blk(Pr(S("ef")), asg(V("sink"), f), Pr(S("post")))}, &Rule{Kind: "END", Body: Blk(Pr(S("never")))})}
		data = []byte("[1, 2] [3]")
	}
	key := fmt.Sprintf("%s@%s", fk.name, name)
	c.NonTrivial(key)
	c.Count("position:" + name)
	var files []InFile
	if data != nil {
		files = []InFile{{Name: "in.json", Data: data}}
	}
	m2(c, &M2Case{Prog: p, Files: files, Desc: "planted runtime fault " + key, Budget: 400000})
}

func c11Selector(c *Case, fk faultKind) {
	f := fk.mk()
	p := &Program{Items: []any{&Rule{Kind: "BEGIN", Body: Blk(Pr(S("early")))}, &Rule{Kind: "pattern", Body: Blk(Pr(S("never"), V("$")))}, &Rule{Kind: "END", Body: Blk(Pr(S("never-END")))}}}
	key := fk.name + "@selector"
	c.NonTrivial(key)
	c.Count("position:selector")
	m2(c, &M2Case{Prog: p, Files: []InFile{{Name: "in.json", Data: []byte(`{"a": [1]}`)}}, Selectors: []Expr{f}, Desc: "planted runtime fault " + key})
	// the selector itself prints before it fails; and a failing selector after one that was processed
	c.Count("position:selector-after-own-output")
	m2(c, &M2Case{Prog: p, Files: []InFile{{Name: "in.json", Data: []byte(`{"a": [1]}`)}}, Selectors: []Expr{Arr(CallE(V("printf"), S("selector-output|")), fk.mk())},
		Desc: "planted runtime fault " + fk.name + "@selector, after output printed by the same selector"})
	p2 := &Program{Items: []any{&Rule{Kind: "BEGIN", Body: Blk(Pr(S("early")))}, &Rule{Kind: "pattern", Body: Blk(Pr(S("rule"), V("$")))}, &Rule{Kind: "END", Body: Blk(Pr(S("never-END")))}}}
	m2(c, &M2Case{Prog: p2, Files: []InFile{{Name: "in.json", Data: []byte(`{"a": [1, 2]}`)}}, Selectors: []Expr{Mem(V("$"), "a"), Arr(CallE(V("printf"), S("second-selector|")), fk.mk())},
		Desc: "planted runtime fault " + fk.name + "@second selector, after the first was processed"})
}

// ---- a -r selector that does not parse: a syntax error of the run, nothing at all is executed, input or no input
func c11SelectorSyntax(c *Case) {
	progs := []string{"BEGIN { print 'begin' } { print 'rule', $ } END { print 'end' }", "BEGIN { print 'begin' }", "{ print }"}
	bad := []string{"$.(", "$.a +", ")", "[1,", "'abc", "1 = 2", "$.a.", "match ($) {", "f(", "$ $", "@", "-a = 1", "5++"}
	for _, prog := range progs {
		for _, sel := range bad {
			for _, in := range []string{`{"a": 1} {"a": 2}`, "", "[1, 2]"} {
				for _, sels := range [][]string{{sel}, {"$", sel}, {sel, "$.a"}} {
					var files []InFile
					if in != "" {
						files = []InFile{{Name: "in.json", Data: []byte(in)}}
					}
					lib := RunLib(prog, files, sels, RunOpts{Budget: 100000})
					c.NonTrivial("selsyntax:" + prog + "|" + strings.Join(sels, "|") + "|" + in)
					c.Count("selector_syntax_errors")
					if lib.Class == "syntax" && len(lib.Stdout) == 0 {
						c.Held()
						continue
					}
					c.Violation(fmt.Sprintf("selectors %q do not parse: the run must be a syntax error without any output; got %s (%s) with stdout %q | program %s | input %q", sels, lib.Class, lib.Msg, clip(string(lib.Stdout), 60), prog, in), nil, map[string]any{"program": prog, "selectors": sels, "input": in})
				}
			}
		}
	}
}

// ---- late faults: one expression site works a few times and then fails on other data (laws on the
// implementation alone; expected output computed by hand)

var c11Late = []struct{ prog, want string }{
	{"{ printf('%s|', $.v) } END { print 'never' }", "a|"},
	{"BEGIN { printf('%s;', 'x'); printf('%s;', 5); print 'never' }", "x;"},
	{"BEGIN { printf('%f;', 1.5); printf('%f;', 'str'); print 'never' }", "1.5;"},
	{"BEGIN { for (x in ['a', 'b', 3, 'd']) { printf('%s,', x) } print 'never' }", "a,b,"},
	{"function show(v) { printf('[%3s]', v) } BEGIN { show('s'); show('tt'); show([1]); print 'never' }", "[  s][ tt]"},
	{"BEGIN { fmt = '%s-'; printf(fmt, 'a'); printf(fmt, 'b'); printf(fmt, null); print 'never' }", "a-b-"},
	{"BEGIN { printf('%s %s|', 'a', 'b'); printf('%s %s|', 'a'); print 'never' }", "a b|"},
	{"{ printf('%5s|%-3f|', $.v, 1) } END { print 'never' }", "    a|1  |"},
	{"BEGIN { for (i = 0; i < 6; i++) { print 12 / (3 - i) } print 'never' }", "4\n6\n12\n"},
	{"BEGIN { for (i = 0; i < 6; i++) { print 7 % (2 - i) } print 'never' }", "1\n0\n"},
	{"BEGIN { pats = ['a', 'b', '(', 'c']; for (p in pats) { print 'abc' ~ p } print 'never' }", "true\ntrue\n"},
	{"BEGIN { arr = [1, 2, 3]; for (i = 2; i > -6; i--) { print arr[i - 2] } print 'never' }", "1\n3\n2\n1\n"},
	{"BEGIN { v = 'str'; for (i = 0; i < 3; i++) { print v.upper(); v = 5 } print 'never' }", "STR\n"},
	{"BEGIN { o = {k: {n: 1}}; for (i = 0; i < 3; i++) { o.k.n = o.k.n + 1; print o.k.n; o.k = 7 } print 'never' }", "2\n"},
	{"function f(v) { return v.length() } BEGIN { print f('ab'); print f([1, 2, 3]); print f(5); print 'never' }", "2\n3\n"},
	{"BEGIN { fns = ['x', 'y']; print fns.length(); print fns.length(); fns = 3; print fns.length(); print 'never' }", "2\n2\n"},
	{"{ print [1, 2][$.i] } END { print 'never' }", "2\n1\n2\n"},
	{"{ print json($.c) < 'z', $.c < 1 } END { print 'never' }", "true true\n"},
}

func c11LateRun(c *Case, k int) {
	l := c11Late[k]
	in := `{"v": "a", "i": 1, "c": 0} {"v": 2, "i": 0, "c": [1]} {"v": "c", "i": -1, "c": 2} {"v": "d", "i": -3, "c": 3}`
	lib := RunLib(l.prog, []InFile{{Name: "in.json", Data: []byte(in)}}, nil, RunOpts{Budget: 200000})
	c.NonTrivial("late:" + l.prog)
	c.Count("late_fault_programs")
	if lib.Class == "runtime" && string(lib.Stdout) == l.want {
		c.Held()
		return
	}
	c.Violation(fmt.Sprintf("a site that worked before fails on later data: the run must stop there as a runtime error with stdout %q; got %s (%s) with stdout %q | program: %s", l.want, lib.Class, lib.Msg, clip(string(lib.Stdout), 100), l.prog), nil, map[string]any{"program": l.prog, "input": in})
}

// ---------------------------------------------------------------------------
// (a) syntax splices

type splice struct {
	name  string
	tok   string // token-level insertion (raw text) ...
	stmt  string // ... or statement-level insertion
	where string // any | rule-level (not inside a function) | outside-loop | end
}

var c11Splices = []splice{
	{name: "illegal-byte-at", tok: "@"},
	{name: "illegal-byte-backtick", tok: "`"},
	{name: "illegal-byte-control", tok: "\x01"},
	{name: "illegal-byte-utf8-continuation", tok: "\x80"},
	{name: "illegal-byte-question", tok: "?"},
	{name: "illegal-single-ampersand", tok: "&"},
	{name: "illegal-nonascii-2byte", tok: "é"},
	{name: "illegal-nonascii-3byte", tok: "日"},
	{name: "unmatched-rparen", tok: ")"},
	{name: "unmatched-rsquare", tok: "]"},
	{name: "unmatched-rcurly", tok: "}"},
	{name: "lone-double-quote", tok: "\""},
	{name: "missing-operand", stmt: "zz = * 3"},
	{name: "missing-right-operand", stmt: "zz = 3 +", where: "last"},
	{name: "return-outside-function", stmt: "return 1", where: "rule-level"},
	{name: "break-outside-loop", stmt: "break", where: "outside-loop"},
	{name: "continue-outside-loop", stmt: "continue", where: "outside-loop"},
	{name: "break-in-forin-header", stmt: "for (zz in match (1) { 1 => { break } }) { yy = 1 }", where: "outside-loop"},
	{name: "continue-in-for-condition", stmt: "for (zz = 0; match (zz) { 0 => { continue } }; zz++) { yy = 1 }", where: "outside-loop"},
	{name: "break-in-while-condition", stmt: "while (match (1) { 1 => { break } }) { yy = 1 }", where: "outside-loop"},
	{name: "assign-to-literal", stmt: "1 = zz"},
	{name: "assign-to-string-literal", stmt: "'s' = zz"},
	{name: "assign-to-arithmetic", stmt: "aa + bb = 1"},
	{name: "compound-assign-to-arithmetic", stmt: "aa * bb += 1"},
	{name: "assign-to-array-literal", stmt: "[zz] = 1", where: "first"},
	{name: "assign-to-negated-name", stmt: "-aa = 3"},
	{name: "assign-to-logical-not", stmt: "!aa = 3"},
	{name: "compound-assign-to-negated-name", stmt: "-aa += 3"},
	{name: "assign-to-call-result", stmt: "idf(1) = 3"},
	{name: "assign-to-method-call-result", stmt: "aa.length() = 3"},
	{name: "assign-to-postfix-increment", stmt: "aa++ = 3"},
	{name: "assign-to-match-expression", stmt: "match (1) { 1 => 2 } = 3"},
	{name: "increment-of-a-literal", stmt: "5++"},
	{name: "prefix-increment-of-a-literal", stmt: "++5"},
	{name: "decrement-of-a-string-literal", stmt: "'s'--"},
	{name: "increment-of-arithmetic", stmt: "(aa + 1)++"},
	{name: "increment-of-an-increment", stmt: "aa++ ++"},
	{name: "increment-of-a-call", stmt: "idf(1)++"},
	{name: "increment-of-a-parenthesised-negation", stmt: "zz = (-aa)++"},
	{name: "forin-without-in", stmt: "for (zz, yy [1, 2]) { xx = 1 }"},
	{name: "forin-over-dollar-as-variable", stmt: "for ($ in [1, 2]) { xx = 1 }"},
	{name: "unterminated-regex", stmt: "zz = /abc", where: "end"},
	{name: "unterminated-string", stmt: "zz = 'abc", where: "end"},
}

// blocks collects the blocks of a program where a statement may be inserted.
type blockSite struct {
	b       *Block
	inFunc  bool
	inLoop  bool
	topRule bool
}

func collectBlocks(p *Program) []blockSite {
	var out []blockSite
	var walk func(s Stmt, inFunc, inLoop bool)
	walk = func(s Stmt, inFunc, inLoop bool) {
		switch x := s.(type) {
		case *Block:
			out = append(out, blockSite{b: x, inFunc: inFunc, inLoop: inLoop})
			for _, st := range x.Stmts {
				walk(st, inFunc, inLoop)
			}
		case *If:
			walk(x.Then, inFunc, inLoop)
			if x.Else != nil {
				walk(x.Else, inFunc, inLoop)
			}
		case *While:
			walk(x.Body, inFunc, true)
		case *For:
			walk(x.Body, inFunc, true)
		case *ForIn:
			walk(x.Body, inFunc, true)
		}
	}
	for _, it := range p.Items {
		switch x := it.(type) {
		case *Rule:
			if x.Body != nil {
				walk(x.Body, false, false)
			}
		case *Func:
			walk(x.Body, true, false)
		}
	}
	return out
}

func insertStmt(b *Block, pos int, s Stmt) {
	b.Stmts = append(b.Stmts[:pos], append([]Stmt{s}, b.Stmts[pos:]...)...)
}

func c11Host(rng *rand.Rand) (*Program, []byte) {
	g := newStructGen(rng, sgOpts{MaxDepth: 1 + rng.IntN(3), Funcs: rng.IntN(2) == 0, Signals: true, MultiRule: true})
	p, doc := g.Program()
	// the host starts with BEGIN { print "early" } so that pre-emption is observable
	p.Items = append([]any{&Rule{Kind: "BEGIN", Body: Blk(Pr(S("early")))}}, p.Items...)
	return p, doc
}

// spliceProgram returns the spliced text, or "" if the splice has no legal site in this host.
func spliceProgram(rng *rand.Rand, p *Program, sp splice, rd **Rendered, node *any) string {
	if sp.tok != "" {
		r := RenderProgram(p, ParenMinimal, nil)
		pos := rng.IntN(len(r.Toks) + 1)
		if sp.tok == "\"" {
			// must not be able to pair with a later double quote: the canonical layout uses single quotes only
			for _, t := range r.Toks {
				if t.Kind == TStr && strings.Contains(t.Text, "\"") {
					return ""
				}
			}
		}
		nt := Tok{Kind: TRaw, Text: sp.tok, Gap: GapFree}
		if pos < len(r.Toks) && (r.Toks[pos].Gap == GapStmt || r.Toks[pos].Gap == GapStmtBrace || r.Toks[pos].Gap == GapNoNL) {
			nt.Gap = GapNoNL
		}
		if rng.IntN(4) == 0 {
			// directly after a statement separator (';' or a line end): the spliced token opens the next statement
			var starts []int
			for i, t := range r.Toks {
				if t.Gap == GapStmt {
					starts = append(starts, i)
				}
			}
			if len(starts) > 0 {
				pos = starts[rng.IntN(len(starts))]
				nt.Gap = GapStmt
				r.Toks[pos].Gap = GapFree
			}
		}
		r.Toks = append(r.Toks[:pos], append([]Tok{nt}, r.Toks[pos:]...)...)
		// spans shift: only the spliced token's span is used afterwards
		r.Spans = map[any][2]int{"splice": {pos, pos}}
		*rd = r
		*node = "splice"
		s, _ := r.Layout(nil)
		return s
	}
	sites := collectBlocks(p)
	var ok []blockSite
	for _, s := range sites {
		switch sp.where {
		case "rule-level":
			if s.inFunc {
				continue
			}
		case "outside-loop":
			if s.inLoop {
				continue
			}
		}
		ok = append(ok, s)
	}
	if len(ok) == 0 {
		return ""
	}
	st := &RawStmt{Text: sp.stmt}
	if sp.where == "end" {
		// last statement of the last rule (nothing may follow that could terminate the literal)
		var last *Block
		for _, it := range p.Items {
			if r, isRule := it.(*Rule); isRule && r.Body != nil {
				last = r.Body
			}
		}
		if _, isRule := p.Items[len(p.Items)-1].(*Rule); !isRule || last == nil {
			return ""
		}
		last.Stmts = append(last.Stmts, st)
	} else {
		site := ok[rng.IntN(len(ok))]
		switch sp.where {
		case "first":
			insertStmt(site.b, 0, st)
		case "last":
			insertStmt(site.b, len(site.b.Stmts), st)
		default:
			insertStmt(site.b, rng.IntN(len(site.b.Stmts)+1), st)
		}
	}
	r := RenderProgram(p, ParenMinimal, nil)
	*rd = r
	*node = st
	s, _ := r.Layout(nil)
	if sp.where == "end" && (strings.Count(s, "'") != strings.Count(strings.Replace(s, sp.stmt, "", 1), "'")+1 && strings.Contains(sp.stmt, "'")) {
		return ""
	}
	return s
}

func c11Splice(c *Case) {
	rng := c.Rng
	p, doc := c11Host(rng)
	sp := c11Splices[rng.IntN(len(c11Splices))]
	var rd *Rendered
	var node any
	text := spliceProgram(rng, p, sp, &rd, &node)
	if text == "" {
		c.Inconclusive("no-site-for-splice")
		return
	}
	if sp.name == "unterminated-regex" && strings.Count(text[strings.Index(text, "/abc")+1:], "/") > 0 {
		c.Inconclusive("no-site-for-splice")
		return
	}
	lib := RunLib(text, []InFile{{Name: "in.json", Data: doc}}, nil, RunOpts{})
	c.Count("splice:" + sp.name)
	c.NonTrivial("splice:" + sp.name + ":" + text)
	if lib.Class == "syntax" && len(lib.Stdout) == 0 {
		c.Held()
	} else {
		c.Violation(fmt.Sprintf("program with a spliced syntax error (%s) must produce no output and a syntax error; got %s (%s) with stdout %q | program: %s", sp.name, lib.Class, lib.Msg, clip(string(lib.Stdout), 60), clip(text, 200)),
			nil, map[string]any{"program": text, "input": string(doc), "splice": sp.name})
	}
	if c.Idx%2000 == 1 {
		c.Sample(map[string]any{"splice": sp.name, "program": text})
	}
}

// (b) sampled: a runtime fault planted at a random position of a structured program
func c11RandomPlant(c *Case) {
	rng := c.Rng
	g := newStructGen(rng, sgOpts{MaxDepth: 1 + rng.IntN(3), Funcs: rng.IntN(2) == 0, Signals: true, MultiRule: true})
	p, doc := g.Program()
	faults := c11Faults()
	fk := faults[rng.IntN(len(faults))]
	for fk.heavy && rng.IntN(8) != 0 {
		fk = faults[rng.IntN(len(faults))]
	}
	sites := collectBlocks(p)
	site := sites[rng.IntN(len(sites))]
	var st Stmt
	if fk.stmtOnly != nil {
		st = fk.stmtOnly()
	} else {
		st = asg(V("sink"), fk.mk())
	}
	insertStmt(site.b, rng.IntN(len(site.b.Stmts)+1), st)
	p.Items = append(c11Setup(), p.Items...)
	rd := RenderProgram(p, ParenMinimal, nil)
	text, _ := rd.Layout(nil)
	if rd.LeadBad {
		c.Inconclusive("generator-discipline")
		return
	}
	c.Count("random-plant:" + fk.name)
	r := m2(c, &M2Case{Prog: p, Text: text, Files: []InFile{{Name: "in.json", Data: doc}}, Desc: "fault " + fk.name + " planted in a structured program", Budget: 400000})
	if r.Mod != nil && r.Mod.Class == "runtime" {
		c.NonTrivial("plant:" + text)
	}
}

func c11MatrixSize() int {
	nf, np, nc := len(c11Faults()), len(c11Positions()), len(c11Contexts())
	return nf * (np*nc + 4 + 1)
}

func c11Matrix(c *Case, idx int) {
	faults, poss, ctxs := c11Faults(), c11Positions(), c11Contexts()
	per := len(poss)*len(ctxs) + 5
	fk := faults[idx/per]
	j := idx % per
	if fk.stmtOnly != nil {
		// statement faults: one placement per context
		if j >= len(ctxs) {
			return
		}
		p, data := ctxs[j].wrap([]Stmt{fk.stmtOnly()}, c11Setup())
		key := fk.name + "@statement/" + ctxs[j].name
		c.NonTrivial(key)
		var files []InFile
		if data != nil {
			files = []InFile{{Name: "in.json", Data: data}}
		}
		m2(c, &M2Case{Prog: p, Files: files, Desc: "planted runtime fault " + key})
		return
	}
	switch {
	case j < len(poss)*len(ctxs):
		pos, ctx := poss[j/len(ctxs)], ctxs[j%len(ctxs)]
		if fk.heavy && (j/len(ctxs))%5 != 0 {
			return
		}
		p, data := ctx.wrap(pos.mk(fk.mk()), c11Setup())
		key := fmt.Sprintf("%s@%s/%s", fk.name, pos.name, ctx.name)
		c.NonTrivial(key)
		c.Count("position:" + pos.name)
		c.Count("fault:" + fk.name)
		var files []InFile
		if data != nil {
			files = []InFile{{Name: "in.json", Data: data}}
		}
		m2(c, &M2Case{Prog: p, Files: files, Desc: "planted runtime fault " + key, Budget: 400000})
		if idx == 40 {
			c.Sample(map[string]any{"cell": key, "program": Canon(p)})
		}
	case j < len(poss)*len(ctxs)+4:
		c11Special(c, fk, j-len(poss)*len(ctxs))
	default:
		if fk.selfCont {
			c11Selector(c, fk)
		}
	}
}

func c11Cases(tier string) int {
	if tier == "thorough" {
		return c11MatrixSize() + 200000 + 200000
	}
	return c11MatrixSize() + 8000 + 6000
}

func c11Run(c *Case) {
	if c.Idx == 0 {
		round8Hand(c, "C11")
	}
	m := c11MatrixSize()
	ns := 8000
	if c.Tier == "thorough" {
		ns = 200000
	}
	if c.Idx >= m && c.Idx < m+len(c11Late) {
		c11LateRun(c, c.Idx-m)
		if c.Idx == m {
			c11SelectorSyntax(c)
		}
		return
	}
	switch {
	case c.Idx < m:
		c11Matrix(c, c.Idx)
	case c.Idx < m+ns:
		c11Splice(c)
	default:
		c11RandomPlant(c)
	}
}

func init() {
	register(&Prop{
		ID: "C11", Level: "fault_enumeration",
		Rule:          "fault enumeration. (a) syntax splices: a generated valid host program (starting with BEGIN { print 'early' }) x 41 splice kinds (6 illegal bytes, unmatched ) ] }, lone quote, missing operands, return outside a function, break/continue outside a loop, assignment to a literal / arithmetic result / array literal / negated name / call result / increment / match expression, ++ and -- on literals / arithmetic / calls / other increments, for-in without `in` or with $ as its variable, unterminated string / regex) inserted at a random token boundary or statement position: outcome must be `syntax` with empty stdout. (b) runtime faults: 50 fault kinds x 38 syntactic positions (every operand slot, prefix operand, callee, call/method argument, array element, object value, index, member base, if/while condition, for initialiser/condition/post, for-in iterable, match subject/body expression/body block, print/printf argument, nested blocks) x 3 contexts (BEGIN; pattern rule on the 2nd of 3 elements; function called from END), plus rule pattern, return value, BEGINFILE, ENDFILE and -r selector placements (the selector alone, after output printed by the same selector, and as second selector after the first was processed); 13 selectors that do not parse x 3 programs x 3 inputs (one of them empty) x 3 selector lists: a syntax error without any output; 18 late faults (a printf / arithmetic / index / regex / method site that worked on earlier data and fails on later data, output computed by hand); each planted statement is surrounded by print 'pre' / print 'post'; stdout prefix and `runtime` outcome vs the reference model. Sampled: the same faults planted at random positions of structured programs. Every cell is non-trivial; distinct by (fault, position, context) or program text. 16 further splices of non-assignable targets (assignment to a negated name / a call result / a postfix expression, ++ and -- of literals and parenthesised sums, for-in without in, for ($ in ...)); root selectors that do not parse, alone and after valid ones, with and without input: a syntax error before anything runs. 5 runtime fault kinds storing to members named like methods on arrays / strings / numbers.",
		NumCases:      c11Cases,
		Run:           c11Run,
		MinConclusive: func(tier string) int { return 8000 },
		Chunk:         func(tier string) int { return 48 },
		Exhaustive:    func(tier string) string { return "runtime fault kind x syntactic position x context matrix" },
		Assumptions:   []string{"only splices that are errors under any reading of the grammar are used", "fault semantics of DESIGN.md section 3"},
	})
}
