package main

// Reference model, part 2: the interpreter over harness ASTs (DESIGN §3).
// Written from the property statements and §3, not from evaluator.go.
// Rules marked [P] tag the execution ("pinned:*"): a disagreement in a tagged
// execution is inconclusive, never a violation.

import (
	"math"
	"regexp"
	"sort"
	"strings"
	"unicode/utf8"
)

type signal int

const (
	sigNone signal = iota
	sigBreak
	sigContinue
	sigReturn
	sigNext
	sigExit
)

type ctl struct{ sig signal }   // control signal crossing an expression
type rtErr struct{ msg string } // runtime error
type budgetErr struct{}         // model step budget exhausted

type frame struct {
	vars map[string]*Slot
	kind string // root | call | match
}

type MInput struct {
	Name    string
	Values  []any // decoded JSON values in stream order
	Damaged bool  // the stream is damaged after Values: JSON error
}

type MOut struct {
	Stdout   string
	Class    string // ok | runtime | json | budget
	ErrMsg   string
	Root     *Val // root document at the end (nil: none)
	Tags     map[string]bool
	MaxDepth int
	Calls    int
	Signals  map[string]int
	Steps    int
	RuleSeq  []string
	Stats    map[string]int
}

func (o *MOut) TagList() []string {
	var ts []string
	for t := range o.Tags {
		ts = append(ts, t)
	}
	sort.Strings(ts)
	return ts
}

func (o *MOut) Pinned() bool {
	for t := range o.Tags {
		if strings.HasPrefix(t, "pinned:") {
			return true
		}
	}
	return false
}

type Model struct {
	prog            *Program
	out             strings.Builder
	tags            map[string]bool
	frames          []*frame
	funcs           map[string]*Func
	root            *Slot
	ruleRoot        *Slot
	retVal          Val
	steps           int
	budget          int
	depth           int
	maxDepth        int
	calls           int
	signals         map[string]int
	stats           map[string]int
	ruleSeq         []string
	multiKeyPrinted bool
	trackRules      bool
	indexPinned     bool
}

func (m *Model) tag(t string) { m.tags[t] = true }

func (m *Model) fail(msg string) { panic(rtErr{msg}) }

func (m *Model) step() {
	m.steps++
	if m.steps > m.budget {
		panic(budgetErr{})
	}
}

const modelDepthLimit = 4096

func (m *Model) push(kind string) {
	m.depth++
	if m.depth > m.maxDepth {
		m.maxDepth = m.depth
	}
	if m.depth > 1000 {
		m.tag("pinned:depth-band")
	}
	if m.depth > modelDepthLimit {
		m.depth--
		m.fail("call depth limit exceeded")
	}
	m.frames = append(m.frames, &frame{vars: map[string]*Slot{}, kind: kind})
}

func (m *Model) pop() {
	m.depth--
	m.frames = m.frames[:len(m.frames)-1]
}

func (m *Model) top() *frame { return m.frames[len(m.frames)-1] }

func (m *Model) lookup(name string) *Slot {
	own := true // still inside the innermost call (its match frames included)
	for i := len(m.frames) - 1; i >= 0; i-- {
		if s, ok := m.frames[i].vars[name]; ok {
			if i != 0 && !own {
				// found in a caller's frame: dynamic scoping is [P]
				m.tag("pinned:dynamic-scope")
			}
			return s
		}
		if m.frames[i].kind == "call" {
			own = false
		}
	}
	if strings.HasPrefix(name, "$") {
		m.fail("unknown variable " + name)
	}
	s := &Slot{V: mUnset()}
	m.top().vars[name] = s
	return s
}

// ---------------------------------------------------------------------------
// store / copy rule (§3.4)

func (m *Model) store(s *Slot, v Val, fresh bool) {
	switch v.K {
	case KFunc, KNative:
		m.fail("cannot store a function")
	case KArr:
		if !fresh {
			v.A.shared = true
		}
	case KUnset:
		m.tag("pinned:copy-unset")
	}
	v.Recv = nil
	s.V = v
	s.absent = false
}

// ---------------------------------------------------------------------------
// expressions

func litString(raw string) (string, bool) {
	if !strings.Contains(raw, "\\") {
		return raw, true
	}
	var sb strings.Builder
	for i := 0; i < len(raw); i++ {
		c := raw[i]
		if c != '\\' {
			sb.WriteByte(c)
			continue
		}
		if i == len(raw)-1 {
			return "", false
		}
		i++
		switch raw[i] {
		case 'n':
			sb.WriteByte('\n')
		case 't':
			sb.WriteByte('\t')
		case '\\':
			sb.WriteByte('\\')
		default:
			return "", false
		}
	}
	return sb.String(), true
}

func numLit(text string) (float64, bool) {
	f, ok, _ := numericString(text)
	return f, ok
}

// eval evaluates e; fresh reports that the result is a newly built container held nowhere else.
func (m *Model) eval(e Expr) (Val, bool) {
	m.step()
	switch x := e.(type) {
	case *NumLit:
		f, ok := numLit(x.Text)
		if !ok {
			m.tag("pinned:numlit-spelling")
			m.fail("could not parse number")
		}
		return mNum(f), false
	case *StrLit:
		s, ok := litString(x.Raw)
		if !ok {
			m.fail("bad escape")
		}
		return mStr(s), false
	case *BoolLit:
		return mBool(x.V), false
	case *NullLit:
		return mNull(), false
	case *RegexLit:
		return Val{K: KRegex, S: x.Pat}, false
	case *Paren:
		return m.eval(x.X)
	case *Var:
		if x.Name == "$" {
			if m.ruleRoot == nil {
				m.fail("unknown variable $")
			}
			return m.ruleRoot.V, false
		}
		if x.Name == "$index" && m.indexPinned {
			m.tag("pinned:index-nonarray")
		}
		if s := m.findVar(x.Name); s != nil {
			if _, ok := m.funcs[x.Name]; ok {
				m.tag("pinned:function-shadowed")
			}
			return s.V, false
		}
		if f, ok := m.funcs[x.Name]; ok {
			return Val{K: KFunc, F: f}, false
		}
		if isNativeName(x.Name) {
			return Val{K: KNative, S: x.Name}, false
		}
		return m.lookup(x.Name).V, false
	case *Unary:
		v, _ := m.eval(x.X)
		switch x.Op {
		case "!":
			return mBool(!m.truthy(v)), false
		case "-":
			return mNum(-m.num(v)), false
		case "+":
			return mNum(m.num(v)), false
		}
		panic("model: unary op")
	case *IncDec:
		p := m.lpathOf(x.X)
		old := m.num(m.pathRead(p))
		nv := old + 1
		if x.Op == "--" {
			nv = old - 1
		}
		s := m.pathSlot(p)
		m.store(s, mNum(nv), false)
		m.stats["incdec"]++
		if x.Prefix {
			return mNum(nv), false
		}
		return mNum(old), false
	case *Binary:
		return m.evalBinary(x), false
	case *IsExpr:
		v, _ := m.eval(x.X)
		return mBool(m.isType(v, x.T)), false
	case *Assign:
		return m.evalAssign(x)
	case *Member:
		return m.readMember(x.X, mStr(x.Name), true), false
	case *Index:
		return m.readIndex(x), false
	case *Call:
		return m.evalCall(x)
	case *ArrayLit:
		a := newMArr()
		for _, it := range x.Items {
			v, fr := m.eval(it)
			s := &Slot{}
			m.store(s, v, fr)
			a.E = append(a.E, s)
		}
		return mArrVal(a), true
	case *ObjectLit:
		o := newMObj()
		for i, k := range x.Keys {
			v, fr := m.eval(x.Vals[i])
			s := &Slot{}
			m.store(s, v, fr)
			key := k
			if i < len(x.Quoted) && x.Quoted[i] {
				// a quoted key is a string literal (property C13): the same escapes, the same error
				ks, ok := litString(k)
				if !ok {
					m.fail("bad escape")
				}
				key = ks
			}
			if old, ok := o.M[key]; ok {
				old.V = s.V
			} else {
				o.Keys = append(o.Keys, key)
				o.M[key] = s
			}
		}
		return mObjVal(o), true
	case *MatchExpr:
		return m.evalMatch(x)
	case *RawExpr:
		panic("model: RawExpr cannot be evaluated")
	}
	panic("model: unknown expr")
}

func (m *Model) findVar(name string) *Slot {
	for i := len(m.frames) - 1; i >= 0; i-- {
		if s, ok := m.frames[i].vars[name]; ok {
			return s
		}
	}
	return nil
}

func (m *Model) isType(v Val, t string) bool {
	switch t {
	case "string":
		return v.K == KStr
	case "bool":
		return v.K == KBool
	case "number":
		return v.K == KNum
	case "array":
		return v.K == KArr
	case "object":
		return v.K == KObj
	case "regex":
		return v.K == KRegex
	case "null":
		return v.K == KNull
	case "unknown":
		return v.K == KUnset
	case "function":
		if v.K == KNative {
			m.tag("pinned:is-function-native")
		}
		return v.K == KFunc
	}
	m.tag("pinned:is-unknown-typename")
	return false
}

// compare implements rules 1-4 of §3.2; unset is handled by the caller.
func (m *Model) compare(a, b Val) int {
	if a.K == KNull && b.K == KNull {
		return 0
	}
	if a.K == KNull {
		return -1
	}
	if b.K == KNull {
		return 1
	}
	if a.K == KArr || a.K == KObj || b.K == KArr || b.K == KObj {
		m.fail("cannot compare containers")
	}
	if a.K == KStr && b.K == KStr {
		return strings.Compare(a.S, b.S)
	}
	x, y := m.num(a), m.num(b)
	if math.IsNaN(x) || math.IsNaN(y) {
		m.tag("pinned:nonfinite")
	}
	switch {
	case x > y:
		return 1
	case x < y:
		return -1
	}
	return 0
}

func (m *Model) checkFinite(f float64) float64 {
	if math.IsInf(f, 0) || math.IsNaN(f) {
		m.tag("pinned:nonfinite")
	}
	return f
}

func (m *Model) evalBinary(x *Binary) Val {
	switch x.Op {
	case "&&":
		l, _ := m.eval(x.L)
		if !m.truthy(l) {
			return mBool(false)
		}
		r, _ := m.eval(x.R)
		return mBool(m.truthy(r))
	case "||":
		l, _ := m.eval(x.L)
		if m.truthy(l) {
			return mBool(true)
		}
		r, _ := m.eval(x.R)
		return mBool(m.truthy(r))
	}
	l, _ := m.eval(x.L)
	r, _ := m.eval(x.R)
	switch x.Op {
	case "==", "!=", "<", "<=", ">", ">=":
		if l.K == KUnset || r.K == KUnset {
			switch x.Op {
			case "<", ">":
				return mBool(true)
			case "==":
				return mBool(false)
			default:
				m.tag("pinned:unset-" + x.Op)
				return mBool(false)
			}
		}
		c := m.compare(l, r)
		switch x.Op {
		case "==":
			return mBool(c == 0)
		case "!=":
			return mBool(c != 0)
		case "<":
			return mBool(c < 0)
		case "<=":
			return mBool(c <= 0)
		case ">":
			return mBool(c > 0)
		default:
			return mBool(c >= 0)
		}
	case "+":
		if l.K == KStr || r.K == KStr {
			return mStr(m.str(l) + m.str(r))
		}
		return mNum(m.checkFinite(m.num(l) + m.num(r)))
	case "-":
		return mNum(m.checkFinite(m.num(l) - m.num(r)))
	case "*":
		return mNum(m.checkFinite(m.num(l) * m.num(r)))
	case "/":
		d := m.num(r)
		if d == 0 {
			m.fail("divide by zero")
		}
		return mNum(m.checkFinite(m.num(l) / d))
	case "%":
		a, b := m.num(l), m.num(r)
		if math.IsNaN(a) || math.IsNaN(b) || math.IsInf(a, 0) || math.IsInf(b, 0) {
			m.tag("pinned:mod-nan")
		}
		A, B := math.Trunc(a), math.Trunc(b)
		if B == 0 {
			m.fail("divide by zero")
		}
		if m.tags["pinned:mod-nan"] {
			return mNum(0)
		}
		// the remainder of the truncated operands, sign of the dividend; exact on doubles of any size
		res := math.Mod(A, B)
		if res == 0 {
			res = 0
		}
		return mNum(res)
	case "~", "!~":
		subj := m.str(l)
		if r.K != KStr && r.K != KRegex {
			m.fail("regex or string expected on the right of ~")
		}
		re, err := regexp.Compile(r.S)
		if err != nil {
			m.fail("invalid regex")
		}
		res := re.MatchString(subj)
		if x.Op == "!~" {
			res = !res
		}
		return mBool(res)
	}
	panic("model: binary op " + x.Op)
}

func (m *Model) evalAssign(x *Assign) (Val, bool) {
	// left path first (its index expressions), then the right-hand side, then the store
	p := m.lpathOf(x.L)
	before := pathContainers(p)
	var v Val
	var fresh bool
	if x.Op == "=" {
		v, fresh = m.eval(x.R)
	} else {
		// a op= b means a = a op b
		cur := m.pathRead(p)
		r, _ := m.eval(x.R)
		v = m.arith(x.Op[:1], cur, r)
	}
	// The store goes to the path as it is now. If the right-hand side replaced a container that the target's path ran
	// through when the target was written down (o.a.a = o.a = 3 with o.a an object), "the addressed location" can be
	// read either way - the member of the old object, or a member of what is there now - and no statement decides [P].
	// (A prefix that was missing and that the right-hand side created is not such a case: it is stated, section 3.4.)
	for i, c := range pathContainers(p) {
		if i < len(before) && before[i] != nil && before[i] != c {
			m.tag("pinned:target-prefix-replaced-by-rhs")
		}
	}
	s := m.pathSlot(p)
	m.store(s, v, fresh)
	m.stats["store"]++
	return s.V, false
}

// lpath: an assignable path with its index expressions already evaluated.
type lpath struct {
	base *Slot
	keys []Val
}

func (m *Model) lpathOf(e Expr) lpath {
	m.step()
	switch x := e.(type) {
	case *Paren:
		return m.lpathOf(x.X)
	case *Member:
		p := m.lpathOf(x.X)
		p.keys = append(p.keys[:len(p.keys):len(p.keys)], mStr(x.Name))
		return p
	case *Index:
		p := m.lpathOf(x.X)
		k, _ := m.eval(x.I)
		p.keys = append(p.keys[:len(p.keys):len(p.keys)], k)
		return p
	}
	return lpath{base: m.lref(e)}
}

// pathContainers: the identity of the container at every proper prefix of the path ("" where there is none),
// without creating, tagging or failing.
func pathContainers(p lpath) []any {
	id := func(v Val) any {
		switch v.K {
		case KObj:
			return v.O
		case KArr:
			return v.A
		}
		return nil
	}
	v := p.base.V
	out := []any{id(v)}
	for _, k := range p.keys[:max(len(p.keys)-1, 0)] {
		next := Val{K: KUnset}
		switch v.K {
		case KObj:
			key := k.S
			if k.K == KNum {
				key = fmtNum(k.N)
			}
			if s, ok := v.O.M[key]; ok && (k.K == KStr || k.K == KNum) {
				next = s.V
			}
		case KArr:
			if k.K == KNum && k.N == math.Trunc(k.N) {
				i := int(k.N)
				if i < 0 {
					i += len(v.A.E)
				}
				if i >= 0 && i < len(v.A.E) {
					next = v.A.E[i].V
				}
			}
		}
		v = next
		out = append(out, id(v))
	}
	return out
}

// pathRead: the current value at the path, creating nothing.
func (m *Model) pathRead(p lpath) Val {
	v := p.base.V
	for _, k := range p.keys {
		if v.K == KUnset {
			return mNull()
		}
		v = m.memberOfVal(v, k)
		if v.K == KNative {
			m.tag("pinned:store-method-name")
		}
	}
	return v
}

// pathSlot materialises the path (missing intermediates are created) and returns the slot.
func (m *Model) pathSlot(p lpath) *Slot {
	s := p.base
	for _, k := range p.keys {
		s = m.childSlot(s, k)
	}
	return s
}

func (m *Model) arith(op string, l, r Val) Val {
	switch op {
	case "+":
		if l.K == KStr || r.K == KStr {
			return mStr(m.str(l) + m.str(r))
		}
		return mNum(m.checkFinite(m.num(l) + m.num(r)))
	case "-":
		return mNum(m.checkFinite(m.num(l) - m.num(r)))
	case "*":
		return mNum(m.checkFinite(m.num(l) * m.num(r)))
	case "/":
		d := m.num(r)
		if d == 0 {
			m.fail("divide by zero")
		}
		return mNum(m.checkFinite(m.num(l) / d))
	}
	panic("model: arith " + op)
}

// keyOf converts an index value to an object key.
func (m *Model) keyOf(k Val) string {
	switch k.K {
	case KStr:
		return k.S
	case KNum:
		m.tag("pinned:numeric-object-key")
		return fmtNum(k.N)
	}
	m.tag("pinned:object-key-kind")
	m.fail("objects can only be indexed with numbers or strings")
	return ""
}

var methodsOf = map[Kind]map[string]bool{
	KArr: {"length": true, "push": true, "pop": true, "popfirst": true, "contains": true, "sort": true},
	KObj: {"length": true, "pluck": true},
	KStr: {"length": true, "split": true, "lower": true, "upper": true},
	KNum: {"floor": true, "ceil": true, "round": true},
}

func (m *Model) methodVal(recv Val, name string) (Val, bool) {
	if ms, ok := methodsOf[recv.K]; ok && ms[name] {
		r := recv
		return Val{K: KNative, S: recv.K.String() + "." + name, Recv: &r}, true
	}
	return Val{}, false
}

// memberOfVal reads member key of an already evaluated base value (no vivification).
func (m *Model) memberOfVal(b Val, key Val) Val {
	switch b.K {
	case KObj:
		if key.K != KStr && key.K != KNum {
			m.tag("pinned:object-key-kind")
			m.fail("objects can only be indexed with numbers or strings")
		}
		k := m.keyOf(key)
		if s, ok := b.O.M[k]; ok {
			return s.V
		}
		if mv, ok := m.methodVal(b, k); ok {
			return mv
		}
		return mNull()
	case KArr:
		if key.K != KNum {
			if key.K == KStr {
				if mv, ok := m.methodVal(b, key.S); ok {
					return mv
				}
				return mNull()
			}
			m.tag("pinned:array-key-kind")
			return mNull()
		}
		f := key.N
		if f != math.Trunc(f) {
			m.tag("pinned:fractional-index")
		}
		if math.IsNaN(f) || math.Abs(f) > 1e15 {
			m.tag("pinned:huge-index")
		}
		i := int(math.Trunc(f))
		n := len(b.A.E)
		if i < 0 {
			i += n
			if i < 0 {
				m.fail("index out of range")
			}
		}
		if i >= n {
			if i > 1000000 {
				m.tag("pinned:read-beyond-limit")
			}
			return mNull()
		}
		return b.A.E[i].V
	case KStr:
		if key.K == KStr {
			if mv, ok := m.methodVal(b, key.S); ok {
				return mv
			}
			return mNull()
		}
		m.tag("pinned:string-index")
		if key.K == KNum {
			i := int(key.N)
			if i < 0 || i >= len(b.S) {
				return mNull()
			}
			return mStr(b.S[i : i+1])
		}
		return mNull()
	case KNum:
		if key.K == KStr {
			if mv, ok := m.methodVal(b, key.S); ok {
				return mv
			}
		}
		return mNull()
	case KNull:
		return mNull() // reading through null yields null
	case KBool:
		return mNull()
	}
	m.tag("pinned:member-of-" + b.K.String())
	return mNull()
}

// vivifyBase: reading a member of an unset variable turns the variable into {} / [] [P].
func (m *Model) vivifyBase(base Expr) *Slot {
	v, ok := base.(*Var)
	if !ok || v.Name == "$" || strings.HasPrefix(v.Name, "$") {
		return nil
	}
	s := m.findVar(v.Name)
	if s == nil {
		if m.funcs[v.Name] != nil || isNativeName(v.Name) {
			return nil
		}
		s = m.lookup(v.Name)
	}
	if s.V.K != KUnset {
		return nil
	}
	return s
}

func (m *Model) vivify(s *Slot, key Val) {
	m.tag("pinned:unset-read-vivify")
	if key.K == KNum {
		s.V = mArrVal(newMArr())
	} else {
		s.V = mObjVal(newMObj())
	}
	s.absent = false
}

func (m *Model) readMember(base Expr, key Val, byName bool) Val {
	if s := m.vivifyBase(base); s != nil {
		m.step()
		m.vivify(s, key)
		return m.memberOfVal(s.V, key)
	}
	b, _ := m.eval(base)
	if b.K == KUnset {
		m.tag("pinned:unset-member")
		return mNull()
	}
	return m.memberOfVal(b, key)
}

func isNativeName(n string) bool { return n == "printf" || n == "json" || n == "num" }

func (m *Model) readIndex(x *Index) Val {
	// base first, then index (left operand, then right operand)
	if s := m.vivifyBase(x.X); s != nil {
		m.step()
		k, _ := m.eval(x.I)
		if s.V.K == KUnset {
			m.vivify(s, k)
		}
		return m.memberOfVal(s.V, k)
	}
	b, _ := m.eval(x.X)
	k, _ := m.eval(x.I)
	if b.K == KUnset {
		m.tag("pinned:unset-member")
		return mNull()
	}
	return m.memberOfVal(b, k)
}

// lref resolves an assignable path to the slot to store into, creating missing
// intermediates (§3.4).
func (m *Model) lref(e Expr) *Slot {
	m.step()
	switch x := e.(type) {
	case *Paren:
		return m.lref(x.X)
	case *Var:
		if x.Name == "$" {
			if m.ruleRoot == nil {
				m.fail("unknown variable $")
			}
			return m.ruleRoot
		}
		if _, ok := m.funcs[x.Name]; ok && m.findVar(x.Name) == nil {
			m.tag("pinned:assign-to-function")
			s := &Slot{V: mUnset()}
			m.frames[0].vars[x.Name] = s
			return s
		}
		if isNativeName(x.Name) && m.findVar(x.Name) == nil {
			m.tag("pinned:assign-to-native")
			s := &Slot{V: mUnset()}
			m.frames[0].vars[x.Name] = s
			return s
		}
		return m.lookup(x.Name)
	case *Member, *Index:
		return m.pathSlot(m.lpathOf(e))
	}
	m.tag("pinned:assign-to-nonpath")
	// assignment to a temporary: evaluate for effects, store into a scratch slot
	v, _ := m.eval(e)
	return &Slot{V: v}
}

func (m *Model) childSlot(bs *Slot, key Val) *Slot {
	b := bs.V
	if b.K == KUnset || b.K == KNull && bs.absent {
		if key.K == KNum {
			b = mArrVal(newMArr())
		} else {
			b = mObjVal(newMObj())
		}
		bs.V = b
		bs.absent = false
		m.stats["vivify"]++
	}
	switch b.K {
	case KObj:
		if key.K != KStr && key.K != KNum {
			m.tag("pinned:object-key-kind")
			m.fail("bad object key")
		}
		k := m.keyOf(key)
		if s, ok := b.O.M[k]; ok {
			return s
		}
		// (a method name that is not an own member is missing like any other name: the store creates it)
		s := &Slot{V: mNull(), absent: true}
		b.O.Keys = append(b.O.Keys, k)
		b.O.M[k] = s
		return s
	case KArr:
		if key.K != KNum {
			m.fail("array indices must be numbers")
		}
		f := key.N
		if f != math.Trunc(f) {
			m.tag("pinned:fractional-index")
		}
		if math.IsNaN(f) || math.Abs(f) > 1e15 {
			m.tag("pinned:huge-index")
			m.fail("index too large")
		}
		i := int(math.Trunc(f))
		n := len(b.A.E)
		if i < 0 {
			i += n
			if i < 0 {
				m.fail("index out of range")
			}
		}
		if i >= n {
			if i > 1000000 {
				if i < 2000000 {
					m.tag("pinned:fill-band")
				}
				m.fail("index too large to auto-fill array")
			}
			if b.A.shared {
				m.tag("alias_resize")
			}
			for j := n; j <= i; j++ {
				b.A.E = append(b.A.E, &Slot{V: mNull(), absent: j == i})
			}
			m.stats["pad"]++
		}
		return b.A.E[i]
	case KNull:
		m.tag("pinned:store-on-null")
		m.fail("could not create this object")
	case KStr:
		if key.K == KNum {
			m.tag("pinned:string-index") // storing through s[i] is unspecified (string indexing is [P])
		}
		m.fail("cannot set member on a string")
	case KNum, KBool:
		m.fail("cannot set member on a " + b.K.String())
	}
	m.tag("pinned:store-on-" + b.K.String())
	m.fail("cannot set member")
	return nil
}

// ---------------------------------------------------------------------------
// calls

func isLocation(e Expr) bool {
	switch x := e.(type) {
	case *Var, *Member, *Index:
		return true
	case *Paren:
		return isLocation(x.X)
	}
	return false
}

func (m *Model) evalCall(x *Call) (Val, bool) {
	var callee Val
	var recvExpr Expr
	if mem, ok := x.F.(*Member); ok {
		recvExpr = mem.X
		callee = m.readMember(mem.X, mStr(mem.Name), true)
		m.step()
	} else if ix, ok := x.F.(*Index); ok {
		recvExpr = ix.X
		callee = m.readIndex(ix)
		m.step()
	} else {
		callee, _ = m.eval(x.F)
	}
	args := make([]Val, 0, len(x.Args))
	fresh := make([]bool, 0, len(x.Args))
	for _, a := range x.Args {
		v, fr := m.eval(a)
		if v.K == KFunc || v.K == KNative {
			m.fail("cannot pass a function")
		}
		// an array handed to a user function (parameter) or to push (element) gains a second reference that
		// outlives the call; the other natives only look at their arguments
		if v.K == KArr && !fr && (callee.K == KFunc || (callee.K == KNative && callee.S == "array.push")) {
			v.A.shared = true
		}
		if v.K == KUnset {
			m.tag("pinned:copy-unset")
		}
		args = append(args, v)
		fresh = append(fresh, fr)
	}
	switch callee.K {
	case KFunc:
		m.calls++
		f := callee.F
		m.push("call")
		for i, p := range f.Params {
			s := &Slot{V: mNull()}
			if i < len(args) {
				s.V = args[i]
			}
			m.top().vars[p] = s
		}
		sig := m.execCatch(f.Body)
		m.pop()
		switch sig {
		case sigReturn:
			v := m.retVal
			m.retVal = mNull()
			if v.K == KArr {
				v.A.shared = true
			}
			return v, false
		case sigNone:
			return mNull(), false
		default:
			panic(ctl{sig})
		}
	case KNative:
		return m.callNative(callee, args, recvExpr)
	}
	m.fail("attempted to call a " + callee.K.String())
	return Val{}, false
}

func (m *Model) execCatch(s Stmt) (sig signal) {
	defer func() {
		if r := recover(); r != nil {
			if c, ok := r.(ctl); ok {
				sig = c.sig
				return
			}
			panic(r)
		}
	}()
	return m.exec(s)
}

// ---------------------------------------------------------------------------
// match (§3.9)

func (m *Model) matchPat(p Expr, v Val, binds map[string]Val) bool {
	switch x := p.(type) {
	case *NumLit, *StrLit, *BoolLit, *NullLit:
		lit, _ := m.eval(x)
		if v.K == KUnset {
			return false // v == literal is false for an unset v, whatever the literal
		}
		if v.K == KArr || v.K == KObj {
			if lit.K == KNull {
				return false // rule 1: null against a container is unequal, no error
			}
			// a literal pattern matches when v == literal, and comparing a container is a runtime error (properties C19 + C05/C11)
			m.fail("cannot compare")
		}
		return m.compare(v, lit) == 0
	case *Var:
		if _, dup := binds[x.Name]; dup {
			m.tag("pinned:match-dup-binding")
		}
		binds[x.Name] = v
		return true
	case *ArrayLit:
		if v.K != KArr || len(v.A.E) != len(x.Items) {
			return false
		}
		for i, it := range x.Items {
			if !m.matchPat(it, v.A.E[i].V, binds) {
				return false
			}
		}
		return true
	}
	m.tag("pinned:match-pattern-kind")
	m.fail("pattern not supported")
	return false
}

func (m *Model) evalMatch(x *MatchExpr) (Val, bool) {
	subj, _ := m.eval(x.Subj)
	m.stats["match"]++
	for ci, c := range x.Cases {
		for pi, p := range c.Pats {
			binds := map[string]Val{}
			if !m.matchPat(p, subj, binds) {
				continue
			}
			m.stats["match-selected"]++
			if ci > 0 || pi > 0 {
				m.stats["match-selected-notfirst"]++
			}
			m.push("match")
			for k, v := range binds {
				if v.K == KArr {
					v.A.shared = true
				}
				m.top().vars[k] = &Slot{V: v}
			}
			var res Val
			var fresh bool
			func() {
				defer func() {
					if r := recover(); r != nil {
						m.pop()
						panic(r)
					}
				}()
				if c.Block != nil {
					sig := m.exec(c.Block)
					if sig != sigNone {
						panic(ctl{sig})
					}
					res = mNull()
				} else {
					res, fresh = m.eval(c.Body)
				}
			}()
			m.pop()
			return res, fresh
		}
	}
	return mNull(), false
}

// ---------------------------------------------------------------------------
// statements (§3.6)

func (m *Model) exec(s Stmt) signal {
	m.step()
	switch x := s.(type) {
	case *Block:
		for _, st := range x.Stmts {
			if sig := m.exec(st); sig != sigNone {
				return sig
			}
		}
	case *Print:
		if len(x.Args) == 0 {
			if m.ruleRoot == nil {
				m.tag("pinned:print-without-root")
				m.out.WriteString("null\n")
				return sigNone
			}
			m.out.WriteString(m.pretty(m.ruleRoot.V, false, nil))
			m.out.WriteByte('\n')
			return sigNone
		}
		parts := make([]string, 0, len(x.Args))
		for _, a := range x.Args {
			v, _ := m.eval(a)
			parts = append(parts, m.pretty(v, false, nil))
		}
		m.out.WriteString(strings.Join(parts, " "))
		m.out.WriteByte('\n')
	case *ExprStmt:
		m.eval(x.X)
	case *Return:
		m.signals["return"]++
		if x.X != nil {
			v, _ := m.eval(x.X)
			m.retVal = v
		} else {
			m.retVal = mNull()
		}
		return sigReturn
	case *If:
		c, _ := m.eval(x.C)
		if m.truthy(c) {
			return m.exec(x.Then)
		} else if x.Else != nil {
			return m.exec(x.Else)
		}
	case *While:
		for {
			c, _ := m.eval(x.C)
			if !m.truthy(c) {
				break
			}
			sig := m.execCatch(x.Body)
			if sig == sigBreak {
				break
			}
			if sig != sigNone && sig != sigContinue {
				return sig
			}
		}
	case *For:
		m.eval(x.Pre)
		for {
			c, _ := m.eval(x.C)
			if !m.truthy(c) {
				break
			}
			sig := m.execCatch(x.Body)
			if sig == sigBreak {
				break
			}
			if sig != sigNone && sig != sigContinue {
				return sig
			}
			m.eval(x.Post)
		}
	case *ForIn:
		return m.execForIn(x)
	case *Break:
		m.signals["break"]++
		return sigBreak
	case *Continue:
		m.signals["continue"]++
		return sigContinue
	case *Next:
		m.signals["next"]++
		return sigNext
	case *Exit:
		m.signals["exit"]++
		return sigExit
	default:
		panic("model: unknown stmt")
	}
	return sigNone
}

func (m *Model) execForIn(x *ForIn) signal {
	v1 := m.lookup(x.V)
	var v2 *Slot
	if x.V2 != "" {
		v2 = m.lookup(x.V2)
	}
	it, _ := m.eval(x.It)
	body := func() (signal, bool) {
		sig := m.execCatch(x.Body)
		if sig == sigBreak {
			return sigNone, true
		}
		if sig != sigNone && sig != sigContinue {
			return sig, true
		}
		return sigNone, false
	}
	switch it.K {
	case KArr:
		elems := append([]*Slot(nil), it.A.E...)
		for i, e := range elems {
			if v2 != nil {
				v2.V = mNum(float64(i))
			}
			if e.V.K == KArr {
				e.V.A.shared = true
			}
			v1.V = e.V
			if sig, stop := body(); stop {
				return sig
			}
		}
	case KObj:
		keys := it.O.SortedKeys()
		if len(keys) > 1 {
			m.tag("obj_multikey_iter")
			m.multiKeyPrinted = true // the order of the keys is deterministic but not stated: the trace is compared order-free
		}
		for _, k := range keys {
			s, ok := it.O.M[k]
			if !ok {
				continue
			}
			if v2 != nil {
				if s.V.K == KArr {
					s.V.A.shared = true
				}
				v2.V = s.V
			}
			v1.V = mStr(k)
			if sig, stop := body(); stop {
				return sig
			}
		}
	case KStr:
		s := it.S
		for i := 0; i < len(s); {
			r, w := utf8.DecodeRuneInString(s[i:])
			ch := s[i : i+w]
			if r == utf8.RuneError && w == 1 {
				m.tag("pinned:invalid-utf8-iter")
				ch = "�"
			}
			if v2 != nil {
				v2.V = mNum(float64(i))
			}
			v1.V = mStr(ch)
			if sig, stop := body(); stop {
				return sig
			}
			i += w
		}
	default:
		m.fail(it.K.String() + " is not iterable")
	}
	return sigNone
}

// ---------------------------------------------------------------------------
// rule schedule (§3.7)

type ModelOpts struct {
	Budget     int
	TrackRules bool
}

func RunModel(p *Program, inputs []MInput, selectors []Expr, opts ModelOpts) (out *MOut) {
	budget := opts.Budget
	if budget == 0 {
		budget = 400000
	}
	m := &Model{prog: p, tags: map[string]bool{}, funcs: map[string]*Func{}, budget: budget,
		signals: map[string]int{}, stats: map[string]int{}, trackRules: opts.TrackRules}
	for _, f := range p.Funcs() {
		m.funcs[f.Name] = f // a later definition with the same name replaces the earlier one
	}
	m.frames = []*frame{{vars: map[string]*Slot{}, kind: "root"}}
	out = &MOut{Class: "ok"}
	defer func() {
		if r := recover(); r != nil {
			switch e := r.(type) {
			case rtErr:
				out.Class, out.ErrMsg = "runtime", e.msg
			case budgetErr:
				out.Class = "budget"
			case jsonErr:
				out.Class, out.ErrMsg = "json", e.file
			case ctl:
				// a signal escaped every driver: [P] (e.g. break raised inside a match body)
				m.tag("pinned:signal-escaped")
				out.Class = "ok"
			default:
				panic(r)
			}
		}
		out.Stdout = m.out.String()
		out.Tags = m.tags
		out.MaxDepth = m.maxDepth
		out.Calls = m.calls
		out.Signals = m.signals
		out.Steps = m.steps
		out.RuleSeq = m.ruleSeq
		out.Stats = m.stats
		if m.root != nil {
			v := m.root.V
			out.Root = &v
		}
		if m.multiKeyPrinted {
			out.Tags["objorder"] = true
		}
	}()
	m.runSchedule(inputs, selectors)
	return out
}

type jsonErr struct{ file string }

func (m *Model) ruleEvent(kind string) {
	if m.trackRules {
		m.ruleSeq = append(m.ruleSeq, kind)
	}
}

// runBody runs a non-pattern rule body; returns true if the run must end (exit).
func (m *Model) runBody(kind string, b *Block) bool {
	m.ruleEvent(kind)
	var sig signal
	if b == nil {
		sig = m.execCatch(&Print{})
	} else {
		sig = m.execCatch(b)
	}
	switch sig {
	case sigExit:
		return true
	case sigNext:
		m.tag("pinned:next-outside-pattern-rule")
	case sigNone:
	default:
		m.tag("pinned:signal-escaped")
	}
	return false
}

func (m *Model) runSchedule(inputs []MInput, selectors []Expr) {
	var begin, end, beginFile, endFile, pattern []*Rule
	for _, r := range m.prog.Rules() {
		switch r.Kind {
		case "BEGIN":
			begin = append(begin, r)
		case "END":
			end = append(end, r)
		case "BEGINFILE":
			beginFile = append(beginFile, r)
		case "ENDFILE":
			endFile = append(endFile, r)
		default:
			pattern = append(pattern, r)
		}
	}
	for _, r := range begin {
		m.ruleRoot = &Slot{V: mNull()}
		if m.runBody("BEGIN", r.Body) {
			return
		}
	}
	for _, in := range inputs {
		for _, gv := range in.Values {
			m.frames[0].vars["$file"] = &Slot{V: mStr(in.Name)}
			passes := len(selectors)
			if passes == 0 {
				passes = 1
			}
			for pass := 0; pass < passes; pass++ {
				// each selector in the order given: it is evaluated when its turn comes, after the rules of the one before
				var root *Slot
				if len(selectors) > 0 {
					root = m.evalSelector(selectors[pass], gv)
				} else {
					root = &Slot{V: fromGo(gv)}
				}
				selected := root.V
				m.root = root // the root from here on, also when a BEGINFILE rule exits
				for _, r := range beginFile {
					m.ruleRoot = root
					if m.runBody("BEGINFILE", r.Body) {
						return
					}
				}
				if m.runPattern(pattern, root) {
					return
				}
				for _, r := range endFile {
					if selected.K != root.V.K || selected.A != root.V.A || selected.O != root.V.O {
						m.tag("pinned:endfile-after-reassign")
					}
					m.ruleRoot = &Slot{V: selected}
					if m.runBody("ENDFILE", r.Body) {
						return
					}
				}
			}
		}
		if in.Damaged {
			panic(jsonErr{in.Name})
		}
	}
	for _, r := range end {
		m.ruleRoot = &Slot{V: mNull()}
		if m.runBody("END", r.Body) {
			return
		}
	}
}

// evalSelector evaluates a -r selector on a fresh copy of the value, in its own scope.
func (m *Model) evalSelector(sel Expr, gv any) *Slot {
	sub := &Model{prog: &Program{}, tags: m.tags, funcs: map[string]*Func{}, budget: m.budget,
		signals: m.signals, stats: m.stats}
	sub.steps = m.steps
	sub.frames = []*frame{{vars: map[string]*Slot{}, kind: "root"}}
	root := &Slot{V: fromGo(gv)}
	sub.root, sub.ruleRoot = root, root
	sub.out = strings.Builder{}
	var res *Slot
	func() {
		defer func() {
			m.out.WriteString(sub.out.String())
			m.steps = sub.steps
			if sub.multiKeyPrinted {
				m.multiKeyPrinted = true
			}
			if r := recover(); r != nil {
				if c, ok := r.(ctl); ok {
					m.tag("pinned:signal-in-selector")
					if c.sig == sigExit {
						panic(ctl{sigExit})
					}
					m.fail("signal in selector")
				}
				panic(r)
			}
		}()
		// a selector that denotes a location selects that location; a missing member is null
		if isLocation(sel) {
			v, _ := sub.eval(sel)
			res = &Slot{V: v}
			if v.K == KNull {
				res.absent = false
			}
		} else {
			v, _ := sub.eval(sel)
			res = &Slot{V: v}
		}
	}()
	if res.V.K == KFunc || res.V.K == KNative || res.V.K == KUnset {
		m.tag("pinned:selector-kind")
	}
	return res
}

func (m *Model) runPattern(rules []*Rule, root *Slot) (exit bool) {
	runOne := func() bool {
		for _, r := range rules {
			m.ruleEvent("pattern")
			if r.Pattern != nil {
				var pv Val
				sig := m.catchExpr(func() { pv, _ = m.eval(r.Pattern) })
				if sig == sigExit {
					return true
				}
				if sig == sigNext {
					return false // next abandons the remaining rules for this element, wherever it is executed
				}
				if sig != sigNone {
					m.tag("pinned:signal-escaped")
					return false
				}
				if !m.truthy(pv) {
					continue
				}
			}
			var sig signal
			if r.Body == nil {
				sig = m.execCatch(&Print{})
			} else {
				sig = m.execCatch(r.Body)
			}
			switch sig {
			case sigExit:
				return true
			case sigNext:
				return false
			case sigNone:
			default:
				m.tag("pinned:signal-escaped")
				return false
			}
		}
		return false
	}
	if root.V.K == KArr {
		elems := append([]*Slot(nil), root.V.A.E...)
		for i, e := range elems {
			m.ruleRoot = e
			m.indexPinned = false
			m.frames[0].vars["$index"] = &Slot{V: mNum(float64(i))}
			if runOne() {
				return true
			}
		}
		return false
	}
	m.indexPinned = true
	m.ruleRoot = root
	return runOne()
}

func (m *Model) catchExpr(f func()) (sig signal) {
	defer func() {
		if r := recover(); r != nil {
			if c, ok := r.(ctl); ok {
				sig = c.sig
				return
			}
			panic(r)
		}
	}()
	f()
	return sigNone
}
