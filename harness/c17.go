package main

// C17 — print renders every value in one well-defined, terminating, re-readable format.
// Shares the cyclic-shape table with C04.

import (
	"fmt"
	"math"
	"math/rand/v2"
	"strconv"
	"strings"
)

// cyclic / shared shapes built by programs; each entry builds value `v` in BEGIN.
type shapeDef struct {
	name   string
	build  []Stmt
	cyclic bool
}

func asg(l, r Expr) Stmt { return ES(Asg(l, r)) }

func obj1(k string, v Expr) *ObjectLit {
	return &ObjectLit{Keys: []string{k}, Quoted: []bool{false}, Vals: []Expr{v}}
}

func shapeTable() []shapeDef {
	a, b, c, o, p, q, v, x := V("a"), V("b"), V("c"), V("o"), V("p"), V("q"), V("v"), V("x")
	i0 := N("0")
	return []shapeDef{
		{"array-self", []Stmt{asg(v, Arr(N("1"), N("0"))), asg(Idx(v, N("1")), v)}, true},
		{"object-self", []Stmt{asg(v, obj1("n", N("1"))), asg(Mem(v, "self"), v)}, true},
		{"array-2cycle", []Stmt{asg(a, Arr(i0)), asg(v, Arr(a, N("2"))), asg(Idx(a, i0), v)}, true},
		{"object-2cycle", []Stmt{asg(o, &ObjectLit{}), asg(v, obj1("child", o)), asg(Mem(o, "parent"), v)}, true},
		{"mixed-2cycle-array-in-object", []Stmt{asg(a, Arr(i0)), asg(v, obj1("list", a)), asg(Idx(a, i0), v)}, true},
		{"mixed-2cycle-object-in-array", []Stmt{asg(o, &ObjectLit{}), asg(v, Arr(o)), asg(Mem(o, "up"), v)}, true},
		{"array-3cycle", []Stmt{asg(a, Arr(i0)), asg(b, Arr(a)), asg(v, Arr(b)), asg(Idx(a, i0), v)}, true},
		{"object-3cycle", []Stmt{asg(o, &ObjectLit{}), asg(p, obj1("o", o)), asg(v, obj1("p", p)), asg(Mem(o, "v"), v)}, true},
		{"mixed-3cycle", []Stmt{asg(a, Arr(i0)), asg(o, obj1("a", a)), asg(v, Arr(o, S("t"))), asg(Idx(a, i0), v)}, true},
		{"mixed-4cycle", []Stmt{asg(a, Arr(i0)), asg(o, obj1("a", a)), asg(b, Arr(o)), asg(v, obj1("b", b)), asg(Idx(a, i0), v)}, true},
		{"cycle-below-acyclic-prefix", []Stmt{asg(o, obj1("n", N("1"))), asg(Mem(o, "self"), o), asg(v, Arr(N("1"), obj1("deep", Arr(o))))}, true},
		{"cycle-below-shared-acyclic-part", []Stmt{asg(x, Arr(N("5"))), asg(o, obj1("x", x)), asg(Mem(o, "me"), o), asg(v, Arr(x, o, x))}, true},
		{"two-distinct-cycles", []Stmt{asg(a, Arr(i0)), asg(Idx(a, i0), a), asg(o, &ObjectLit{}), asg(Mem(o, "o"), o), asg(v, Arr(a, o))}, true},
		{"inner-cycle-not-through-root", []Stmt{asg(a, Arr(i0)), asg(b, Arr(a)), asg(Idx(a, i0), b), asg(v, obj1("k", Arr(N("1"), b)))}, true},
		{"self-twice", []Stmt{asg(v, Arr(i0, i0)), asg(Idx(v, i0), v), asg(Idx(v, N("1")), v)}, true},
		{"2cycle-both-members-listed", []Stmt{asg(x, &ObjectLit{}), asg(a, &ObjectLit{}), asg(Mem(x, "a"), a), asg(Mem(a, "x"), x), asg(v, Arr(x, a))}, true},
		{"2cycle-both-members-listed-other-order", []Stmt{asg(x, &ObjectLit{}), asg(a, &ObjectLit{}), asg(Mem(x, "a"), a), asg(Mem(a, "x"), x), asg(v, Arr(a, x, a))}, true},
		{"3cycle-all-members-listed", []Stmt{asg(a, Arr(i0)), asg(b, Arr(a)), asg(c, Arr(b)), asg(Idx(a, i0), c), asg(v, Arr(a, b, c))}, true},
		{"2cycle-members-at-different-depths", []Stmt{asg(x, &ObjectLit{}), asg(a, Arr(i0)), asg(Mem(x, "a"), a), asg(Idx(a, i0), x), asg(v, Arr(x, Arr(a), obj1("k", x), a))}, true},
		{"2cycle-members-as-object-values", []Stmt{asg(x, &ObjectLit{}), asg(a, &ObjectLit{}), asg(Mem(x, "a"), a), asg(Mem(a, "x"), x), asg(v, &ObjectLit{Keys: []string{"p", "q", "r"}, Quoted: []bool{false, false, false}, Vals: []Expr{x, a, x}})}, true},
		{"mixed-3cycle-entered-at-every-member", []Stmt{asg(a, Arr(i0)), asg(o, obj1("a", a)), asg(b, Arr(o)), asg(Idx(a, i0), b), asg(v, Arr(o, b, a, o))}, true},
		{"shared-array-twice", []Stmt{asg(x, Arr(N("1"))), asg(v, Arr(x, x))}, false},
		{"shared-object-twice", []Stmt{asg(x, obj1("k", N("1"))), asg(v, &ObjectLit{Keys: []string{"p", "q"}, Quoted: []bool{false, false}, Vals: []Expr{x, x}})}, false},
		{"diamond", []Stmt{asg(x, Arr(N("9"))), asg(p, obj1("x", x)), asg(q, Arr(x)), asg(v, Arr(p, q))}, false},
		{"shared-at-two-depths", []Stmt{asg(x, Arr(N("1"))), asg(v, Arr(x, Arr(x, Arr(x))))}, false},
		{"equal-but-distinct", []Stmt{asg(v, Arr(Arr(N("1")), Arr(N("1")), obj1("k", Arr(N("1")))))}, false},
		{"shared-empty-containers", []Stmt{asg(x, Arr()), asg(o, &ObjectLit{}), asg(v, Arr(x, x, o, o))}, false},
		{"shared-inside-object-values", []Stmt{asg(c, obj1("z", N("0"))), asg(v, &ObjectLit{Keys: []string{"a", "b"}, Quoted: []bool{false, false}, Vals: []Expr{Arr(c), Arr(c, c)}})}, false},
	}
}

func c17Shapes(c *Case) {
	c17Fresh(c)
	for _, sh := range shapeTable() {
		body := append(append([]Stmt{}, sh.build...), Pr(V("v")), Pr(S("two"), V("v"), V("v")), ES(CallE(V("printf"), S("%v|\n"), V("v"))))
		p := &Program{Items: []any{&Rule{Kind: "BEGIN", Body: &Block{Stmts: body}}}}
		c.NonTrivial("shape:" + sh.name)
		c.Count("shapes")
		r := m2(c, &M2Case{Prog: p, Desc: "print of shape " + sh.name, Budget: 100000})
		if r.Lib != nil && r.Lib.Class == "ok" {
			has := strings.Contains(string(r.Lib.Stdout), "<circular reference>")
			if has != sh.cyclic {
				c.Violation(fmt.Sprintf("shape %s: cyclic=%v but rendering %q", sh.name, sh.cyclic, clip(string(r.Lib.Stdout), 100)), nil, map[string]any{"program": Canon(p)})
			} else {
				c.Held()
			}
		}
	}
}

// print shows the value as it is NOW: bare print / body-less rules around changes made through methods only, and
// prints whose arguments call functions that print themselves
func c17Fresh(c *Case) {
	d := V("$")
	run := func(name string, p *Program, doc string) {
		c.NonTrivial("fresh:" + name)
		c.Count("print_after_method_only_changes")
		m2(c, &M2Case{Prog: p, Files: []InFile{{Name: "in.json", Data: []byte(doc)}}, Desc: "print after changes made through methods only: " + name})
	}
	for _, meth := range []string{"push", "pop", "popfirst"} {
		call := func(x Expr) Stmt {
			if meth == "push" {
				return ES(Meth(x, meth, N("9")))
			}
			return ES(Meth(x, meth))
		}
		// $ is an array element / an object with an array member
		run("element/"+meth, &Program{Items: []any{&Rule{Kind: "pattern", Body: Blk(Pr(), call(d), Pr(), call(d), Pr(), Pr(d))}}}, "[[1, 2], [3], []]")
		run("member/"+meth, &Program{Items: []any{&Rule{Kind: "pattern", Body: Blk(Pr(), call(Mem(d, "q")), Pr(), Pr(S("explicit"), d), call(Mem(d, "q")), Pr())}}}, `{"n": 1, "q": ["a", "b", "c"]}`)
		// body-less rules whose patterns change the value through a method
		cond := Bin("!=", Meth(Mem(d, "q"), meth), S("zz"))
		if meth == "push" {
			cond = Bin("!=", Meth(Mem(d, "q"), meth, S("x")), S("zz"))
		}
		// (a rule with a body comes first: a body-less pattern directly followed by `{` would take that block as its body)
		run("bodyless/"+meth, &Program{Items: []any{&Rule{Kind: "pattern", Body: Blk(Pr())}, &Rule{Kind: "pattern", Pattern: Bin("==", Mem(d, "n"), N("1"))}, &Rule{Kind: "pattern", Pattern: cond}, &Rule{Kind: "pattern", Pattern: &BoolLit{V: true}},
			&Rule{Kind: "END", Body: Blk(Pr(S("end")))}}}, `{"n": 1, "q": ["a", "b", "c"]}`)
		// through a function and through a second name
		fn := &Func{Name: "change", Params: []string{"t"}, Body: Blk(call(V("t")))}
		run("function/"+meth, &Program{Items: []any{fn, &Rule{Kind: "pattern", Body: Blk(Pr(), ES(CallE(V("change"), Mem(d, "q"))), Pr(), asg(V("al"), Mem(d, "q")), call(V("al")), Pr())}}}, `{"q": [1, 2, 3]}`)
	}
	// a print executed while a -r selector is evaluated (through a match block) shows up like any other
	selp := &Program{Items: []any{&Rule{Kind: "BEGIN", Body: Blk(Pr(S("begin")))}, &Rule{Kind: "pattern", Body: Blk(Pr(S("root"), d))}, &Rule{Kind: "END", Body: Blk(Pr(S("end")))}}}
	for si, sel := range []Expr{
		&MatchExpr{Subj: d, Cases: []*MatchCase{{Pats: []Expr{V("v")}, Block: Blk(Pr(S("selecting from"), V("v")))}}},
		Arr(&MatchExpr{Subj: Mem(d, "a"), Cases: []*MatchCase{{Pats: []Expr{V("v")}, Block: Blk(Pr(V("v"), V("v")), Pr())}}}, Mem(d, "b")),
		Idx(Arr(CallE(V("printf"), S("%v|%5s|\\n"), d, S("x")), Mem(d, "a")), N("1")),
	} {
		c.NonTrivial(fmt.Sprintf("fresh:selector-print-%d", si))
		c.Count("print_after_method_only_changes")
		m2(c, &M2Case{Prog: selp, Files: []InFile{{Name: "in.json", Data: []byte(`{"a": [1, 2.5, "x"], "b": {}}` + "\n" + `{"a": [], "b": {"k": null}}`)}}, Selectors: []Expr{sel}, Desc: "print inside a -r selector"})
	}
	// arguments that print
	note := &Func{Name: "note", Params: []string{"v"}, Body: Blk(Pr(S("visit"), Bin("*", V("v"), N("2")), Arr(V("v"))), &Return{X: V("v")})}
	run("arguments-that-print", &Program{Items: []any{note, &Rule{Kind: "BEGIN", Body: Blk(Pr(S("warm"), S("up"), Arr(N("1"), N("2"), N("3")), S("a long first line to size any buffer")),
		Pr(S("total"), CallE(V("note"), N("21")), Arr(N("1"), S("two"))), Pr(CallE(V("note"), N("1")), CallE(V("note"), N("2")), S("end")),
		Pr(S("x"), Arr(CallE(V("note"), N("3"))), obj1("k", CallE(V("note"), N("4")))))},
		&Rule{Kind: "pattern", Body: Blk(Pr(S("elem"), d, CallE(V("note"), d), d))}}}, "[5, 6]")
}

func randAnyDouble(rng *rand.Rand) float64 {
	switch rng.IntN(10) {
	case 0:
		for {
			f := math.Float64frombits(rng.Uint64())
			if !math.IsInf(f, 0) && !math.IsNaN(f) {
				return f
			}
		}
	case 1:
		return math.Ldexp(1, rng.IntN(2046)-1022)
	case 2:
		return math.Pow(10, float64(rng.IntN(600)-300))
	case 3:
		return float64(int64(1)<<53) + float64(rng.IntN(9)-4)
	case 4:
		return math.Float64frombits(uint64(rng.IntN(1000) + 1)) // subnormals
	case 5:
		return []float64{0, math.Copysign(0, -1), math.MaxFloat64, -math.MaxFloat64, math.SmallestNonzeroFloat64, 0.1, 0.2 + 0.1, 1e21, 1e-7, 123456789012345680000}[rng.IntN(10)]
	case 6:
		return -randDouble(rng)
	}
	return randDouble(rng)
}

var c17Strs = []string{"a\x7fb", "\U000e0001", "\u0085x", "\u00a0", "\u200b\ufeff", "%", "100%", "%d items %s", "50%% off", "", " ", "plain", "with space", "non-ascii é 日本", "tab\there", "brackets [1, 2]", "braces {k: v}", "comma, colon: x", "<circular reference>", "null", "12"}

func (g *c17Gen) value(depth int) any {
	k := g.rng.IntN(12)
	if depth <= 0 && k >= 7 {
		k = g.rng.IntN(7)
	}
	switch {
	case k < 3:
		return randAnyDouble(g.rng)
	case k < 4:
		return c17Strs[g.rng.IntN(len(c17Strs))]
	case k < 5:
		return g.rng.IntN(2) == 0
	case k < 6:
		return nil
	case k < 7:
		if g.rng.IntN(2) == 0 {
			return []any{}
		}
		return map[string]any{}
	case k < 10:
		n := g.rng.IntN(5)
		arr := make([]any, 0, n)
		for i := 0; i < n; i++ {
			arr = append(arr, g.value(depth-1))
		}
		return arr
	}
	o := map[string]any{}
	for i := g.rng.IntN(4); i > 0; i-- {
		o[[]string{"a", "b", "k", "key with space", "é"}[g.rng.IntN(5)]] = g.value(depth - 1)
	}
	return o
}

type c17Gen struct{ rng *rand.Rand }

// plainStrings: no string in v needs escaping in JSON, so the rendering of a container must be JSON equal to v.
func plainStrings(v any) bool {
	switch x := v.(type) {
	case string:
		for _, r := range x {
			if r < 0x20 || r == '"' || r == '\\' {
				return false
			}
		}
	case []any:
		for _, e := range x {
			if !plainStrings(e) {
				return false
			}
		}
	case map[string]any:
		for k, e := range x {
			if !plainStrings(k) || !plainStrings(e) {
				return false
			}
		}
	}
	return true
}

func depthOf(v any) int {
	d := 0
	switch x := v.(type) {
	case []any:
		for _, e := range x {
			if k := depthOf(e); k > d {
				d = k
			}
		}
		return d + 1
	case map[string]any:
		for _, e := range x {
			if k := depthOf(e); k > d {
				d = k
			}
		}
		return d + 1
	}
	return 0
}

func c17Values(c *Case) {
	g := &c17Gen{rng: c.Rng}
	var vals []any
	n := 3 + c.Rng.IntN(6)
	for i := 0; i < n; i++ {
		switch c.Rng.IntN(8) {
		case 0: // deep chain
			var v any = randAnyDouble(c.Rng)
			for d := 5 + c.Rng.IntN(26); d > 0; d-- {
				if c.Rng.IntN(2) == 0 {
					v = []any{v}
				} else {
					v = map[string]any{"d": v}
				}
			}
			vals = append(vals, v)
		case 1: // wide
			w := make([]any, 0, 50)
			for k := 10 + c.Rng.IntN(41); k > 0; k-- {
				w = append(w, g.value(0))
			}
			vals = append(vals, w)
		default:
			vals = append(vals, g.value(1+c.Rng.IntN(4)))
		}
	}
	// program: a rule without a body, a bare print, print with several arguments
	var p *Program
	form := []int{0, 0, 1, 1, 2, 2, 3, 4, 5, 6}[c.Rng.IntN(10)]
	switch form {
	case 0:
		p = &Program{Items: []any{&Rule{Kind: "pattern", Pattern: &BoolLit{V: true}}}} // body-less rule prints $
	case 1:
		p = &Program{Items: []any{&Rule{Kind: "pattern", Body: Blk(Pr())}}}
	case 2:
		p = &Program{Items: []any{&Rule{Kind: "pattern", Body: Blk(Pr(V("$")))}}}
	case 3:
		p = &Program{Items: []any{&Rule{Kind: "pattern", Body: Blk(Pr(V("$index"), V("$"), S("sep"), Arr(V("$")), N("1")))}}}
	case 4:
		p = &Program{Items: []any{&Rule{Kind: "pattern", Body: Blk(Pr(V("$"), V("$index"), V("$")))}}}
	case 5:
		p = &Program{Items: []any{&Rule{Kind: "pattern", Body: Blk(Pr(S(""), V("$"), S(""), S(""), V("$index"), S("")))}}}
	default:
		p = &Program{Items: []any{&Rule{Kind: "pattern", Body: Blk(Pr(V("$"), V("$"), Arr(V("$"), V("$"))), Pr(S(""), S("")), Pr(S(" ")), Pr(S("")))}}}
	}
	data := jsonBytes(vals)
	files := []InFile{{Name: "in.json", Data: data}}
	r := m2(c, &M2Case{Prog: p, Files: files, Desc: "print of document values"})
	c.Count(fmt.Sprintf("print_form:%d", form))
	if r.Lib == nil || r.Lib.Class != "ok" {
		return
	}
	// laws on the output itself (forms 0-2: one line per element)
	if form <= 2 {
		lines := strings.Split(strings.TrimSuffix(string(r.Lib.Stdout), "\n"), "\n")
		if len(lines) != len(vals) {
			// strings with newlines split lines; skip the per-line laws then
			return
		}
		for i, v := range vals {
			line := lines[i]
			switch x := v.(type) {
			case float64:
				c.Count("numbers_rendered")
				if strings.ContainsAny(line, "eE") {
					c.Violation(fmt.Sprintf("number %v rendered with an exponent: %s", x, line), nil, nil)
					continue
				}
				back, err := strconv.ParseFloat(line, 64)
				if err != nil || math.Float64bits(back) != math.Float64bits(x) {
					c.Violation(fmt.Sprintf("number with bits %016x rendered as %s, which reads back as %v", math.Float64bits(x), clip(line, 60), back), nil, map[string]any{"input": string(data)})
					continue
				}
				if len(line) > 17 || math.Abs(x) >= 1e21 || (x != 0 && math.Abs(x) < 1e-6) {
					c.NonTrivial("num:" + line)
				}
				c.Held()
			case []any, map[string]any:
				c.Count("containers_rendered")
				c.Max("max_depth_rendered", depthOf(v))
				if !plainStrings(v) {
					continue
				}
				got, n, err := decodeOne([]byte(line))
				if err != nil || n != len(line) || !jsonEqual(v, got) {
					c.Violation(fmt.Sprintf("rendering of a container without strings needing escapes is not JSON equal to the value: %s", clip(line, 120)), nil, map[string]any{"input": string(data)})
					continue
				}
				if depthOf(v) >= 3 {
					c.NonTrivial("cont:" + line)
				}
				c.Held()
			}
		}
	}
	if c.Idx%1000 == 3 {
		c.Sample(map[string]any{"program": Canon(p), "input": clip(string(data), 300)})
	}
}

// numbers produced by arithmetic (not only read from the document)
func c17Arith(c *Case) {
	rng := c.Rng
	var stm []Stmt
	for i := 0; i < 20; i++ {
		a, b := numOpnd(randDouble(rng)), numOpnd(randDouble(rng))
		op := []string{"+", "-", "*", "/"}[rng.IntN(4)]
		stm = append(stm, Pr(Bin(op, a.lit(), b.lit())))
	}
	p := &Program{Items: []any{&Rule{Kind: "BEGIN", Body: &Block{Stmts: stm}}}}
	c.Count("arithmetic_batches")
	m2(c, &M2Case{Prog: p, Desc: "print of arithmetic results"})
}

func c17Cases(tier string) int {
	if tier == "thorough" {
		return 1 + 2000000
	}
	return 1 + 40000
}

func init() {
	register(&Prop{
		ID: "C17", Level: "exploration",
		Rule:     "enumerated: 28 shapes built by programs (cycles of length 1-4 through arrays / objects / mixtures, cycles below acyclic and shared prefixes, two cycles, cycles of length 2-3 whose members are each reachable from the printed value by their own route, and 7 shared-but-acyclic shapes that must be printed in full), each printed by print, by a two-argument print and by printf %v; 13 programs that print, change the value through push / pop / popfirst only (directly, through a function, through a second name, inside the pattern of a body-less rule) and print again, and prints whose arguments call functions that print; sampled: documents of 3-8 values (doubles from every class incl. random bit patterns, powers of 2 and 10, 2^53+-k, subnormals, +-0; strings; empty containers; nesting to depth 30, width to 50) printed by a body-less rule, bare print, print $, and prints of 3-6 arguments with the value first / in the middle / between empty strings, compared with the reference rendering; laws on the output alone: no exponent, ParseFloat gives back the identical bits, container renderings whose strings need no escaping parse as JSON equal to the value. Non-trivial = number needing > 17 characters or |x| >= 1e21 or < 1e-6, container of depth >= 3, any shape.",
		NumCases: c17Cases,
		Run: func(c *Case) {
			switch {
			case c.Idx == 0:
				c17Shapes(c)
				round8Hand(c, "C17")
			case c.Idx%10 == 1:
				c17Arith(c)
			default:
				c17Values(c)
			}
		},
		MinConclusive: func(tier string) int { return 5000 },
		Exhaustive:    func(tier string) string { return "table of 28 cyclic / shared shapes" },
		Assumptions:   []string{"rendering rules of DESIGN.md section 3.11; object key order is not compared", "strconv.ParseFloat is the arbiter of 'reads back as the identical double'"},
	})
}
