package main

// C18 — printf emits exactly the format, each directive replaced and padded to its width.

import (
	"fmt"
	"math/rand/v2"
	"strconv"
	"strings"
)

type pfArg struct {
	kind string
	lit  Expr
	rend string // rendering by %v / print at top level (for the implementation-only law)
}

var pfArgs = []pfArg{
	{"string", S("12.50"), "12.50"}, {"string", S("7"), "7"}, {"string", S("-3"), "-3"}, {"string", S("日本橋"), "日本橋"}, {"string", S("ééé"), "ééé"},
	{"string", S("ab"), "ab"}, {"string", S(""), ""}, {"string", S("héllo"), "héllo"}, {"string", S("a longer string"), "a longer string"},
	{"number", N("7"), "7"}, {"number", N("3.25"), "3.25"}, {"number", &Unary{Op: "-", X: N("12.5")}, "-12.5"}, {"number", N("1000000"), "1000000"},
	{"bool", &BoolLit{V: true}, "true"}, {"null", &NullLit{}, "null"},
	{"array", Arr(N("1"), S("x")), "[1, \"x\"]"}, {"object", obj1("k", N("1")), "{\"k\": 1}"}, {"array", Arr(), "[]"},
}

type pfGen struct {
	rng   *rand.Rand
	stats map[string]int
}

func (g *pfGen) width(rendLen int) string {
	switch g.rng.IntN(16) {
	case 0, 1, 2:
		return ""
	case 3:
		return "1"
	case 4:
		return strconv.Itoa(max(rendLen-1, 0))
	case 5:
		return strconv.Itoa(rendLen)
	case 6:
		return strconv.Itoa(rendLen + 1)
	case 7:
		return "10"
	case 8:
		return "-" + strconv.Itoa(rendLen+3)
	case 9:
		return "-10"
	case 10:
		return "0" + strconv.Itoa(rendLen+2)
	case 11:
		return "08"
	case 12:
		return []string{"4096", "-4096", "65536", "-65536"}[g.rng.IntN(4)]
	case 13:
		g.stats["width-beyond-limit"]++
		return []string{"65537", "-65537", "1000000000000", "99999999999999999999999999", "-70000", "9999999999999999999", "18446744073709551621", "-9223372036854775809", "4294967301", "18446744073709617152"}[g.rng.IntN(10)]
	case 14:
		return "0"
	}
	return strconv.Itoa(1 + g.rng.IntN(20))
}

func max(a, b int) int {
	if a > b {
		return a
	}
	return b
}

var pfLiterals = []string{"\\\\n", "\\\\t", "\\\\\\\\", "C:\\\\dir\\\\", "\\\\%", "", "x", "a b", "é日", "=", ": ", "100", "\\n", "\\t", "[", "-", "0"}

// gen builds a format (as raw literal text) and its argument list.
func (g *pfGen) gen() (string, []Expr, bool) {
	var sb strings.Builder
	var args []Expr
	interesting := false
	n := 1 + g.rng.IntN(5)
	for i := 0; i < n; i++ {
		sb.WriteString(pfLiterals[g.rng.IntN(len(pfLiterals))])
		switch k := g.rng.IntN(20); {
		case k < 13:
			a := pfArgs[g.rng.IntN(len(pfArgs))]
			code := "v"
			if a.kind == "string" && g.rng.IntN(3) > 0 {
				code = "s"
			} else if a.kind == "number" && g.rng.IntN(3) > 0 {
				code = "f"
			} else if g.rng.IntN(10) == 0 {
				code = []string{"s", "f"}[g.rng.IntN(2)] // possibly wrong kind
				g.stats["maybe-wrong-kind"]++
			}
			w := g.width(len(a.rend))
			if w != "" {
				interesting = true
			}
			sb.WriteString("%" + w + code)
			g.stats["directive:%"+code]++
			if g.rng.IntN(15) > 0 {
				args = append(args, a.lit)
			} else {
				g.stats["missing-argument"]++
				interesting = true
			}
		case k < 15:
			sb.WriteString("%%")
			g.stats["directive:%%"]++
		case k < 16:
			sb.WriteString("%" + []string{"d", "x", "q", "5z", "S", " ", "."}[g.rng.IntN(7)])
			g.stats["unknown-code"]++
			interesting = true
		case k < 17 && i == n-1:
			sb.WriteString([]string{"%", "%5", "%-", "%-3", "%08"}[g.rng.IntN(5)])
			g.stats["dangling"]++
			interesting = true
		}
	}
	sb.WriteString(pfLiterals[g.rng.IntN(len(pfLiterals))])
	if g.rng.IntN(8) == 0 {
		args = append(args, S("surplus"))
		g.stats["surplus-argument"]++
	}
	return sb.String(), args, interesting
}

func c18Random(c *Case) {
	g := &pfGen{rng: c.Rng, stats: map[string]int{}}
	f, args, interesting := g.gen()
	call := CallE(V("printf"), append([]Expr{S(f)}, args...)...)
	p := &Program{Items: []any{&Rule{Kind: "BEGIN", Body: Blk(ES(CallE(V("printf"), S("<"))), ES(call), ES(CallE(V("printf"), S(">\\n"))), Pr(S("after")))}}}
	m2(c, &M2Case{Prog: p, Desc: "printf " + f})
	if c.Idx%10 == 3 {
		// the same printf run while a -r selector is evaluated: its output appears like any other
		sp := &Program{Items: []any{&Rule{Kind: "BEGIN", Body: Blk(Pr(S("begin")))}, &Rule{Kind: "pattern", Body: Blk(Pr(S("root"), V("$")))}}}
		m2(c, &M2Case{Prog: sp, Files: []InFile{{Name: "in.json", Data: []byte(`{"items": [1, 2]}`)}}, Selectors: []Expr{Idx(Arr(call, Mem(V("$"), "items")), N("1"))}, Desc: "printf inside a -r selector: " + f})
		c.Count("printf_inside_a_selector")
	}
	for k, v := range g.stats {
		c.CountN("generated:"+k, v)
	}
	if interesting {
		c.NonTrivial(Canon(p))
	}
	if c.Idx%4000 == 11 {
		c.Sample(map[string]any{"program": Canon(p)})
	}
}

// law on the implementation alone: one directive, field length = max(|width|, len(rendering)), rendering at the right end
func c18Matrix(c *Case) {
	widths := []int{0, 1, 2, 3, 4, 5, 7, 8, 10, 15, 40, 64, 66, 69, 71, 128, 131, 133, 4096, 65536}
	for _, a := range pfArgs {
		for _, code := range []string{"s", "f", "v"} {
			okKind := code == "v" || (code == "s" && a.kind == "string") || (code == "f" && a.kind == "number")
			for _, w := range widths {
				for _, style := range []string{"", "-", "0"} {
					if w == 0 && style != "" {
						continue
					}
					ws := ""
					if w > 0 || style == "0" {
						ws = style + strconv.Itoa(w)
					}
					prog := fmt.Sprintf("BEGIN { printf('[%%%s%s]', %s); print 'ok' }", ws, code, CanonExpr(a.lit))
					lib := RunLib(prog, nil, nil, RunOpts{})
					c.Count("matrix:" + code + "/" + a.kind)
					c.NonTrivial("mx:" + prog)
					if !okKind {
						if lib.Class == "runtime" && len(lib.Stdout) == 0 {
							c.Held()
						} else {
							c.Violation(fmt.Sprintf("%%%s with a %s argument must be a runtime error writing nothing; got %s %q", code, a.kind, lib.Class, clip(string(lib.Stdout), 40)), nil, map[string]any{"program": prog})
						}
						continue
					}
					out := string(lib.Stdout)
					if lib.Class != "ok" || !strings.HasPrefix(out, "[") || !strings.HasSuffix(out, "]ok\n") {
						c.Violation(fmt.Sprintf("printf failed: %s (%s) %q | %s", lib.Class, lib.Msg, clip(out, 40), prog), nil, map[string]any{"program": prog})
						continue
					}
					field := out[1 : len(out)-4]
					want := max(w, len(a.rend))
					bad := ""
					switch {
					case len(field) != want:
						bad = fmt.Sprintf("field has %d bytes, want max(width, rendering) = %d", len(field), want)
					case style == "-" && !strings.HasPrefix(field, a.rend):
						bad = "negative width must pad on the right"
					case style != "-" && !strings.HasSuffix(field, a.rend):
						bad = "positive width must pad on the left"
					case style == "0" && strings.TrimLeft(field[:len(field)-len(a.rend)], "0") != "":
						bad = "leading-0 width must pad with zeros"
					case style != "0" && strings.TrimSpace(strings.Replace(field, a.rend, "", 1)) != "" && !strings.Contains(a.rend, " "):
						bad = "padding must be spaces"
					}
					if bad != "" {
						c.Violation(fmt.Sprintf("%s: %s (field %q)", prog, bad, clip(field, 50)), nil, map[string]any{"program": prog})
					} else {
						c.Held()
					}
				}
			}
		}
	}
	// error forms: nothing of the printf is written, earlier output is kept
	for _, f := range []string{"abc %", "abc %5", "x%-", "%s %d", "%q", "%*s", "%-*s", "%*f", "%.2f", "%5.1f", "%+5s", "% 5s", "%#v", "%65537s", "%-65537s", "%99999999999999999999s", "%18446744073709551621s", "%9999999999999999999s", "%4294967301s", "%s %s", "lit %f", "%5"} {
		prog := fmt.Sprintf("BEGIN { printf('before|'); printf('%s', 'a'); print 'unreachable' }", f)
		lib := RunLib(prog, nil, nil, RunOpts{})
		c.NonTrivial("err:" + f)
		c.Count("matrix:error-forms")
		if lib.Class == "runtime" && string(lib.Stdout) == "before|" {
			c.Held()
		} else {
			c.Violation(fmt.Sprintf("printf('%s', 'a') must be a runtime error writing nothing of that printf; got %s %q", f, lib.Class, clip(string(lib.Stdout), 60)), nil, map[string]any{"program": prog})
		}
	}
	for _, pr := range []string{"printf()", "printf(5)", "printf(null, 'a')", "printf(['%s'], 'a')"} {
		prog := "BEGIN { printf('before|'); " + pr + "; print 'unreachable' }"
		lib := RunLib(prog, nil, nil, RunOpts{})
		c.NonTrivial("err:" + pr)
		if lib.Class == "runtime" && string(lib.Stdout) == "before|" {
			c.Held()
		} else {
			c.Violation(fmt.Sprintf("%s must be a runtime error; got %s %q", pr, lib.Class, clip(string(lib.Stdout), 60)), nil, map[string]any{"program": prog})
		}
	}
}

func c18Cases(tier string) int {
	if tier == "thorough" {
		return 1 + 3000000
	}
	return 1 + 60000
}

func init() {
	register(&Prop{
		ID: "C18", Level: "exploration",
		Rule:     "enumerated: directive (%s %f %v) x 18 arguments of every kind x 20 widths (0..65536) x {right-aligned, left-aligned, zero-padded}: field length = max(|width|, rendering length) with the rendering at the correct end, wrong-kind arguments are runtime errors that write nothing (law on the implementation alone); 15 error forms (dangling %, dangling width, lone -, unknown codes, width beyond the limit, missing argument, non-string format) after earlier output; sampled: format strings from a grammar (literal runs incl. multi-byte and escapes, 1-5 directives with widths of either sign / leading zero / at the rendering length +-1 / beyond the limit, %%, unknown codes, dangling forms) with exact / too few / too many arguments, wrapped between two other printfs, compared byte for byte with the reference formatter. Non-trivial = a directive with a width, or an error case; distinct by program.",
		NumCases: c18Cases,
		Run: func(c *Case) {
			if c.Idx == 0 {
				c18Matrix(c)
				round8Hand(c, "C18")
			} else {
				c18Random(c)
			}
		},
		MinConclusive: func(tier string) int { return 5000 },
		Exhaustive: func(tier string) string {
			return "directive x argument x width x alignment matrix and the error-form list"
		},
		Assumptions: []string{"printf rules of DESIGN.md section 3.12; a width on %% and widths written -0... are [P]"},
	})
}
