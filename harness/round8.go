package main

// Hand-computed programs added after the eighth round of seeded changes. Each row is a program whose
// outcome and standard output follow from the property statements alone; the rows of a property run as
// part of that property's first (enumerated) case. The expected outputs were written down from the
// statements and then confirmed on the unchanged tree.

import (
	"fmt"
	"strings"
)

type handRow struct {
	prog  string
	in    string
	class string // expected outcome class; "" = any of the reported kinds (ok, syntax, runtime, json)
	want  string // expected stdout; "\x00any" = not compared
	bud   int
}

const handAny = "\x00any"

func nestArr(n int) string { return strings.Repeat("[", n) + strings.Repeat("]", n) + "\n" }
func nestObj(n int) string {
	return strings.Repeat(`{"k": `, n) + "{}" + strings.Repeat("}", n) + "\n"
}

func round8Rows(pid string) []handRow {
	switch pid {
	case "C01":
		// regex literals used as match patterns, with texts that are no valid RE2 (whatever they mean, never a crash)
		var rows []handRow
		for _, re := range []string{"(", "+", "[z-a]", "a{2,1}", "*a", "a\\"} {
			rows = append(rows,
				handRow{prog: "BEGIN { print match ('abc') { /" + re + "/ => 1, _ => 2 } }", want: handAny},
				handRow{prog: "BEGIN { print match (['abc', 1]) { [/" + re + "/, 1] => 1, _ => 2 } }", want: handAny},
				handRow{prog: "{ print match ($) { /" + re + "/ => 'r', 'x' => 's', n => n } }", in: `"abc" 1 null [1] "x"`, want: handAny},
				handRow{prog: "function f(s) { return match (s) { 1 => 'one', /" + re + "/ => 'r' } } BEGIN { print f(1), f('a'), f('') }", want: handAny})
		}
		return rows
	case "C07":
		// a control-flow statement executed while a member value of an object literal is evaluated
		return []handRow{
			{prog: "function f() { exit } BEGIN { print 'a'; o = {a: f()}; print 'b' }", class: "ok", want: "a\n"},
			{prog: "function f(v) { if (v == 2) { next } return v } { o = {v: f($), w: 1}; print o.v } END { print 'end' }", in: "[1,2,3]", class: "ok", want: "1\n3\nend\n"},
			{prog: "{ o = {v: match ($) { 2 => { next } n => n }}; print o.v } END { print 'end' }", in: "[1,2,3]", class: "ok", want: "1\n3\nend\n"},
			{prog: "BEGIN { for (i = 0; i < 3; i++) { o = {a: match (i) { 1 => { continue } n => n }}; print o.a } print 'done' }", class: "ok", want: "0\n2\ndone\n"},
			{prog: "BEGIN { i = 0; while (i < 5) { i++; o = {a: 1, b: match (i) { 3 => { break } n => n }}; print o.b } print 'done', i }", class: "ok", want: "1\n2\ndone 3\n"},
			{prog: "function g(v) { o = {k: match (v) { 1 => { return 'early' } n => n }}; return o.k } BEGIN { print g(1), g(2) }", class: "ok", want: "early 2\n"},
			{prog: "function f(v) { if (v == 2) { next } return v } { a = [f($), 0]; print a[0] } END { print 'end' }", in: "[1,2,3]", class: "ok", want: "1\n3\nend\n"},
			// next executed while the pattern of a rule is evaluated abandons the element: no later rule runs for it
			{prog: "function skip(v) { if (v == 2) { next } return true } skip($) { print 'a', $ } { print 'b', $ } END { print 'end' }", in: "[1,2,3]", class: "ok", want: "a 1\nb 1\na 3\nb 3\nend\n"},
			{prog: "match ($) { 2 => { next } n => true } { print 'a', $ } $ > 0 { print 'b', $ }", in: "[1,2,3]", class: "ok", want: "a 1\nb 1\na 3\nb 3\n"},
			{prog: "{ print 'first', $ } function sk(v) { if (v % 2 == 0) { next } return false } sk($) { print 'never' } { print 'last', $ }", in: "[1,2,3,4]", class: "ok", want: "first 1\nlast 1\nfirst 2\nfirst 3\nlast 3\nfirst 4\n"},
		}
	case "C04":
		// a number that is not finite has no JSON form: json() fails (what the implementation does today) or, whatever
		// it decides to write instead, writes JSON - never text that is no JSON
		return []handRow{
			{prog: "BEGIN { x = num('1e308') * 10; print json([1, x, 2]) }", class: "runtime|json", want: ""},
			{prog: "BEGIN { x = num('1e308') * 10; print json([x]) }", class: "runtime|json", want: ""},
			{prog: "BEGIN { x = num('1e308') * 10; y = x - x; print json({a: [[1, y]]}) }", class: "runtime|json", want: ""},
			{prog: "BEGIN { x = num('1e308') * 10; print json([[true, null, 's'], [0 - x], 3, [x, 's', x]]) }", class: "runtime|json", want: ""},
		}
	case "C08":
		// a name first created in the body of a case that binds nothing is gone when the case has finished
		return []handRow{
			{prog: "BEGIN { match (2) { 1 => { t = 1 }, 2 => { t = 5; print t } } print t is unknown }", class: "ok", want: "5\ntrue\n"},
			{prog: "BEGIN { match ([0, 0]) { [0, 0] => { made = 'x' } } print made is unknown }", class: "ok", want: "true\n"},
			{prog: "{ match ($.k) { 'err', 'fatal' => { last = $.k; n = n + 1 } } } END { print last is unknown, n is unknown }", in: `{"k":"err"} {"k":"ok"} {"k":"fatal"}`, class: "ok", want: "true true\n"},
			{prog: "BEGIN { g = 1; match ('a') { 'a' => { g = 2; loc = 3 } } print g, loc is unknown }", class: "ok", want: "2 true\n"},
			{prog: "{ match ($) { 1 => { seen = 'one' }, 2 => { print seen is unknown } } }", in: "[1,2]", class: "ok", want: "true\n"},
		}
	case "C09":
		// ninth round: a string key that spells a number is a string key - the missing container becomes an object, and an
		// existing array refuses it
		return []handRow{
			{prog: "BEGIN { o = {}; o.m['2'] = 7; print o.m; o.q['10'].z = 1; print o.q }", class: "ok", want: "{\"2\": 7}\n{\"10\": {\"z\": 1}}\n"},
			{prog: "{ $.m['2'] = 7; print $.m is object, $.m['2'], $.m.length() }", in: `{"a":1}`, class: "ok", want: "true 7 1\n"},
			{prog: "BEGIN { a = [1]; print 'pre'; a['0'] = 5; print 'post', a }", class: "runtime", want: "pre\n"},
			{prog: "BEGIN { x.k['1.5'] = 1; print x.k; y.k[2] = 1; print y.k }", class: "ok", want: "{\"1.5\": 1}\n[null, null, 1]\n"},
			{prog: "BEGIN { k = '3'; t.list[k] = 'v'; n = 1; t.arr[n] = 'w'; print t.list, t.arr }", class: "ok", want: "{\"3\": \"v\"} [null, \"w\"]\n"},
		}
	case "C10":
		return nil // see round8C10
	case "C11":
		// a NUL byte is no token: a syntax error wherever it stands, also where the program could end
		return []handRow{
			{prog: "BEGIN { print \"early\" }\n\x00\n{ print 1 +* }", in: "[1]", class: "syntax", want: ""},
			{prog: "\x00BEGIN { print \"early\" }", in: "[1]", class: "syntax", want: ""},
			{prog: "BEGIN { print \"early\" }\n\x00", in: "[1]", class: "syntax", want: ""},
			{prog: "BEGIN { print \"early\" }\n\x00\n{ print $ }", in: "[1]", class: "syntax", want: ""},
			{prog: "function f() { return 1 }\n\x00 BEGIN { print f() }", in: "[1]", class: "syntax", want: ""},
		}
	case "C13":
		// \\ followed by n or t is a backslash and a letter; line ends inside the block of a match that stands in brackets
		return []handRow{
			{prog: `BEGIN { print "C:\\temp\\new", "a\\nb".length(), 'x\\ty', "q\\\\n" }`, class: "ok", want: "C:\\temp\\new 4 x\\ty q\\\\n\n"},
			{prog: `BEGIN { print 'C:\\temp\\new', 'a\\nb'.length(), "x\\ty", 'q\\\\n' }`, class: "ok", want: "C:\\temp\\new 4 x\\ty q\\\\n\n"},
			{prog: `BEGIN { s = "\\n"; t = "\\t"; print s.length(), t.length(), s, t, "\\n\\t".length() }`, class: "ok", want: "2 2 \\n \\t 4\n"},
			{prog: "BEGIN { x = (match (1) { 1 => {\na = \"A\"\nprint a\na = \"B\"\n} })\nprint a is unknown, x }", class: "ok", want: "A\ntrue null\n"},
			{prog: "BEGIN { x = (match (1) { 1 => { a = \"A\"; print a; a = \"B\" } }); print a is unknown, x }", class: "ok", want: "A\ntrue null\n"},
			{prog: "function f(v) { return v } BEGIN { y = f(match (2) { 2 => {\nprint \"in\"\nb = [1,\n2]\nprint b\n} }); print y }", class: "ok", want: "in\n[1, 2]\nnull\n"},
			{prog: "BEGIN { l = [match (3) { 3 => {\nprint 'x'\nprint 'y'\n} }, 2]\nprint l }", class: "ok", want: "x\ny\n[null, 2]\n"},
			{prog: "BEGIN { if (match (1) { 1 => {\nc = 1\nprint c\n} } == null) {\nprint 'then'\n} }", class: "ok", want: "1\nthen\n"},
		}
	case "C15":
		// an array literal gives a new array with cells of its own every time it is evaluated
		return []handRow{
			{prog: "function mk() { return [1, 2, 3] } BEGIN { a = mk(); a[0] = 9; a[-1] = 'x'; b = mk(); print a, b; b[1]++; print mk() }", class: "ok", want: "[9, 2, \"x\"] [1, 2, 3]\n[1, 2, 3]\n"},
			{prog: "{ t = [1, 'a', true, null]; print t; t[0] = $; t[3] = 'z' }", in: "[5,6,7]", class: "ok", want: "[1, \"a\", true, null]\n[1, \"a\", true, null]\n[1, \"a\", true, null]\n"},
			{prog: "BEGIN { for (i = 0; i < 3; i++) { r = [0, 0]; r[i % 2] += i + 1; print r } }", class: "ok", want: "[1, 0]\n[0, 2]\n[3, 0]\n"},
			{prog: "function mk() { return ['p', 'q'] } BEGIN { a = mk(); b = mk(); a[1] = 'changed'; a[0]++; print b, b.contains('changed'), mk().length() }", class: "ok", want: "[\"p\", \"q\"] false 2\n"},
		}
	case "C16":
		// split() beyond 65536 pieces
		return []handRow{
			{prog: "BEGIN { s = 'a,'; for (i = 0; i < 16; i++) { s = s + s } p = s.split(','); print p.length(), p[65535], p[65536].length(), p[70000] is null }", class: "ok", want: "65537 a 0 true\n", bud: 3000000},
			{prog: "BEGIN { s = 'ab'; for (i = 0; i < 16; i++) { s = s + s } p = s.split(''); print p.length(), p[65535], p[65536], p[131071] }", class: "ok", want: "131072 b a b\n", bud: 3000000},
			{prog: "BEGIN { s = 'x--'; for (i = 0; i < 17; i++) { s = s + s } p = s.split('--'); print p.length(), p[0], p[131071], p[131072].length() }", class: "ok", want: "131073 x x 0\n", bud: 3000000},
		}
	case "C17":
		// values nested a few thousand deep are printed in full (up to 5000 levels, which C20's band requires to work)
		var rows []handRow
		for _, n := range []int{1023, 1024, 1025, 1500, 4095, 4096, 4097, 4999} {
			rows = append(rows, handRow{prog: fmt.Sprintf("BEGIN { a = []; for (i = 0; i < %d; i++) { a = [a] } print a }", n), class: "ok", want: nestArr(n + 1), bud: 400000})
		}
		for _, n := range []int{1030, 4100} {
			rows = append(rows, handRow{prog: fmt.Sprintf("BEGIN { o = {}; for (i = 0; i < %d; i++) { o = {k: o} } print o }", n), class: "ok", want: nestObj(n), bud: 400000})
			rows = append(rows, handRow{prog: fmt.Sprintf("BEGIN { a = []; for (i = 0; i < %d; i++) { a = [a] } printf('%%v|', a) }", n), class: "ok", want: strings.TrimSuffix(nestArr(n+1), "\n") + "|", bud: 400000})
		}
		// ... and when read from the input
		for _, n := range []int{1100, 4200, 5000} {
			// the rule runs on the one element of the outermost array
			rows = append(rows, handRow{prog: "{ print }", in: strings.Repeat("[", n) + strings.Repeat("]", n), class: "ok", want: nestArr(n - 1)})
		}
		return rows
	case "C18":
		// a width written with several leading zeros is a zero-padded width of that value
		return []handRow{
			{prog: "BEGIN { printf('[%0000012s]', 'ab') }", class: "ok", want: "[0000000000ab]"},
			{prog: "BEGIN { printf('[%0000007f]', 1.5) }", class: "ok", want: "[00001.5]"},
			{prog: "BEGIN { printf('[%00000000003s]', 'a') }", class: "ok", want: "[00a]"},
			{prog: "BEGIN { printf('[%000000000000000000002v]', 7) }", class: "ok", want: "[07]"},
			{prog: "BEGIN { printf('[%00065536s]', 'a') }", class: "ok", want: "[" + strings.Repeat("0", 65535) + "a]"},
		}
	case "C19":
		// a binding read after the body has re-entered the same case of the same match
		return []handRow{
			{prog: "function sum(l) { return match (l) { [x, rest] => sum(rest) + x, [x] => x, _ => 0 } } BEGIN { print sum([1, [2, [4]]]) }", class: "ok", want: "7\n"},
			{prog: "function show(l) { return match (l) { [h, t] => show(t) + '<' + h, other => '.' } } BEGIN { print show(['a', ['b', ['c', null]]]) }", class: "ok", want: ".<c<b<a\n"},
			{prog: "function cnt(l) { return match (l) { [h, t] => { n = cnt(t); return n + h }, other => 0 } } BEGIN { print cnt([10, [20, [30, null]]]) }", class: "ok", want: "60\n"},
			{prog: "function depth(t) { return match (t) { [l, r] => { dl = depth(l); dr = depth(r); print l is array, r is array; return 1 + dl + dr }, leaf => 0 } } BEGIN { print depth([[1, 2], 3]) }", class: "ok", want: "false false\ntrue false\n2\n"},
			{prog: "function f(n) { return match (n) { 0 => 'z', k => f(k - 1) + k } } BEGIN { print f(4) }", class: "ok", want: "z1234\n"},
		}
	}
	return nil
}

// round8Hand runs the rows of one property; part of that property's enumerated case.
func round8Hand(c *Case, pid string) {
	for _, r := range round8Rows(pid) {
		var files []InFile
		if r.in != "" {
			files = []InFile{{Name: "in.json", Data: []byte(r.in)}}
		}
		bud := r.bud
		if bud == 0 {
			bud = 200000
		}
		lib := RunLib(r.prog, files, nil, RunOpts{Budget: bud})
		c.Count("hand_computed_programs_round8")
		c.NonTrivial("hand8:" + r.prog + "|" + clip(r.in, 40))
		if lib.Class == "budget" {
			c.Inconclusive("budget")
			continue
		}
		okClass := lib.Class == r.class
		if r.class == "runtime|json" {
			// a runtime error with nothing written, or a success whose whole output is one JSON value
			if lib.Class == "ok" {
				_, used, err := decodeOne(lib.Stdout)
				if err == nil && strings.TrimSpace(string(lib.Stdout[used:])) == "" {
					c.Held()
					continue
				}
			}
			okClass = lib.Class == "runtime"
		}
		if r.class == "" {
			okClass = lib.Class == "ok" || lib.Class == "syntax" || lib.Class == "runtime" || lib.Class == "json"
		}
		okOut := r.want == handAny || string(lib.Stdout) == r.want
		if okClass && okOut {
			c.Held()
			continue
		}
		c.Violation(fmt.Sprintf("hand-computed program: want %s %q, got %s (%s) %q | %s", orAny(r.class), clip(r.want, 80), lib.Class, lib.Msg, clip(string(lib.Stdout), 80), clip(r.prog, 300)),
			nil, map[string]any{"program": r.prog, "input": clip(r.in, 2000)})
	}
}

// round8C10: runs that store far past the end of an array, repeated in one process (a fill budget that is kept per
// process instead of per run is used up by the seventh of them)
func round8C10(c *Case) {
	for _, prog := range []string{
		"BEGIN { a = []; a[600000] = 'x'; print a.length(), a[600000] }",
		"{ a = []; a[$.n] = $.n; print a.length() } END { b = [1]; b[-1] = 2; b[400000] = b[0]; print b.length(), b[400000] }",
	} {
		files := []InFile{{Name: "in.json", Data: []byte(`{"n": 300000} {"n": 200000}`)}}
		var first *Outcome
		same := true
		n := 0
		for i := 0; i < 12; i++ {
			lib := RunLib(prog, files, nil, RunOpts{Budget: 200000})
			n++
			if first == nil {
				first = lib
			} else if lib.Class != first.Class || string(lib.Stdout) != string(first.Stdout) || lib.Msg != first.Msg {
				same = false
				c.Violation(fmt.Sprintf("run %d of the same program in one process: %s (%s) %q, the first run: %s (%s) %q | %s", i+1, lib.Class, lib.Msg, clip(string(lib.Stdout), 60),
					first.Class, first.Msg, clip(string(first.Stdout), 60), prog), nil, map[string]any{"program": prog})
				break
			}
		}
		c.CountN("repeated_autofill_runs", n)
		c.NonTrivial("autofill-repeat:" + prog)
		if same {
			c.Held()
		}
	}
}

func orAny(s string) string {
	if s == "" {
		return "any reported kind"
	}
	return s
}

// round8RuleNote is appended to the rule text of a property's evidence file.
func round8RuleNote(pid string) string {
	n := len(round8Rows(pid))
	switch {
	case pid == "C10":
		return " Eighth round: two programs that store far past the end of an array, 12 runs each in one process."
	case n > 0:
		return fmt.Sprintf(" Eighth round: %d hand-computed programs (harness/round8.go) run in the first case: outcome class and standard output are fixed by the statement.", n)
	}
	return ""
}
