package main

// C02 — rules run in awk order over every input shape (DESIGN §4 C02).

import (
	"bytes"
	"encoding/json"
	"fmt"
	"math/rand/v2"
	"os"
	"os/exec"
	"path/filepath"
	"strconv"
	"strings"
	"syscall"
	"time"
)

var c02Kinds = []string{"BEGIN", "END", "BEGINFILE", "ENDFILE", "pattern"}

type c02Config struct {
	rules     []*Rule
	files     []InFile
	selectors []Expr
	allArrays bool
	desc      string
	usesNx    bool
	usesWhere bool
}

func jsonBytes(v any) []byte {
	b, _ := json.Marshal(v)
	return b
}

// c02Body: every rule body prints a unique tag, $file and $ (and $index where defined).
func c02Body(tag string, kind string, withIndex bool, action string) *Block {
	args := []Expr{S(tag)}
	if kind != "BEGIN" {
		args = append(args, V("$file"))
	}
	if kind == "pattern" && withIndex {
		args = append(args, V("$index"))
	}
	args = append(args, V("$"))
	b := Blk(Pr(args...))
	switch action {
	case "next":
		b.Stmts = append(b.Stmts, &Next{}, Pr(S(tag+"-unreachable")))
	case "exit":
		b.Stmts = append(b.Stmts, &Exit{}, Pr(S(tag+"-unreachable")))
	case "next-if":
		b.Stmts = append(b.Stmts, &If{C: Bin("==", V("$"), N("2")), Then: &Next{}}, Pr(S(tag+"-after")))
	case "exit-if":
		b.Stmts = append(b.Stmts, &If{C: Bin("==", V("$"), N("3")), Then: &Exit{}}, Pr(S(tag+"-after")))
	case "index-elsewhere":
		// $index and $file read inside a function and inside a match case body: the same as in the rule itself
		b.Stmts = append(b.Stmts, Pr(S(tag+"-fn"), CallE(V("whereami")), &MatchExpr{Subj: N("1"), Cases: []*MatchCase{{Pats: []Expr{V("one")}, Body: Arr(V("$index"), V("$file"))}}}))
	case "next-in-string-loop":
		b.Stmts = append(b.Stmts, &ForIn{V: "ch", It: S("ab"), Body: Blk(&If{C: Bin("==", V("$"), N("2")), Then: Blk(&Next{})})}, Pr(S(tag+"-after-loop")))
	case "exit-in-string-loop":
		b.Stmts = append(b.Stmts, &ForIn{V: "ch", It: S("ab"), Body: Blk(&If{C: Bin("==", V("$"), N("3")), Then: Blk(&Exit{})})}, Pr(S(tag+"-after-loop")))
	case "dollar-assign":
		// BEGIN / END rules each start with $ null: a store into $ there is gone when the next rule starts
		b.Stmts = append(b.Stmts, asg(V("$"), S(tag+"-was-here")), Pr(S(tag+"-now"), V("$")))
	case "store":
		// a store through $: visible to later rules of this pass, not to the pass of another selector or value
		b.Stmts = append(b.Stmts, &If{C: &IsExpr{X: V("$"), T: "object"}, Then: Blk(asg(Mem(V("$"), "mark"), Bin("+", Mem(V("$"), "mark"), N("1")))),
			Else: &If{C: &IsExpr{X: V("$"), T: "array"}, Then: Blk(asg(Idx(V("$"), N("0")), S("marked")), ES(Meth(V("$"), "push", S("pushed"))))}}) // also extends an empty array: seen through every reference to it
	}
	return b
}

var c02Roots = []any{
	[]any{1.0, 2.0, 3.0},
	[]any{},
	map[string]any{"a": []any{5.0, 6.0}},
	7.0,
	nil,
	"str",
	[]any{[]any{1.0}, map[string]any{"a": map[string]any{"b": 2.0}}, "x", nil, 3.0},
	map[string]any{"a": map[string]any{"b": []any{8.0, 9.0}}, "z": 1.0},
	[]any{2.0},
	map[string]any{"z": 0.0, "nul": nil, "a": map[string]any{"b": nil}},
	map[string]any{"z": nil, "nul": 0.0, "a": map[string]any{"b": 0.0}},
	[]any{map[string]any{"z": nil}, map[string]any{"z": 0.0}, map[string]any{"nul": 0.0}, nil, 0.0},
}

func isArr(v any) bool { _, ok := v.([]any); return ok }

func c02Enumerated(idx int) (*c02Config, string) {
	// decode idx -> (kind sequence len<=3, action, root shape, nvalues, nsel)
	const nseq = 5 + 25 + 125
	seq := idx % nseq
	idx /= nseq
	act := idx % 7 // 0 none; 1..3 next at rule 0..2; 4..6 exit at rule 0..2
	idx /= 7
	shape := idx % 4
	idx /= 4
	nvals := 1 + idx%2
	idx /= 2
	nsel := (idx % 2) * 2
	var kinds []string
	switch {
	case seq < 5:
		kinds = []string{c02Kinds[seq]}
	case seq < 30:
		s := seq - 5
		kinds = []string{c02Kinds[s/5], c02Kinds[s%5]}
	default:
		s := seq - 30
		kinds = []string{c02Kinds[s/25], c02Kinds[(s/5)%5], c02Kinds[s%5]}
	}
	roots := []any{c02Roots[0], c02Roots[2], c02Roots[3], c02Roots[1]}
	root := roots[shape]
	cfg := &c02Config{allArrays: isArr(root) && nsel == 0}
	for i, k := range kinds {
		action := ""
		if act >= 1 && act <= 3 && act-1 == i {
			action = "next"
		} else if act >= 4 && act-4 == i {
			action = "exit"
		}
		if action == "next" && k != "pattern" {
			action = "" // next outside pattern rules is unspecified ([P])
		}
		r := &Rule{Kind: k, Body: c02Body(fmt.Sprintf("%s%d", k[:2], i), k, cfg.allArrays, action)}
		cfg.rules = append(cfg.rules, r)
	}
	var data []byte
	for v := 0; v < nvals; v++ {
		data = append(data, jsonBytes(root)...)
		data = append(data, '\n')
	}
	cfg.files = []InFile{{Name: "f1.json", Data: data}}
	if nsel == 2 {
		cfg.selectors = []Expr{V("$"), Mem(V("$"), "a")}
	}
	key := fmt.Sprintf("E:%s/act%d/shape%d/v%d/s%d", strings.Join(kinds, ","), act, shape, nvals, nsel)
	cfg.desc = key
	return cfg, key
}

const c02EnumCount = (5 + 25 + 125) * 7 * 4 * 2 * 2

func c02Random(rng *rand.Rand) (*c02Config, string, bool) {
	cfg := &c02Config{}
	nfiles := 1 + rng.IntN(3)
	nsel := 0
	if rng.IntN(3) == 0 {
		nsel = 1 + rng.IntN(3)
	}
	allArr := nsel == 0
	shape := ""
	for f := 0; f < nfiles; f++ {
		nv := rng.IntN(4)
		var data []byte
		for v := 0; v < nv; v++ {
			root := c02Roots[rng.IntN(len(c02Roots))]
			if !isArr(root) {
				allArr = false
			}
			data = append(data, jsonBytes(root)...)
			data = append(data, []string{"\n", " ", "", "\r\n\t"}[rng.IntN(4)]...)
			if _, isNum := root.(float64); isNum && len(data) > 0 && data[len(data)-1] != '\n' && data[len(data)-1] != ' ' && data[len(data)-1] != '\t' {
				data = append(data, ' ')
			}
		}
		shape += fmt.Sprintf("f%d", nv)
		cfg.files = append(cfg.files, InFile{Name: fmt.Sprintf("file%d.json", f+1), Data: data})
	}
	selPool := []Expr{V("$"), V("$"), Mem(V("$"), "a"), Mem(V("$"), "a"), Idx(V("$"), N("0")), Mem(Mem(V("$"), "a"), "b")}
	for s := 0; s < nsel; s++ {
		cfg.selectors = append(cfg.selectors, selPool[rng.IntN(len(selPool))])
	}
	if nsel >= 2 && rng.IntN(3) == 0 {
		// a selector that prints, fails or exits when it is evaluated: that happens when its turn comes, after the
		// rules of the selectors before it have run for this value
		eff := []Expr{
			CallE(V("printf"), S("selector evaluated\n")),
			&MatchExpr{Subj: N("1"), Cases: []*MatchCase{{Pats: []Expr{V("w")}, Block: Blk(Pr(S("selector block"), V("$")))}}},
			Idx(Arr(N("1")), &Unary{Op: "-", X: N("5")}),
			CallE(Mem(V("$"), "nosuchfn")),
			&MatchExpr{Subj: N("1"), Cases: []*MatchCase{{Pats: []Expr{V("w")}, Block: Blk(&Exit{})}}},
		}
		cfg.selectors[1+rng.IntN(nsel-1)] = eff[rng.IntN(len(eff))]
		shape += "+effect-selector"
	}
	reassign := rng.IntN(8) == 0
	if reassign {
		allArr = false
	}
	cfg.allArrays = allArr
	nrules := 1 + rng.IntN(8)
	if rng.IntN(6) == 0 {
		nrules = 13 + rng.IntN(28) // long programs: rules of one kind keep their source order however many there are
	}
	active := map[string]bool{}
	npat := 0
	for i := 0; i < nrules; i++ {
		k := c02Kinds[rng.IntN(5)]
		if rng.IntN(3) == 0 {
			k = "pattern"
		}
		active[k] = true
		r := &Rule{Kind: k}
		action := ""
		switch rng.IntN(12) {
		case 0:
			if k == "pattern" {
				action = "next"
			}
		case 1:
			action = "exit-if"
		case 2:
			if k == "pattern" {
				action = "next-if"
			}
		case 3:
			if rng.IntN(4) == 0 {
				action = "exit"
			}
		case 4, 5:
			if k != "BEGIN" && k != "END" {
				action = "store"
			} else {
				action = "dollar-assign"
			}
		case 6:
			if k == "pattern" && allArr {
				action = "index-elsewhere"
				cfg.usesWhere = true
			}
		case 7:
			if k == "pattern" {
				action = []string{"next-in-string-loop", "exit-in-string-loop"}[rng.IntN(2)]
			}
		}
		if k == "pattern" {
			npat++
			switch rng.IntN(9) {
			case 0:
				r.Pattern = N("0")
			case 1:
				r.Pattern = S("x")
			case 2:
				r.Pattern = &IsExpr{X: V("$"), T: "array"}
			case 3:
				r.Pattern = &IsExpr{X: V("$"), T: "number"}
			case 4:
				if allArr {
					r.Pattern = Bin("==", Bin("%", V("$index"), N("2")), N("0"))
				}
			case 5:
				r.Pattern = Bin("&&", &IsExpr{X: V("$"), T: "number"}, Bin(">", V("$"), N(strconv.Itoa(rng.IntN(4)))))
			case 7:
				// a member compared with a small number where the member may be null or missing (null ranks below every number)
				fld := []Expr{Mem(V("$"), "z"), Mem(V("$"), "nul"), Mem(V("$"), "zz"), Mem(Mem(V("$"), "a"), "b"), Idx(V("$"), N("0"))}[rng.IntN(5)]
				r.Pattern = Bin([]string{"==", "!=", "<", ">=", "<=", ">"}[rng.IntN(6)], fld, N([]string{"0", "0", "1", "2"}[rng.IntN(4)]))
			case 6:
				// next executed while the pattern is evaluated
				if rng.IntN(2) == 0 {
					r.Pattern = CallE(V("nx"), V("$"))
				} else {
					r.Pattern = &MatchExpr{Subj: V("$"), Cases: []*MatchCase{{Pats: []Expr{N("2")}, Block: Blk(&Next{})}, {Pats: []Expr{V("pv")}, Body: N("1")}}}
				}
				cfg.usesNx = true
			}
			if rng.IntN(4) == 0 && action == "" && r.Pattern != nil {
				// rule without a body prints $
				cfg.rules = append(cfg.rules, r)
				continue
			}
		}
		if (action == "next-if" || action == "exit-if") && k != "pattern" {
			action = ""
		}
		r.Body = c02Body(fmt.Sprintf("%s%d", k[:2], i), k, allArr, action)
		if k == "BEGINFILE" && reassign {
			// assigning $ in BEGINFILE replaces the root the pattern rules then iterate
			r.Body.Stmts = append(r.Body.Stmts, asg(V("$"), []Expr{Mem(V("$"), "a"), Arr(V("$"), N("1")), Idx(V("$"), N("0"))}[rng.IntN(3)]))
		}
		cfg.rules = append(cfg.rules, r)
	}
	if allArr && rng.IntN(4) == 0 {
		// the last pattern rule moves its own $index: the next element (and the next root) start from their position again
		for i := len(cfg.rules) - 1; i >= 0; i-- {
			if r := cfg.rules[i]; r.Kind == "pattern" {
				if r.Body != nil {
					r.Body.Stmts = append([]Stmt{asg(V("$index"), Bin("+", V("$index"), N("100"))), Pr(S("moved-index"), V("$index"))}, r.Body.Stmts...)
				}
				break
			}
		}
	}
	key := fmt.Sprintf("R:%d rules/%s/sel%d", nrules, shape, nsel)
	return cfg, key, len(active) >= 2 && npat >= 1
}

func (cfg *c02Config) program() *Program {
	p := &Program{}
	if cfg.usesNx {
		p.Items = append(p.Items, &Func{Name: "nx", Params: []string{"v"}, Body: Blk(&If{C: Bin("==", V("v"), N("2")), Then: Blk(&Next{})}, &Return{X: N("1")})})
	}
	if cfg.usesWhere {
		p.Items = append(p.Items, &Func{Name: "whereami", Body: Blk(&Return{X: Arr(V("$index"), V("$file"))})})
	}
	for _, r := range cfg.rules {
		p.Items = append(p.Items, r)
	}
	return p
}

func c02Cases(tier string) int {
	if tier == "thorough" {
		return c02EnumCount + 3000000
	}
	return c02EnumCount + 100000
}

// c02Pipes: the binary with a named pipe that never gets a writer among its file operands. BEGIN rules run before
// any input, files are taken in the order given, and exit ends the run at once: none of that waits for the pipe.
// The verdict is taken from the state of the process (exited, or every thread asleep without using CPU time), not
// from a deadline.
func c02Pipes(c *Case) {
	dir := filepath.Join(c.env.Scratch, "c02p")
	os.MkdirAll(dir, 0o755)
	defer os.RemoveAll(dir)
	os.WriteFile(filepath.Join(dir, "a.json"), []byte("[1, 2, 3]"), 0o644)
	fifo := filepath.Join(dir, "never.fifo")
	if syscall.Mkfifo(fifo, 0o600) != nil {
		c.Inconclusive("fifo-setup-failed")
		return
	}
	for _, t := range []struct {
		name string
		args []string
		want string
	}{
		{"exit in BEGIN, the only operand a pipe without writer", []string{"--", "BEGIN { print 'begin'; exit } { print 'rule' } END { print 'end' }", "never.fifo"}, "begin\n"},
		{"exit in a rule of the first file, then a pipe without writer", []string{"--", "BEGIN { print 'begin' } { print $; if ($ == 2) exit } END { print 'end' }", "a.json", "never.fifo"}, "begin\n1\n2\n"},
		{"exit in ENDFILE of the first file, then a pipe without writer", []string{"--", "{ n++ } ENDFILE { print $file, n; exit }", "a.json", "never.fifo"}, "a.json 3\n"},
		{"exit in BEGIN, a file and a pipe, with -r", []string{"-r", "$[0]", "--", "BEGIN { print 'begin'; exit }", "a.json", "never.fifo"}, "begin\n"},
	} {
		cmd := exec.Command(c.env.Jqawk, t.args...)
		cmd.Dir = dir
		cmd.Stdin = bytes.NewReader(nil)
		var out, errb lockedBuf
		cmd.Stdout, cmd.Stderr = &out, &errb
		if cmd.Start() != nil {
			c.Inconclusive("cli-start-failed")
			continue
		}
		heartbeat()
		done := make(chan error, 1)
		go func() { done <- cmd.Wait() }()
		exited, idle := false, false
		for round := 0; round < 10 && !exited && !idle; round++ {
			select {
			case <-done:
				exited = true
			case <-time.After(200 * time.Millisecond):
				idle = waitIdle(cmd.Process.Pid, 2*time.Second)
			}
		}
		if !exited {
			select {
			case <-done:
				exited = true
			default:
			}
		}
		c.NonTrivial("pipe:" + t.name)
		c.Count("runs_with_a_pipe_that_has_no_writer")
		switch {
		case exited && cmd.ProcessState.ExitCode() == 0 && out.String() == t.want:
			c.Held()
		case exited:
			c.Violation(fmt.Sprintf("%s: exit %d, stdout %q (want %q), stderr %q", t.name, cmd.ProcessState.ExitCode(), clip(out.String(), 80), t.want, clip(errb.String(), 80)), nil, map[string]any{"args": t.args})
		case idle:
			cmd.Process.Kill()
			<-done
			c.Violation(fmt.Sprintf("%s: the process sleeps (every thread asleep, no CPU time used) with stdout %q instead of ending with %q: it waits for input that the run never gets to", t.name, clip(out.String(), 80), t.want), nil, map[string]any{"args": t.args})
		default:
			cmd.Process.Kill()
			<-done
			c.Inconclusive("cli-neither-exited-nor-idle")
		}
	}
}

// c02ManyFiles: "for each file in the order given", for more files than the process may hold open at once
func c02ManyFiles(c *Case) {
	dir := filepath.Join(c.env.Scratch, "c02m")
	os.MkdirAll(dir, 0o755)
	defer os.RemoveAll(dir)
	var names []string
	var want strings.Builder
	want.WriteString("begin\n")
	for i := 1; i <= 90; i++ {
		n := fmt.Sprintf("f%03d.json", i)
		os.WriteFile(filepath.Join(dir, n), []byte(fmt.Sprintf("[%d, %d]\n{\"k\": %d}", i, -i, i)), 0o644)
		names = append(names, n)
		fmt.Fprintf(&want, "BF %s\nP %d\nP %d\nEF %s\nBF %s\nP {\"k\": %d}\nEF %s\n", n, i, -i, n, n, i, n)
	}
	want.WriteString("end 270\n")
	prog := "BEGIN { print 'begin' } BEGINFILE { print 'BF', $file } { print 'P', $; n++ } ENDFILE { print 'EF', $file } END { print 'end', n }"
	sh := "ulimit -n 32 || exit 97; exec \"$0\" \"$@\""
	r := RunCli("/bin/sh", append([]string{"-c", sh, c.env.Jqawk, "--", prog}, names...), nil, dir, 120*time.Second)
	if r.TimedOut || r.Exit == 97 {
		c.Inconclusive("descriptor-limit-not-applied")
		return
	}
	c.NonTrivial("many-files")
	c.Count("runs_with_more_files_than_descriptors")
	if f := cliFault(r); f != "" || r.Exit != 0 || string(r.Stdout) != want.String() {
		c.Violation(fmt.Sprintf("90 files of two values each under a limit of 32 open descriptors: exit %d, %s, stderr %q %s", r.Exit, diffAt(want.String(), string(r.Stdout)), clip(string(r.Stderr), 120), f), nil, map[string]any{"program": prog})
	} else {
		c.Held()
	}
}

func c02Run(c *Case) {
	if c.Idx == 0 {
		c02Pipes(c)
		c02ManyFiles(c)
	}
	var cfg *c02Config
	var key string
	nontrivial := true
	if c.Idx < c02EnumCount {
		cfg, key = c02Enumerated(c.Idx)
		c.Count("enumerated")
	} else {
		cfg, key, nontrivial = c02Random(c.Rng)
		c.Count("sampled")
	}
	p := cfg.program()
	rd := RenderProgram(p, ParenMinimal, nil)
	text, _ := rd.Layout(nil)
	if rd.LeadBad {
		c.Inconclusive("generator-discipline")
		return
	}
	var minputs []MInput
	for _, f := range cfg.files {
		vals, err := decodeAll(f.Data)
		minputs = append(minputs, MInput{Name: f.Name, Values: vals, Damaged: err != nil})
	}
	var sels []string
	for _, s := range cfg.selectors {
		sels = append(sels, CanonExpr(s))
	}
	mod := RunModel(p, minputs, cfg.selectors, ModelOpts{TrackRules: true})
	lib := RunLib(text, cfg.files, sels, RunOpts{TrackRules: true, WantRoot: len(cfg.files) == 1})
	for k, v := range lib.RuleStarts {
		c.CountN("impl_rule_starts:"+k, v)
	}
	if lib.Class == "budget" || mod.Class == "budget" {
		c.Inconclusive("budget")
		return
	}
	why := ""
	switch {
	case lib.Class == "panic":
		why = "panic: " + lib.PanicVal
	case lib.Class != mod.Class:
		why = fmt.Sprintf("outcome %s (%s), model expects %s (%s)", lib.Class, lib.Msg, mod.Class, mod.ErrMsg)
	default:
		if ok, d := compareOut(mod.Stdout, lib.Stdout, true); !ok {
			why = "stdout trace: " + d
		} else if strings.Join(mod.RuleSeq, ",") != strings.Join(lib.RuleSeq, ",") {
			why = fmt.Sprintf("rule activations differ: implementation %v, schedule model %v", clip(strings.Join(lib.RuleSeq, ","), 200), clip(strings.Join(mod.RuleSeq, ","), 200))
		} else if len(cfg.files) == 1 && lib.Class == "ok" && mod.Root != nil {
			// the run ended successfully, by exit in whatever rule or at the end: the root bound last is there for -o
			c.Count("root_after_the_run_compared")
			if w := rootWhy(mod, lib); w != "" {
				why = "after the run: " + w
			}
		}
	}
	if nontrivial && len(mod.RuleSeq) >= 2 {
		c.NonTrivial(key + "|" + text)
	}
	c.Max("max_rule_activations", len(mod.RuleSeq))
	if c.Idx == 777 || c.Idx == c02EnumCount+5 {
		c.Sample(map[string]any{"config": key, "program": text, "selectors": sels, "files": len(cfg.files), "first_input": string(cfg.files[0].Data), "rule_activations": strings.Join(mod.RuleSeq, ",")})
	}
	if why == "" {
		c.Held()
		return
	}
	if mod.Pinned() && lib.Class != "panic" {
		c.Inconclusive("pinned")
		c.Note(fmt.Sprintf("property=C02 case=%d pinned %v: %s", c.Idx, pinnedTags(mod), oneLine(why, 140)))
		return
	}
	var ins []map[string]string
	for _, f := range cfg.files {
		ins = append(ins, map[string]string{"name": f.Name, "data": string(f.Data)})
	}
	c.Violation(key+": "+why+" | program: "+clip(text, 200), mod.TagList(), map[string]any{"program": text, "selectors": sels, "inputs": ins,
		"expected_stdout": mod.Stdout, "observed_stdout": string(lib.Stdout), "expected_rules": mod.RuleSeq, "observed_rules": lib.RuleSeq})
}

func init() {
	register(&Prop{
		ID: "C02", Level: "exploration",
		Rule:          "enumerated: every sequence of 1-3 rule kinds (155) x {no action, next at rule i, exit at rule i} x 4 root shapes (array, object with array member, scalar, empty array) x {1,2} values x {0,2} selectors; sampled: 1-8 rules in random source order, 1-3 files x 0-3 values (9 root shapes, varied separators) x 0-3 selectors, patterns of every truth value, bodies printing tag/$file/$index/$, next/exit placed unconditionally and data-dependent, rules without body. a third of the cases with >= 2 selectors get a selector that prints, fails or exits when evaluated (selectors are evaluated one by one, each when its turn comes). Oracle: stdout trace and the sequence of rule activations (hook verifRule) vs the schedule model of DESIGN 3.7; with one input file also the root left for -o after the run (exit in BEGINFILE included). 4 runs of the binary with a named pipe that never gets a writer among the operands: exit in BEGIN / in a rule or ENDFILE of an earlier file ends the run (verdict from the process state via /proc: exited, or asleep without using CPU). Non-trivial = at least 2 rule activations (sampled: >= 2 kinds active and a pattern rule); distinct by configuration + program text. 90 two-value files under a limit of 32 open descriptors.",
		NumCases:      c02Cases,
		Run:           c02Run,
		MinConclusive: func(tier string) int { return 20000 },
		Exhaustive: func(tier string) string {
			return "rule-kind sequences of length <= 3 x action placement x root shape x values x selectors (17360 configurations)"
		},
		Assumptions: []string{"schedule of DESIGN.md section 3.7", "$index on non-array roots, next outside pattern rules and $ in ENDFILE after BEGINFILE reassigns it are unspecified ([P]) and not generated"},
	})
}
