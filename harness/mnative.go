package main

// Reference model, part 3: methods, builtins, printf (DESIGN §3.10, §3.12).

import (
	"bytes"
	"encoding/json"
	"math"
	"sort"
	"strings"
	"unicode"
	"unicode/utf8"
)

const jsonOpen, jsonClose = "\x01J", "\x02"

// refSplit: the pieces between non-overlapping left-to-right occurrences of sep;
// empty sep: one piece per UTF-8 character.
func refSplit(s, sep string) []string {
	var out []string
	if sep == "" {
		for i := 0; i < len(s); {
			_, w := utf8.DecodeRuneInString(s[i:])
			out = append(out, s[i:i+w])
			i += w
		}
		return out
	}
	start := 0
	for i := 0; i+len(sep) <= len(s); {
		if s[i:i+len(sep)] == sep {
			out = append(out, s[start:i])
			i += len(sep)
			start = i
		} else {
			i++
		}
	}
	out = append(out, s[start:])
	return out
}

func refCase(s string, upper bool) string {
	var sb strings.Builder
	for i := 0; i < len(s); {
		r, size := utf8.DecodeRuneInString(s[i:])
		switch {
		case r == utf8.RuneError && size == 1:
			sb.WriteByte(s[i]) // not a character: kept as it is
		case upper:
			sb.WriteRune(unicode.ToUpper(r))
		default:
			sb.WriteRune(unicode.ToLower(r))
		}
		i += size
	}
	return sb.String()
}

func refRound(x float64) float64 {
	t := math.Trunc(x)
	if math.Abs(x-t) >= 0.5 {
		return t + math.Copysign(1, x)
	}
	return t
}

func (m *Model) jsonText(v Val) string {
	g, err := m.toGo(v, nil)
	if err != "" {
		m.fail("error creating JSON: " + err)
	}
	var buf bytes.Buffer
	enc := json.NewEncoder(&buf)
	enc.SetEscapeHTML(true)
	enc.SetIndent("", "  ")
	if e := enc.Encode(g); e != nil {
		m.fail("error creating JSON")
	}
	return strings.TrimSuffix(buf.String(), "\n")
}

func (m *Model) callNative(callee Val, args []Val, recvExpr Expr) (Val, bool) {
	name := callee.S
	m.stats["native:"+name]++
	switch name {
	case "printf":
		m.printf(args)
		return mNull(), false
	case "json":
		if len(args) != 1 {
			m.fail("expected 1 argument(s)")
		}
		s := m.jsonText(args[0])
		return Val{K: KStr, S: s, J: true}, false
	case "num":
		if len(args) != 1 {
			m.fail("expected 1 argument(s)")
		}
		if args[0].K == KNum && args[0].N == math.Trunc(args[0].N) && !math.IsInf(args[0].N, 0) {
			return mNum(args[0].N + 0), false // a whole number is that number, however large (null or the number for a fraction is [P])
		}
		if args[0].K != KStr {
			m.tag("pinned:num-of-nonstring")
			if args[0].K == KNum {
				return mNum(math.Trunc(args[0].N)), false
			}
			return mNull(), false
		}
		f, ok, pinned := numericString(args[0].S)
		if pinned {
			m.tag("pinned:numeric-spelling")
		}
		if ok {
			return mNum(f), false
		}
		return mNull(), false
	}
	recv := *callee.Recv
	resizeCheck := func() {
		if recv.A.shared || recvExpr == nil || !isLocation(recvExpr) {
			m.tag("alias_resize")
		}
	}
	switch name {
	case "array.length":
		if len(args) > 0 {
			m.tag("pinned:surplus-args")
		}
		return mNum(float64(len(recv.A.E))), false
	case "array.push":
		if len(args) != 1 {
			m.fail("expected 1 argument(s)")
		}
		resizeCheck()
		s := &Slot{}
		m.store(s, args[0], false)
		recv.A.E = append(recv.A.E, s)
		return recv, false
	case "array.pop":
		if len(args) != 0 {
			m.fail("expected 0 argument(s)")
		}
		if len(recv.A.E) == 0 {
			return mNull(), false
		}
		resizeCheck()
		v := recv.A.E[len(recv.A.E)-1].V
		recv.A.E = recv.A.E[:len(recv.A.E)-1]
		return v, false
	case "array.popfirst":
		if len(args) != 0 {
			m.fail("expected 0 argument(s)")
		}
		if len(recv.A.E) == 0 {
			return mNull(), false
		}
		resizeCheck()
		v := recv.A.E[0].V
		recv.A.E = append([]*Slot(nil), recv.A.E[1:]...)
		return v, false
	case "array.contains":
		if len(args) != 1 {
			m.fail("expected 1 argument(s)")
		}
		for _, e := range recv.A.E {
			if e.V.K == KUnset || args[0].K == KUnset {
				continue // contains agrees with ==, and == is false when either side is unset
			}
			if m.compare(args[0], e.V) == 0 {
				return mBool(true), false
			}
		}
		return mBool(false), false
	case "array.sort":
		if len(args) > 0 {
			m.tag("pinned:surplus-args")
		}
		allNum := true
		for _, e := range recv.A.E {
			if e.V.K != KNum {
				allNum = false
			}
		}
		cp := newMArr()
		for _, e := range recv.A.E {
			s := &Slot{}
			v := e.V
			if v.K == KFunc || v.K == KNative {
				m.tag("pinned:sort-function-element")
			}
			if v.K == KArr {
				v.A.shared = true
			}
			s.V = v
			cp.E = append(cp.E, s)
		}
		if allNum {
			for _, e := range cp.E {
				if math.IsNaN(e.V.N) {
					m.tag("pinned:nonfinite")
				}
			}
			sort.SliceStable(cp.E, func(i, j int) bool { return cp.E[i].V.N < cp.E[j].V.N })
		} else {
			key := func(v Val) string {
				switch v.K {
				case KStr:
					return v.S
				case KNum:
					return fmtNum(v.N)
				}
				return ""
			}
			sort.SliceStable(cp.E, func(i, j int) bool { return key(cp.E[i].V) < key(cp.E[j].V) })
		}
		return mArrVal(cp), true
	case "object.length":
		if len(args) > 0 {
			m.tag("pinned:surplus-args")
		}
		return mNum(float64(len(recv.O.Keys))), false
	case "object.pluck":
		o := newMObj()
		for _, a := range args {
			var k string
			switch a.K {
			case KStr:
				k = a.S
			case KNum:
				m.tag("pinned:numeric-object-key")
				k = fmtNum(a.N)
			default:
				m.tag("pinned:object-key-kind")
				m.fail("bad key")
			}
			v := mNull()
			if s, ok := recv.O.M[k]; ok {
				v = s.V
				if v.K == KArr {
					v.A.shared = true
				}
			}
			o.Set(k, v)
		}
		return mObjVal(o), true
	case "string.length":
		if len(args) > 0 {
			m.tag("pinned:surplus-args")
		}
		return mNum(float64(len(recv.S))), false
	case "string.split":
		if len(args) < 1 || args[0].K != KStr {
			m.fail("split needs a string separator")
		}
		if len(args) > 1 {
			m.tag("pinned:surplus-args")
		}
		if args[0].S == "" && !utf8.ValidString(recv.S) {
			m.tag("pinned:invalid-utf8")
		}
		a := newMArr()
		for _, p := range refSplit(recv.S, args[0].S) {
			a.E = append(a.E, &Slot{V: mStr(p)})
		}
		return mArrVal(a), true
	case "string.upper", "string.lower":
		if len(args) > 0 {
			m.tag("pinned:surplus-args")
		}
		return mStr(refCase(recv.S, name == "string.upper")), false
	case "number.floor", "number.ceil", "number.round":
		if len(args) > 0 {
			m.tag("pinned:surplus-args")
		}
		x := recv.N
		if math.IsInf(x, 0) || math.IsNaN(x) {
			m.tag("pinned:nonfinite")
		}
		switch name {
		case "number.floor":
			return mNum(math.Floor(x)), false
		case "number.ceil":
			return mNum(math.Ceil(x)), false
		}
		return mNum(refRound(x)), false
	}
	panic("model: unknown native " + name)
}

func isDigit(b byte) bool { return b >= '0' && b <= '9' }

// refPrintf formats per §3.12; ok=false means runtime error (nothing written).
func (m *Model) refPrintf(args []Val) (string, bool) {
	if len(args) < 1 || args[0].K != KStr {
		return "", false
	}
	f := args[0].S
	var sb strings.Builder
	ai := 1
	for i := 0; i < len(f); i++ {
		c := f[i]
		if c != '%' {
			sb.WriteByte(c)
			continue
		}
		i++
		if i >= len(f) {
			return "", false
		}
		width, neg, zero, hasWidth := 0, false, false, false
		if isDigit(f[i]) || f[i] == '-' {
			hasWidth = true
			j := i
			if f[j] == '-' {
				neg = true
				j++
			}
			ds := j
			for j < len(f) && isDigit(f[j]) {
				j++
			}
			digits := f[ds:j]
			if digits == "" {
				return "", false // width that is only '-'
			}
			if len(digits) > 6 {
				// certainly beyond the limit (leading zeros aside)
				trim := strings.TrimLeft(digits, "0")
				if len(trim) > 6 {
					return "", false
				}
			}
			for _, d := range digits {
				width = width*10 + int(d-'0')
				if width > 100000000 {
					break
				}
			}
			if width > 65536 {
				return "", false
			}
			if !neg && digits[0] == '0' {
				zero = true
			}
			if neg && digits[0] == '0' {
				m.tag("pinned:printf-neg-zero-width")
			}
			i = j
			if i >= len(f) {
				return "", false
			}
		}
		var r string
		switch f[i] {
		case '%':
			if hasWidth {
				m.tag("pinned:printf-width-percent")
			}
			sb.WriteByte('%')
			continue
		case 's':
			if ai >= len(args) || args[ai].K != KStr {
				return "", false
			}
			r = args[ai].S
			if args[ai].J {
				if width > 0 {
					m.tag("pinned:json-format")
				} else {
					r = jsonOpen + r + jsonClose
				}
			}
			ai++
		case 'f':
			if ai >= len(args) || args[ai].K != KNum {
				return "", false
			}
			r = m.str(args[ai])
			ai++
		case 'v':
			if ai >= len(args) {
				return "", false
			}
			r = m.pretty(args[ai], false, nil)
			if args[ai].J && width > 0 {
				m.tag("pinned:json-format")
				r = args[ai].S
			}
			ai++
		default:
			return "", false
		}
		if len(r) < width {
			pad := " "
			if zero {
				pad = "0"
			}
			if neg {
				r = r + strings.Repeat(pad, width-len(r))
			} else {
				r = strings.Repeat(pad, width-len(r)) + r
			}
		}
		sb.WriteString(r)
	}
	return sb.String(), true
}

func (m *Model) printf(args []Val) {
	s, ok := m.refPrintf(args)
	if !ok {
		m.fail("printf error")
	}
	m.out.WriteString(s)
}
