package main

// C13 — a program's meaning depends only on its tokens, not layout, comments or quoting.

import (
	"fmt"
	"strings"
)

var c13Keywords = []string{"BEGIN", "END", "BEGINFILE", "ENDFILE", "print", "function", "return", "if", "else", "for", "while", "in", "match", "true", "false", "break", "continue", "next", "exit", "null", "is"}

// glueLayout writes the tokens with a single space everywhere except gaps listed in glue
// (or every gap that allows it when all is set), where nothing is written.
func glueLayout(rd *Rendered, glue map[int]bool, all bool) (string, int) {
	var sb strings.Builder
	n := 0
	for i := range rd.Toks {
		t := &rd.Toks[i]
		sep := " "
		switch t.Gap {
		case GapStart:
			sep = ""
		case GapStmt, GapStmtBrace, GapTop:
			sep = "\n"
		}
		if i > 0 && (t.Gap == GapFree || t.Gap == GapNoNL) && (all || glue[i]) && !needSep(&rd.Toks[i-1], t) {
			sep = ""
			n++
		}
		sb.WriteString(sep)
		t.Off = sb.Len()
		sb.WriteString(tokText(t, '\''))
		t.End = sb.Len()
	}
	sb.WriteString("\n")
	return sb.String(), n
}

func tokClass(t *Tok) string {
	switch t.Kind {
	case TWord:
		for _, k := range c13Keywords {
			if k == t.Text {
				return "kw:" + k
			}
		}
		if strings.HasPrefix(t.Text, "$") {
			return "dollar-name"
		}
		return "name"
	case TNum:
		if strings.Contains(t.Text, ".") {
			return "number-frac"
		}
		return "number-int"
	case TStr:
		return "string"
	case TRegex:
		return "regex"
	case TPunct:
		return "op:" + t.Text
	}
	return "raw"
}

type c13Prog struct {
	p    *Program
	doc  []byte
	kind string
}

func c13Corpus() []*Program {
	a, b, x := V("a"), V("b"), V("x")
	un := func(op string, e Expr) Expr { return &Unary{Op: op, X: e} }
	fn := &Func{Name: "f", Params: []string{"p", "q"}, Body: Blk(&If{C: Bin(">", V("p"), N("1")), Then: &Return{X: Bin("-", V("p"), N("1"))}}, &Return{X: Bin("+", Bin("*", V("p"), N("2")), V("q"))})}
	p1 := &Program{Items: []any{fn, &Rule{Kind: "BEGIN", Body: Blk(
		asg(a, N("3")), asg(b, N("2.5")), asg(x, Arr(N("1"), N("2"), N("3"))),
		Pr(Bin("-", N("3"), N("1")), Bin("-", a, N("1")), Bin("*", N("2"), un("-", N("3"))), Bin("-", Bin("-", N("1"), N("1")), N("1"))),
		asg(V("y"), Bin("-", N("5"), N("2"))), Pr(V("y"), Bin("-", N("0"), N("2.5")), Meth(N("2.5"), "round"), Meth(N("7"), "floor"), un("-", Meth(N("2.5"), "floor")), Bin("+", Bin("*", N("3"), un("-", Meth(N("1.5"), "ceil"))), N("10")), Mem(Idx(Arr(N("0"), obj1("k", N("9"))), N("1")), "k")),
		Pr(Bin("+", a, b), Bin("-", a, b), Bin("*", a, b), Bin("/", a, b), Bin("%", a, N("2")), Bin("==", a, b), Bin("!=", a, b), Bin("<", a, b), Bin("<=", a, b), Bin(">", a, b), Bin(">=", a, b)),
		Pr(Bin("&&", a, b), Bin("||", N("0"), b), un("!", a), un("-", a), un("+", S("4")), Bin("~", S("abc"), &RegexLit{Pat: "b+"}), Bin("!~", S("abc"), S("^z")), &IsExpr{X: a, T: "number"}),
		// a regex whose first character is '=' (its first two bytes spell the operator /=)
		asg(V("re"), &RegexLit{Pat: "=+"}), Pr(Bin("~", S("a=b"), &RegexLit{Pat: "=b"}), Bin("!~", S("ab"), &RegexLit{Pat: "="}), Bin("~", S("=="), V("re")), Arr(&RegexLit{Pat: "=1"}, &RegexLit{Pat: "==2"})),
		ES(&Assign{Op: "+=", L: a, R: N("1")}), ES(&Assign{Op: "-=", L: a, R: N("1")}), ES(&Assign{Op: "*=", L: a, R: N("2")}), ES(&Assign{Op: "/=", L: a, R: N("2")}),
		ES(&IncDec{Op: "++", X: a}), ES(&IncDec{Op: "--", X: a}), asg(V("z"), &IncDec{Op: "++", Prefix: true, X: b}), asg(V("w"), &IncDec{Op: "--", Prefix: true, X: b}),
		Pr(a, b, V("z"), V("w"), CallE(V("f"), a, N("1")), CallE(V("f"), N("0"), un("-", N("1"))), Idx(x, un("-", N("1"))), Idx(x, Bin("-", N("2"), N("1")))),
		&ForIn{V: "e", V2: "i", It: x, Body: Blk(&If{C: Bin("==", V("e"), N("2")), Then: &Continue{}}, Pr(V("i"), V("e")))},
		&For{Pre: Asg(V("k"), N("0")), C: Bin("<", V("k"), N("3")), Post: &IncDec{Op: "++", X: V("k")}, Body: Blk(&If{C: Bin(">", V("k"), N("1")), Then: &Break{}}, Pr(S("k"), V("k")))},
		asg(V("n"), N("0")), &While{C: Bin("<", V("n"), N("2")), Body: Blk(ES(&IncDec{Op: "++", X: V("n")}), Pr(S("n"), V("n")))},
		Pr(&MatchExpr{Subj: Arr(N("1"), N("2")), Cases: []*MatchCase{{Pats: []Expr{Arr(N("1"), V("m"))}, Body: Bin("+", V("m"), N("1"))}, {Pats: []Expr{V("_")}, Block: Blk(Pr(S("other")))}}}),
		asg(V("o"), &ObjectLit{Keys: []string{"k", "q r"}, Quoted: []bool{false, true}, Vals: []Expr{N("1"), &NullLit{}}}), Pr(Mem(V("o"), "k"), Idx(V("o"), S("q r")), &BoolLit{V: true}, &BoolLit{V: false}, &NullLit{}),
		ES(CallE(V("printf"), S("%5s|%-4f|%v\\n"), S("ab"), N("1.5"), Arr(N("1")))),
		&If{C: a, Then: Pr(S("then")), Else: Pr(S("else"))},
	)}}}
	p2 := &Program{Items: []any{
		&Rule{Kind: "BEGINFILE", Body: Blk(Pr(S("bf"), V("$file")))},
		&Rule{Kind: "pattern", Pattern: Bin(">", Mem(V("$"), "n"), N("1")), Body: Blk(Pr(V("$index"), Mem(V("$"), "n"), Meth(Mem(V("$"), "s"), "upper")), &If{C: Bin("==", Mem(V("$"), "n"), N("3")), Then: &Next{}}, Pr(S("after")))},
		&Rule{Kind: "pattern", Body: Blk(&If{C: Bin("==", V("$index"), N("3")), Then: &Exit{}})},
		&Rule{Kind: "pattern", Pattern: Bin("~", Mem(V("$"), "s"), &RegexLit{Pat: "^a"})},
		&Rule{Kind: "pattern", Pattern: Bin("~", Bin("+", Mem(V("$"), "s"), S("=")), &RegexLit{Pat: "=$"}), Body: Blk(Pr(S("eq")))},
		&Rule{Kind: "ENDFILE", Body: Blk(Pr(S("ef")))},
		&Rule{Kind: "END", Body: Blk(Pr(S("end")))},
	}}
	return []*Program{p1, p2}
}

var c13CorpusDoc = []byte(`[{"n":1,"s":"ab"},{"n":2,"s":"ba"},{"n":3,"s":"ac"},{"n":4,"s":"zz"},{"n":5,"s":"a"}]`)

type runSig struct {
	class  string
	stdout string
}

func sigOf(o *Outcome) runSig { return runSig{o.Class, string(o.Stdout)} }

// ---- enumerated: glue one gap at a time (every adjacent token pair of the corpus)
func c13Adjacency(c *Case) {
	for pi, p := range c13Corpus() {
		rd := RenderProgram(p, ParenMinimal, nil)
		canon, _ := rd.Layout(nil)
		files := []InFile{{Name: "in.json", Data: c13CorpusDoc}}
		ref := sigOf(RunLib(canon, files, nil, RunOpts{}))
		if ref.class != "ok" {
			c.Violation(fmt.Sprintf("corpus program %d does not run in the canonical layout: %s | %s", pi, ref.class, clip(canon, 200)), nil, map[string]any{"program": canon})
			continue
		}
		// cross-check the canonical run against the model
		m2(c, &M2Case{Prog: p, Text: canon, Files: files, Desc: fmt.Sprintf("corpus program %d", pi)})
		for i := 1; i < len(rd.Toks); i++ {
			t := &rd.Toks[i]
			if (t.Gap != GapFree && t.Gap != GapNoNL) || needSep(&rd.Toks[i-1], t) {
				continue
			}
			text, _ := glueLayout(rd, map[int]bool{i: true}, false)
			pair := tokClass(&rd.Toks[i-1]) + " | " + tokClass(t)
			c.NonTrivial("pair:" + pair)
			c.Count("adjacent_pairs_glued")
			got := sigOf(RunLib(text, files, nil, RunOpts{}))
			if got == ref {
				c.Held()
			} else {
				c.Violation(fmt.Sprintf("writing %q directly before %q (no space) changes the program: %s %q vs canonical %s %q", tokText(&rd.Toks[i-1], '\''), tokText(t, '\''), got.class, clip(got.stdout, 60), ref.class, clip(ref.stdout, 60)),
					nil, map[string]any{"program": text, "canonical": canon, "pair": pair})
			}
		}
		text, n := glueLayout(rd, nil, true)
		c.CountN("gaps_glued_in_fully_glued_layout", n)
		got := sigOf(RunLib(text, files, nil, RunOpts{}))
		if got == ref {
			c.Held()
		} else {
			c.Violation(fmt.Sprintf("the layout without any optional white space changes corpus program %d: %s %q vs %s %q", pi, got.class, clip(got.stdout, 60), ref.class, clip(ref.stdout, 60)), nil, map[string]any{"program": text})
		}
	}
}

// ---- enumerated: literal and identifier forms (M2)
func c13Literals(c *Case) {
	run := func(key string, p *Program, text string) {
		c.NonTrivial("lit:" + key)
		c.Count("literal_forms")
		m2(c, &M2Case{Prog: p, Text: text, Desc: "literal form " + key})
	}
	begin := func(st ...Stmt) *Program {
		return &Program{Items: []any{&Rule{Kind: "BEGIN", Body: &Block{Stmts: st}}}}
	}
	// every byte 0x01-0xFF inside either quote style (control bytes, tab, CR and LF included: a literal may span lines),
	// and sequences of line-end bytes
	seqs := []string{"\r\n", "\n\r", "\r\r\n", "a\r\nb\r\nc", "\t\n", "\n\n", "\r", " \r\n ", "\r\n#not a comment\r\n"}
	for b := 0x01; b <= 0xff+len(seqs); b++ {
		if b == '\\' {
			continue
		}
		raw := "x" + string([]byte{byte(b)}) + "y"
		if b > 0xff {
			raw = "x" + seqs[b-0x100] + "y"
		}
		p := begin(Pr(S(raw)), Pr(Meth(S(raw), "length")))
		rd := RenderProgram(p, ParenMinimal, nil)
		for _, q := range []byte{'\'', '"'} {
			if b <= 0xff && byte(b) == q {
				continue
			}
			var sb strings.Builder
			for i := range rd.Toks {
				if i > 0 {
					if g := rd.Toks[i].Gap; g == GapStmt || g == GapStmtBrace || g == GapTop {
						sb.WriteString("\n")
					} else {
						sb.WriteString(" ")
					}
				}
				sb.WriteString(tokText(&rd.Toks[i], q))
			}
			run(fmt.Sprintf("byte %#02x quote %c", b, q), p, sb.String())
		}
	}
	// escapes: \n \t \\ are processed; anything else is an error when (and only when) evaluated
	for _, e := range []string{"café\\tau lait", "日\\n本", "é\\\\é", "a\\n😀", "\\tß", "\\n", "\\t", "\\\\", "a\\nb\\tc\\\\d", "\\a", "\\q", "\\0", "\\'", "\\\"", "\\x41", "\\u00e9", "trailing\\", "\\ "} {
		if strings.Contains(e, "'") {
			continue
		}
		run("escape "+e, begin(Pr(S("pre")), Pr(S(e)), Pr(S("post"))), "")
		run("skipped escape "+e, begin(&If{C: N("0"), Then: Blk(Pr(S(e)))}, Pr(S("post"))), "")
	}
	// quoted keys of object literals are string literals too
	for _, k := range []string{"a\\tb", "x\\\\y", "line\\nbreak", "plain", "é\\té", "a\\qb", "tail\\", "\\0"} {
		if strings.Contains(k, "'") {
			continue
		}
		o := &ObjectLit{Keys: []string{k, "other"}, Quoted: []bool{true, false}, Vals: []Expr{N("1"), N("2")}}
		run("quoted key "+k, begin(Pr(S("pre")), asg(V("o"), o), Pr(Idx(V("o"), S(k)), Meth(V("o"), "length")), &ForIn{V: "kk", It: V("o"), Body: Blk(Pr(V("kk"), Meth(V("kk"), "length")))}, Pr(jsonOf(V("o")))), "")
		run("skipped quoted key "+k, begin(&If{C: N("0"), Then: Blk(asg(V("o"), o))}, Pr(S("post"))), "")
	}
	// numbers
	for _, n := range []string{"0", "007", "1.50", "0.5", "10", "123456789012345678901234567890", "9007199254740993", "0.000001", "00.10", "3.14159265358979323846"} {
		run("number "+n, begin(Pr(N(n)), Pr(Bin("+", N(n), N("1")))), "")
	}
	// identifiers built from keywords
	for _, kw := range c13Keywords {
		for _, name := range []string{kw + "x", "x" + kw, kw + "1", kw + "_", "_" + kw, kw + kw} {
			run("name "+name, begin(asg(V(name), N("7")), Pr(V(name), Bin("+", V(name), N("1"))), &If{C: V(name), Then: Pr(S("truthy"))}), "")
		}
	}
}

func c13Random(c *Case) {
	rng := c.Rng
	var p *Program
	var doc []byte
	kind := ""
	switch rng.IntN(5) {
	case 0:
		g := &funcGen{rng: rng, stats: map[string]int{}}
		p, doc = g.Program()
		kind = "functions"
	case 1:
		// assignment histories: member / index chains, object and array literals, json(), compound assignment
		g := &asgGen{rng: rng, assigned: map[string]bool{}, stats: map[string]int{}, allowTag: noPinned}
		d := map[string]any{"a": g.genDocVal(2), "list": g.genDocVal(2), "b": g.genDocVal(2)}
		p = c09Program(g.history(3+rng.IntN(8), d))
		doc = jsonBytes(d)
		kind = "assignments"
	case 2:
		mg := &matchGen{rng: rng, stats: map[string]int{}}
		target := mg.subject(2)
		cases, _, _ := mg.cases(target, false)
		p = &Program{Items: []any{&Rule{Kind: "pattern", Body: Blk(Pr(S("value"), jsonOf(&MatchExpr{Subj: V("$"), Cases: cases})))}}}
		doc = jsonBytes([]any{target, mg.subject(2), mg.subject(1)})
		kind = "match"
	default:
		g := newStructGen(rng, sgOpts{MaxDepth: 1 + rng.IntN(4), Funcs: rng.IntN(2) == 0, Signals: true, Exit: true, MultiRule: true, NonASCII: true})
		p, doc = g.Program()
		kind = "structured"
	}
	rd := RenderProgram(p, ParenMinimal, nil)
	if rd.LeadBad {
		c.Inconclusive("generator-discipline")
		return
	}
	files := []InFile{{Name: "in.json", Data: doc}}
	if rng.IntN(4) == 0 {
		// the commas between object members and between match cases are optional: leave some out (this is another
		// token sequence, used only when it parses; its layouts must agree with each other like any other program's)
		var toks []Tok
		dropped := 0
		for _, t := range rd.Toks {
			if t.Opt && rng.IntN(2) == 0 {
				dropped++
				continue
			}
			toks = append(toks, t)
		}
		if dropped > 0 {
			// whether this sequence is a program at all is for the parser to say - but it must say the same for every layout
			rd.Toks = toks
			c.Count("programs_with_optional_commas_left_out")
			kind += "+comma-less"
		}
	}
	canon, _ := rd.Layout(nil)
	ref := RunLib(canon, files, nil, RunOpts{})
	if ref.Class == "budget" {
		c.Inconclusive("budget")
		return
	}
	if ref.Class == "syntax" && strings.HasSuffix(kind, "+comma-less") {
		c.Count("comma-less_sequences_that_are_not_programs")
	} else if ref.Class == "syntax" || ref.Class == "panic" {
		c.Violation("generated program does not parse in the canonical layout: "+ref.Msg+" | "+clip(canon, 200), nil, map[string]any{"program": canon})
		return
	}
	k := 6
	if c.Tier == "thorough" {
		k = 12
	}
	c.Count("programs:" + kind)
	for i := 0; i < k; i++ {
		text, st := rd.Layout(rng)
		got := RunLib(text, files, nil, RunOpts{})
		if got.Class == "budget" {
			c.Inconclusive("budget")
			continue
		}
		c.CountN("separators:newline", st.Newlines)
		c.CountN("separators:comment", st.Comments)
		c.CountN("separators:glued", st.Glued)
		c.CountN("separators:semicolon", st.Semis)
		if st.Changed >= 3 && (st.Newlines > 0 || st.Comments > 0 || st.Glued > 0) {
			c.NonTrivial(text)
		}
		if got.Class == ref.Class && string(got.Stdout) == string(ref.Stdout) {
			c.Held()
			continue
		}
		c.Violation(fmt.Sprintf("two layouts of one token sequence behave differently: canonical %s %q, other layout %s (%s) %q", ref.Class, clip(string(ref.Stdout), 50), got.Class, got.Msg, clip(string(got.Stdout), 50)),
			nil, map[string]any{"canonical": canon, "layout": text, "input": string(doc)})
		if got.Class == "syntax" {
			c.Note(fmt.Sprintf("property=C13 case=%d layout-induced syntax error on line %d: %q", c.Idx, got.Line, clip(got.SrcLine, 80)))
		}
		break
	}
	if c.Idx%3000 == 5 {
		text, _ := rd.Layout(rng)
		c.Sample(map[string]any{"canonical": clip(canon, 600), "one_random_layout": clip(text, 800)})
	}
}

func c13Cases(tier string) int {
	if tier == "thorough" {
		return 2 + 300000
	}
	return 2 + 10000
}

func init() {
	register(&Prop{
		ID: "C13", Level: "exploration",
		Rule:     "metamorphic: a generated program (structured programs and function programs, as token sequences) is run in the canonical layout (one space between tokens, one statement per line, single quotes) and in 6 (thorough 12) random layouts of the same tokens: between tokens nothing (where a table says they cannot fuse) / spaces / tabs / CR / comment+newline / newlines, except no newline after print/return, after a print-list comma or before ';'; statement-separating newlines replaced by ';' unless the statement ends in '}'; either quote style; in a quarter of the programs some of the optional commas (between object members, between match cases) are left out. stdout and outcome must be identical. Enumerated: every adjacent token pair of a two-program corpus using all operators and keywords written without a space, one gap at a time and all at once; literal slice vs the model: every byte 0x01-0xFF (control bytes, CR, LF included) and 9 sequences of line-end bytes inside a string literal in both quote styles, the three escapes (also next to non-ASCII characters in one literal) and 10 non-escapes (error only when evaluated), quoted object keys with escapes (processed like any string literal, bad ones an error when evaluated), number spellings incl. 30 digits and leading zeros, 126 identifiers built from keywords. Non-trivial = layout differing from canonical in >= 3 gaps incl. a newline, comment or removed space; distinct by text. The corpus holds regex literals whose first character is = (after ~, !~, =, [ and ,). 8 quoted object keys with escapes x {evaluated, skipped}: a quoted key is a string literal.",
		NumCases: c13Cases,
		Run: func(c *Case) {
			switch c.Idx {
			case 0:
				c13Adjacency(c)
				round8Hand(c, "C13")
			case 1:
				c13Literals(c)
			default:
				c13Random(c)
			}
		},
		MinConclusive: func(tier string) int { return 5000 },
		Exhaustive:    func(tier string) string { return "adjacent token pairs of the corpus; literal/identifier form table" },
		Assumptions:   []string{"lexical rules of DESIGN.md section 3.14; the cannot-fuse table is conservative (it adds a space when in doubt)", "generated programs never start a statement with a token that could continue the previous expression"},
	})
}
