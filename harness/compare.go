package main

// Monitor M2 (trace-vs-model comparator) and M7 (JSON equality).

import (
	"bytes"
	"encoding/json"
	"fmt"
	"io"
	"math"
	"reflect"
	"sort"
	"strings"
)

// jsonEqual: deep equality of decoded JSON with float64 bit equality (−0 ≠ 0 is not
// distinguished: encoding/json writes -0 as "-0" and reads it back, so bits are kept).
func jsonEqual(a, b any) bool {
	switch x := a.(type) {
	case float64:
		y, ok := b.(float64)
		return ok && (x == y || math.Float64bits(x) == math.Float64bits(y))
	case []any:
		y, ok := b.([]any)
		if !ok || len(x) != len(y) {
			return false
		}
		for i := range x {
			if !jsonEqual(x[i], y[i]) {
				return false
			}
		}
		return true
	case map[string]any:
		y, ok := b.(map[string]any)
		if !ok || len(x) != len(y) {
			return false
		}
		for k, v := range x {
			w, ok := y[k]
			if !ok || !jsonEqual(v, w) {
				return false
			}
		}
		return true
	}
	return reflect.DeepEqual(a, b)
}

// firstDiffPath names the first differing path of two decoded JSON values.
func firstDiffPath(a, b any, path string) string {
	switch x := a.(type) {
	case []any:
		y, ok := b.([]any)
		if !ok {
			return path
		}
		for i := 0; i < len(x) && i < len(y); i++ {
			if !jsonEqual(x[i], y[i]) {
				return firstDiffPath(x[i], y[i], fmt.Sprintf("%s[%d]", path, i))
			}
		}
		if len(x) != len(y) {
			return fmt.Sprintf("%s (length %d vs %d)", path, len(x), len(y))
		}
	case map[string]any:
		y, ok := b.(map[string]any)
		if !ok {
			return path
		}
		ks := make([]string, 0, len(x))
		for k := range x {
			ks = append(ks, k)
		}
		sort.Strings(ks)
		for _, k := range ks {
			w, ok := y[k]
			if !ok {
				return path + "." + k + " (missing)"
			}
			if !jsonEqual(x[k], w) {
				return firstDiffPath(x[k], w, path+"."+k)
			}
		}
		for k := range y {
			if _, ok := x[k]; !ok {
				return path + "." + k + " (extra)"
			}
		}
	}
	return path
}

func decodeOne(b []byte) (any, int, error) {
	d := json.NewDecoder(bytes.NewReader(b))
	var v any
	if err := d.Decode(&v); err != nil {
		return nil, 0, err
	}
	return v, int(d.InputOffset()), nil
}

func decodeAll(b []byte) ([]any, error) {
	d := json.NewDecoder(bytes.NewReader(b))
	var out []any
	for {
		var v any
		err := d.Decode(&v)
		if err == io.EOF {
			return out, nil
		}
		if err != nil {
			return out, err
		}
		out = append(out, v)
	}
}

// sameLinesOrderFree: line by line equal up to a permutation of the bytes of a line (object
// renderings that differ in key order only).
func sameLinesOrderFree(a, b string) bool {
	if len(a) != len(b) {
		return false
	}
	el, al := strings.Split(a, "\n"), strings.Split(b, "\n")
	perLine := len(el) == len(al)
	for i := 0; perLine && i < len(el); i++ {
		if el[i] != al[i] && sortedBytes(el[i]) != sortedBytes(al[i]) {
			perLine = false
		}
	}
	// strings with embedded newlines move between lines when keys are reordered
	return perLine || sortedBytes(a) == sortedBytes(b)
}

func sortedBytes(s string) string {
	b := []byte(s)
	sort.Slice(b, func(i, j int) bool { return b[i] < b[j] })
	return string(b)
}

// compareOut compares the model's expected stdout (which may contain JSON segments
// between jsonOpen/jsonClose) with the actual bytes.
func compareOut(exp string, act []byte, orderFree bool) (bool, string) {
	if !strings.Contains(exp, jsonOpen) {
		if exp == string(act) {
			return true, ""
		}
		if orderFree && sameLinesOrderFree(exp, string(act)) {
			return true, ""
		}
		return false, diffAt(exp, string(act))
	}
	pos := 0
	rest := exp
	for {
		i := strings.Index(rest, jsonOpen)
		lit := rest
		if i >= 0 {
			lit = rest[:i]
		}
		if orderFree && pos+len(lit) <= len(act) && string(act[pos:pos+len(lit)]) != lit && sameLinesOrderFree(lit, string(act[pos:pos+len(lit)])) {
			// object renderings differ in key order only (which order is unspecified)
		} else if pos+len(lit) > len(act) || string(act[pos:pos+len(lit)]) != lit {
			end := pos + len(lit)
			if end > len(act) {
				end = len(act)
			}
			return false, "literal segment: " + diffAt(lit, string(act[pos:end]))
		}
		pos += len(lit)
		if i < 0 {
			break
		}
		rest = rest[i+len(jsonOpen):]
		j := strings.Index(rest, jsonClose)
		if j < 0 {
			return false, "internal: unterminated JSON segment"
		}
		want, _, err := decodeOne([]byte(rest[:j]))
		if err != nil {
			return false, "internal: model JSON does not parse"
		}
		got, n, err := decodeOne(act[pos:])
		if err != nil {
			return false, fmt.Sprintf("output at byte %d is not JSON (%v): %q", pos, err, clip(string(act[pos:]), 80))
		}
		if !jsonEqual(want, got) {
			return false, "JSON segment differs at " + firstDiffPath(want, got, "$")
		}
		pos += n
		rest = rest[j+len(jsonClose):]
	}
	if pos != len(act) {
		return false, fmt.Sprintf("extra output after expected end: %q", clip(string(act[pos:]), 80))
	}
	return true, ""
}

func clip(s string, n int) string {
	if len(s) > n {
		return s[:n] + "…"
	}
	return s
}

func diffAt(a, b string) string {
	n := len(a)
	if len(b) < n {
		n = len(b)
	}
	i := 0
	for i < n && a[i] == b[i] {
		i++
	}
	lo := i - 30
	if lo < 0 {
		lo = 0
	}
	return fmt.Sprintf("first difference at byte %d: expected %q, got %q", i, clip(a[lo:], 90), clip(b[lo:], 90))
}

// ---------------------------------------------------------------------------

type M2Case struct {
	Prog      *Program
	Text      string // rendered program (if empty: canonical rendering of Prog)
	Files     []InFile
	Selectors []Expr
	SelTexts  []string
	WantRoot  bool
	Budget    int
	CheckM4   bool // frame automaton faults are violations
	Quiet     bool // do not report to the case; the caller decides
	Desc      string
	Replay    map[string]any
}

type M2Result struct {
	Verdict string // held | violated | pinned | budget
	Why     string
	Lib     *Outcome
	Mod     *MOut
}

func stripMarkers(s string) string {
	s = strings.ReplaceAll(s, jsonOpen, "")
	return strings.ReplaceAll(s, jsonClose, "")
}

// m2 runs the real interpreter and the model on the same case and reports to c.
func m2(c *Case, mc *M2Case) *M2Result {
	if mc.Text == "" {
		mc.Text = Canon(mc.Prog)
	}
	if mc.SelTexts == nil {
		for _, s := range mc.Selectors {
			mc.SelTexts = append(mc.SelTexts, CanonExpr(s))
		}
	}
	var minputs []MInput
	for _, f := range mc.Files {
		vals, err := decodeAll(f.Data)
		minputs = append(minputs, MInput{Name: f.Name, Values: vals, Damaged: err != nil})
	}
	mod := RunModel(mc.Prog, minputs, mc.Selectors, ModelOpts{Budget: mc.Budget * 2})
	lib := RunLib(mc.Text, mc.Files, mc.SelTexts, RunOpts{Budget: mc.Budget, WantRoot: mc.WantRoot, TrackNodes: c.Idx%64 == 0})
	res := &M2Result{Lib: lib, Mod: mod}
	for k, v := range lib.NodeKinds {
		c.CountN("impl_node:"+k, v)
	}
	c.Max("impl_max_frame_depth", lib.MaxDepth)

	why := ""
	switch {
	case lib.Class == "panic":
		why = "panic: " + lib.PanicVal
	case lib.Class == "budget" || mod.Class == "budget":
		res.Verdict = "budget"
		if !mc.Quiet {
			c.Inconclusive("budget")
		}
		return res
	case lib.Class != mod.Class:
		why = fmt.Sprintf("outcome %s (%s), model expects %s (%s)", lib.Class, lib.Msg, mod.Class, mod.ErrMsg)
	default:
		ok, d := compareOut(mod.Stdout, lib.Stdout, mod.Tags["objorder"])
		if !ok {
			why = "stdout: " + d
		}
	}
	if why == "" && mc.WantRoot && lib.Class == "ok" && mod.Root != nil {
		why = rootWhy(mod, lib)
	}
	if why == "" && mc.CheckM4 && lib.FrameFault != "" {
		why = "M4: " + lib.FrameFault
	}
	if why == "" {
		res.Verdict = "held"
		if !mc.Quiet {
			c.Held()
		}
		return res
	}
	res.Why = why
	if mod.Pinned() && lib.Class != "panic" {
		res.Verdict = "pinned"
		if mc.Quiet {
			return res
		}
		c.Inconclusive("pinned")
		c.Note(fmt.Sprintf("property=%s case=%d disagreement in pinned territory %v: %s", c.env.Prop.ID, c.Idx, pinnedTags(mod), oneLine(why, 160)))
		return res
	}
	res.Verdict = "violated"
	if mc.Quiet {
		return res
	}
	rp := map[string]any{"program": mc.Text, "selectors": mc.SelTexts, "why": why,
		"expected_stdout": stripMarkers(mod.Stdout), "expected_class": mod.Class,
		"observed_stdout": string(lib.Stdout), "observed_class": lib.Class, "observed_msg": lib.Msg}
	var ins []map[string]string
	for _, f := range mc.Files {
		ins = append(ins, map[string]string{"name": f.Name, "data": string(f.Data)})
	}
	rp["inputs"] = ins
	if lib.Class == "panic" {
		rp["stack"] = lib.Stack
	}
	for k, v := range mc.Replay {
		rp[k] = v
	}
	desc := mc.Desc
	if desc != "" {
		desc += ": "
	}
	tags := mod.TagList()
	if lib.Class == "panic" {
		tags = nil // a crash is never explained by a known finding
	}
	c.Violation(desc+why+" | program: "+clip(mc.Text, 200), tags, rp)
	return res
}

func pinnedTags(m *MOut) []string {
	var ts []string
	for _, t := range m.TagList() {
		if strings.HasPrefix(t, "pinned:") {
			ts = append(ts, t)
		}
	}
	return ts
}

// rootWhy compares the document that -o would write with the model's root ("" = equal).
func rootWhy(mod *MOut, lib *Outcome) string {
	why := ""
	m := &Model{tags: mod.Tags}
	g, gerr := m.toGo(*mod.Root, nil)
	switch {
	case !lib.HasRoot:
		why = "no root document although values were processed"
	case gerr != "":
		if lib.RootErr == "" {
			why = "root document is " + gerr + " but was serialised: " + clip(lib.RootJSON, 80)
		}
	case lib.RootErr != "":
		why = "root document could not be serialised: " + lib.RootErr
	default:
		got, _, err := decodeOne([]byte(lib.RootJSON))
		if err != nil {
			why = "root JSON invalid: " + err.Error()
		} else if !jsonEqual(g, got) {
			why = "root document differs at " + firstDiffPath(g, got, "$")
		}
	}
	return why
}
