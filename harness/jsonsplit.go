package main

// A hand-written splitter of concatenated JSON values, independent of encoding/json
// (used by C03 as the oracle for "which values of this byte string are complete").

type splitValue struct{ start, end int } // [start, end)

type splitResult struct {
	values  []splitValue
	status  string // clean | truncated | damaged
	at      int    // offset of the damage / of the start of the truncated value
	lastEnd int
}

type jsplit struct {
	b   []byte
	pos int
	err string // "" | trunc | bad
}

func isWS(c byte) bool { return c == ' ' || c == '\t' || c == '\n' || c == '\r' }

func (s *jsplit) ws() {
	for s.pos < len(s.b) && isWS(s.b[s.pos]) {
		s.pos++
	}
}

func (s *jsplit) fail(trunc bool) bool {
	if trunc {
		s.err = "trunc"
	} else {
		s.err = "bad"
	}
	return false
}

func (s *jsplit) lit(word string) bool {
	for i := 0; i < len(word); i++ {
		if s.pos >= len(s.b) {
			return s.fail(true)
		}
		if s.b[s.pos] != word[i] {
			return s.fail(false)
		}
		s.pos++
	}
	return true
}

func isHex(c byte) bool {
	return c >= '0' && c <= '9' || c >= 'a' && c <= 'f' || c >= 'A' && c <= 'F'
}

func (s *jsplit) str() bool {
	s.pos++ // opening quote
	for {
		if s.pos >= len(s.b) {
			return s.fail(true)
		}
		c := s.b[s.pos]
		switch {
		case c == '"':
			s.pos++
			return true
		case c == '\\':
			s.pos++
			if s.pos >= len(s.b) {
				return s.fail(true)
			}
			switch s.b[s.pos] {
			case '"', '\\', '/', 'b', 'f', 'n', 'r', 't':
				s.pos++
			case 'u':
				s.pos++
				for k := 0; k < 4; k++ {
					if s.pos >= len(s.b) {
						return s.fail(true)
					}
					if !isHex(s.b[s.pos]) {
						return s.fail(false)
					}
					s.pos++
				}
			default:
				return s.fail(false)
			}
		case c < 0x20:
			return s.fail(false)
		default:
			s.pos++
		}
	}
}

func dig(c byte) bool { return c >= '0' && c <= '9' }

// num: -?(0|[1-9][0-9]*)(\.[0-9]+)?([eE][+-]?[0-9]+)?  — greedy; a number that is cut
// short at the end of the bytes where more digits are required is truncated.
func (s *jsplit) num() bool {
	if s.b[s.pos] == '-' {
		s.pos++
		if s.pos >= len(s.b) {
			return s.fail(true)
		}
	}
	switch {
	case s.b[s.pos] == '0':
		s.pos++
	case s.b[s.pos] >= '1' && s.b[s.pos] <= '9':
		for s.pos < len(s.b) && dig(s.b[s.pos]) {
			s.pos++
		}
	default:
		return s.fail(false)
	}
	if s.pos < len(s.b) && s.b[s.pos] == '.' {
		s.pos++
		if s.pos >= len(s.b) {
			return s.fail(true)
		}
		if !dig(s.b[s.pos]) {
			return s.fail(false)
		}
		for s.pos < len(s.b) && dig(s.b[s.pos]) {
			s.pos++
		}
	}
	if s.pos < len(s.b) && (s.b[s.pos] == 'e' || s.b[s.pos] == 'E') {
		s.pos++
		if s.pos >= len(s.b) {
			return s.fail(true)
		}
		if s.b[s.pos] == '+' || s.b[s.pos] == '-' {
			s.pos++
			if s.pos >= len(s.b) {
				return s.fail(true)
			}
		}
		if !dig(s.b[s.pos]) {
			return s.fail(false)
		}
		for s.pos < len(s.b) && dig(s.b[s.pos]) {
			s.pos++
		}
	}
	return true
}

func (s *jsplit) value(depth int) bool {
	if depth > 9000 {
		return s.fail(false)
	}
	s.ws()
	if s.pos >= len(s.b) {
		return s.fail(true)
	}
	switch c := s.b[s.pos]; {
	case c == '{':
		s.pos++
		s.ws()
		if s.pos >= len(s.b) {
			return s.fail(true)
		}
		if s.b[s.pos] == '}' {
			s.pos++
			return true
		}
		for {
			s.ws()
			if s.pos >= len(s.b) {
				return s.fail(true)
			}
			if s.b[s.pos] != '"' {
				return s.fail(false)
			}
			if !s.str() {
				return false
			}
			s.ws()
			if s.pos >= len(s.b) {
				return s.fail(true)
			}
			if s.b[s.pos] != ':' {
				return s.fail(false)
			}
			s.pos++
			if !s.value(depth + 1) {
				return false
			}
			s.ws()
			if s.pos >= len(s.b) {
				return s.fail(true)
			}
			if s.b[s.pos] == ',' {
				s.pos++
				continue
			}
			if s.b[s.pos] == '}' {
				s.pos++
				return true
			}
			return s.fail(false)
		}
	case c == '[':
		s.pos++
		s.ws()
		if s.pos >= len(s.b) {
			return s.fail(true)
		}
		if s.b[s.pos] == ']' {
			s.pos++
			return true
		}
		for {
			if !s.value(depth + 1) {
				return false
			}
			s.ws()
			if s.pos >= len(s.b) {
				return s.fail(true)
			}
			if s.b[s.pos] == ',' {
				s.pos++
				continue
			}
			if s.b[s.pos] == ']' {
				s.pos++
				return true
			}
			return s.fail(false)
		}
	case c == '"':
		return s.str()
	case c == 't':
		return s.lit("true")
	case c == 'f':
		return s.lit("false")
	case c == 'n':
		return s.lit("null")
	case c == '-' || dig(c):
		return s.num()
	}
	return s.fail(false)
}

// splitStream returns the complete top-level values of b and what follows them.
func splitStream(b []byte) splitResult {
	s := &jsplit{b: b}
	var r splitResult
	for {
		s.ws()
		if s.pos >= len(b) {
			r.status = "clean"
			return r
		}
		start := s.pos
		if !s.value(0) {
			if s.err == "trunc" {
				r.status = "truncated"
			} else {
				r.status = "damaged"
			}
			r.at = start
			return r
		}
		r.values = append(r.values, splitValue{start, s.pos})
		r.lastEnd = s.pos
	}
}
