package main

// C15 — array methods behave like an ideal list under every sequence of operations.

import (
	"fmt"
	"math/rand/v2"
	"strconv"
	"strings"
)

type arrHolder struct {
	name string
	ref  func() Expr // expression naming the array
	init func(items ...Expr) Stmt
}

func c15Holders() []arrHolder {
	return []arrHolder{
		{"variable", func() Expr { return V("a") }, func(it ...Expr) Stmt { return ES(Asg(V("a"), Arr(it...))) }},
		{"document-path", func() Expr { return Mem(V("$"), "items") }, func(it ...Expr) Stmt { return ES(Asg(Mem(V("$"), "items"), Arr(it...))) }},
		{"member", func() Expr { return Mem(V("o"), "list") }, func(it ...Expr) Stmt { return ES(Asg(Mem(V("o"), "list"), Arr(it...))) }},
		{"element", func() Expr { return Idx(V("m"), N("0")) }, func(it ...Expr) Stmt { return ES(Asg(Idx(V("m"), N("0")), Arr(it...))) }},
	}
}

func c15Value(rng *rand.Rand) Expr {
	switch rng.IntN(14) {
	case 0, 1, 2:
		return N(strconv.Itoa(rng.IntN(6)))
	case 3:
		return &Unary{Op: "-", X: N(strconv.Itoa(1 + rng.IntN(5)))}
	case 4:
		return N([]string{"0.5", "2.5", "10"}[rng.IntN(3)])
	case 5, 6:
		return S([]string{"1", "a", "b", "", "10", "2", "B"}[rng.IntN(7)])
	case 7:
		return &BoolLit{V: rng.IntN(2) == 0}
	case 8:
		return &NullLit{}
	case 9:
		return Arr(N(strconv.Itoa(rng.IntN(3))))
	case 10:
		return &ObjectLit{Keys: []string{"k"}, Quoted: []bool{false}, Vals: []Expr{N(strconv.Itoa(rng.IntN(3)))}}
	}
	return N(strconv.Itoa(rng.IntN(4)))
}

func jsonOf(e Expr) Expr { return CallE(V("json"), e) }

// c15Op returns a statement performing one operation on array ref a (b is a second array) and printing its result.
func c15Op(rng *rand.Rand, a, b Expr, tag string) (Stmt, string) {
	idx := func() Expr {
		switch rng.IntN(6) {
		case 0:
			return &Unary{Op: "-", X: N(strconv.Itoa(1 + rng.IntN(3)))}
		case 1:
			return N(strconv.Itoa(3 + rng.IntN(4)))
		}
		return N(strconv.Itoa(rng.IntN(3)))
	}
	switch rng.IntN(18) {
	case 0, 1, 2:
		return Pr(S(tag+" push"), jsonOf(Meth(a, "push", c15Value(rng)))), "push"
	case 3, 4:
		return Pr(S(tag+" pop"), jsonOf(Meth(a, "pop"))), "pop"
	case 5, 6:
		return Pr(S(tag+" popfirst"), jsonOf(Meth(a, "popfirst"))), "popfirst"
	case 7, 8:
		return Pr(S(tag+" read"), jsonOf(Idx(a, idx()))), "read"
	case 9, 10:
		return ES(Asg(Idx(a, idx()), c15Value(rng))), "write"
	case 11:
		return Pr(S(tag+" length"), Meth(a, "length")), "length"
	case 12, 13:
		return Pr(S(tag+" contains"), Meth(a, "contains", c15Value(rng))), "contains"
	case 14:
		return Pr(S(tag+" sort"), jsonOf(Meth(a, "sort"))), "sort"
	case 15:
		// nested method calls inside arguments
		switch rng.IntN(8) {
		case 4:
			// the pushed value is null by absence (an index past the end / a missing member of another container)
			if rng.IntN(2) == 0 {
				return Pr(S(tag+" push(b[9])"), jsonOf(Meth(a, "push", Idx(b, N("9"))))), "nested"
			}
			return Pr(S(tag+" push(o.nope)"), jsonOf(Meth(a, "push", Mem(V("o"), "nope")))), "nested"
		case 5:
			// the same method nested in its own argument
			return Pr(S(tag+" push(b.push(v))"), jsonOf(Meth(a, "push", Meth(b, "push", c15Value(rng))))), "nested"
		case 6:
			return Pr(S(tag+" contains(b.contains(v))"), Meth(a, "contains", Meth(b, "contains", c15Value(rng)))), "nested"
		case 7:
			return Pr(S(tag+" push(b.sort().pop())"), jsonOf(Meth(a, "push", Meth(Meth(b, "sort"), "pop")))), "nested"
		case 0:
			return Pr(S(tag+" push(b.pop())"), jsonOf(Meth(a, "push", Meth(b, "pop")))), "nested"
		case 1:
			return Pr(S(tag+" push(a.length())"), jsonOf(Meth(a, "push", Meth(a, "length")))), "nested"
		case 2:
			return Pr(S(tag+" contains(b.popfirst())"), Meth(a, "contains", Meth(b, "popfirst"))), "nested"
		case 3:
			return Pr(S(tag+" push(b.length())"), jsonOf(Meth(a, "push", Meth(b, "length")))), "nested"
		default:
			return Pr(S(tag+" push(b.contains(1))"), jsonOf(Meth(a, "push", Meth(b, "contains", N("1"))))), "nested"
		}
	case 16:
		return Pr(S(tag+" push(a.pop())"), jsonOf(Meth(a, "push", Meth(a, "pop")))), "nested"
	}
	return Pr(S(tag+" read-last"), jsonOf(Idx(a, &Unary{Op: "-", X: N("1")}))), "read"
}

func c15Wrap(body []Stmt) *Program {
	pre := []Stmt{ES(Asg(V("o"), &ObjectLit{})), ES(Asg(V("m"), Arr()))}
	return &Program{Items: []any{&Rule{Kind: "pattern", Body: &Block{Stmts: append(pre, body...)}}}}
}

func c15History(c *Case) {
	rng := c.Rng
	hs := c15Holders()
	ha := hs[rng.IntN(len(hs))]
	hb := hs[rng.IntN(len(hs))]
	for hb.name == ha.name {
		hb = hs[rng.IntN(len(hs))]
	}
	a, b := ha.ref(), hb.ref()
	dump := func(i int) Stmt {
		return Pr(S("s"+strconv.Itoa(i)), jsonOf(a), Meth(a, "length"), jsonOf(b), Meth(b, "length"))
	}
	var initA, initB []Expr
	for i := rng.IntN(4); i > 0; i-- {
		initA = append(initA, c15Value(rng))
	}
	for i := rng.IntN(3); i > 0; i-- {
		initB = append(initB, c15Value(rng))
	}
	body := []Stmt{ha.init(initA...), hb.init(initB...), dump(0)}
	// a second name for the first array: every operation through either name is seen through both
	var alias Expr
	if rng.IntN(2) == 0 {
		alias = V("al")
		body = append(body, asg(alias, a), Pr(S("alias"), jsonOf(alias), Meth(alias, "length")))
	}
	in := []MInput{{Name: "in.json", Values: []any{map[string]any{}}}}
	n := 5 + rng.IntN(36)
	kinds := map[string]int{}
	removalThenAppend, removed, nested := false, false, false
	for step, tries := 1, 0; step <= n && tries < n*5; tries++ {
		x, y := a, b
		if rng.IntN(4) == 0 {
			x, y = b, a
		}
		if alias != nil && rng.IntN(3) == 0 {
			x = alias
			kinds["through-second-name"]++
		}
		st, kind := c15Op(rng, x, y, "op"+strconv.Itoa(step))
		cand := append(append([]Stmt{}, body...), st, dump(step))
		if alias != nil {
			cand = append(cand, Pr(S("al"+strconv.Itoa(step)), jsonOf(alias), Meth(alias, "length")))
		}
		mo := RunModel(c15Wrap(cand), in, nil, ModelOpts{Budget: 200000})
		if mo.Class != "ok" || !noPinned(mo.Tags) {
			if mo.Class == "runtime" && noPinned(mo.Tags) && rng.IntN(15) == 0 {
				body = cand
				kinds["ends-in-error"]++
				break
			}
			continue
		}
		body = cand
		kinds[kind]++
		if kind == "pop" || kind == "popfirst" {
			removed = true
		}
		if removed && (kind == "push" || kind == "write") {
			removalThenAppend = true
		}
		if kind == "nested" {
			nested = true
		}
		step++
	}
	p := c15Wrap(body)
	rd := RenderProgram(p, ParenMinimal, nil)
	text, _ := rd.Layout(nil)
	files := []InFile{{Name: "in.json", Data: []byte("{}")}}
	r := m2(c, &M2Case{Prog: p, Text: text, Files: files, WantRoot: true, Desc: "array history (" + ha.name + "," + hb.name + ")", Quiet: true})
	if r.Verdict == "violated" {
		// shrink by dropping (operation, dump) pairs
		cur := body
		for changed := true; changed; {
			changed = false
			base, stride := 3, 2
			if alias != nil {
				base, stride = 5, 3
			}
			for k := base; k+stride-1 < len(cur); k += stride {
				cand := append(append([]Stmt{}, cur[:k]...), cur[k+stride:]...)
				rr := m2(c, &M2Case{Prog: c15Wrap(cand), Files: files, WantRoot: true, Quiet: true})
				if rr.Verdict == "violated" && noPinned(rr.Mod.Tags) {
					cur = cand
					changed = true
					break
				}
			}
		}
		m2(c, &M2Case{Prog: c15Wrap(cur), Files: files, WantRoot: true, Desc: "array history (shrunk; " + ha.name + "," + hb.name + ")", Replay: map[string]any{"original_program": text}})
	} else {
		m2(c, &M2Case{Prog: p, Text: text, Files: files, WantRoot: true, Desc: "array history"})
	}
	for k, v := range kinds {
		c.CountN("op:"+k, v)
	}
	c.Count("holder:" + ha.name)
	if removalThenAppend || nested {
		c.NonTrivial(text)
	}
	if c.Idx%2000 == 7 {
		c.Sample(map[string]any{"array_history": text})
	}
}

// ---- enumerated: every ordered pair of operations on arrays of length 0, 1, 2, 5

var c15PairOps = []string{"push", "pop", "popfirst", "read0", "read-1", "readlen", "write0", "writelen", "writelen2", "write-1", "length", "contains", "sort"}

func c15PairOp(name string, a Expr, n int, tag string) Stmt {
	ln := N(strconv.Itoa(n))
	switch name {
	case "push":
		return Pr(S(tag), jsonOf(Meth(a, "push", N("77"))))
	case "pop":
		return Pr(S(tag), jsonOf(Meth(a, "pop")))
	case "popfirst":
		return Pr(S(tag), jsonOf(Meth(a, "popfirst")))
	case "read0":
		return Pr(S(tag), jsonOf(Idx(a, N("0"))))
	case "read-1":
		return Pr(S(tag), jsonOf(Idx(a, &Unary{Op: "-", X: N("1")})))
	case "readlen":
		return Pr(S(tag), jsonOf(Idx(a, ln)))
	case "write0":
		return ES(Asg(Idx(a, N("0")), S("w0")))
	case "writelen":
		return ES(Asg(Idx(a, ln), S("wl")))
	case "writelen2":
		return ES(Asg(Idx(a, N(strconv.Itoa(n+2))), S("wl2")))
	case "write-1":
		return ES(Asg(Idx(a, &Unary{Op: "-", X: N("1")}), S("wm1")))
	case "length":
		return Pr(S(tag), Meth(a, "length"))
	case "contains":
		return Pr(S(tag), Meth(a, "contains", N("2")))
	}
	return Pr(S(tag), jsonOf(Meth(a, "sort")))
}

func c15Pairs(c *Case, idx int) {
	no := len(c15PairOps)
	lens := []int{0, 1, 2, 5}
	op1 := c15PairOps[idx%no]
	op2 := c15PairOps[(idx/no)%no]
	n := lens[idx/(no*no)]
	hs := c15Holders()
	h := hs[idx%len(hs)]
	a := h.ref()
	var init []Expr
	for i := 0; i < n; i++ {
		init = append(init, N(strconv.Itoa(5-i)))
	}
	dump := func(t string) Stmt { return Pr(S(t), jsonOf(a), Meth(a, "length")) }
	// the second operation still runs if the first is predicted to fail? no: a failing first op ends the run (C11)
	body := []Stmt{h.init(init...), dump("d0"), c15PairOp(op1, a, n, "r1"), dump("d1"), c15PairOp(op2, a, n, "r2"), dump("d2")}
	key := fmt.Sprintf("pair:%s,%s,len%d,%s", op1, op2, n, h.name)
	c.NonTrivial(key)
	c.Count("pairs")
	m2(c, &M2Case{Prog: c15Wrap(body), Files: []InFile{{Name: "in.json", Data: []byte("{}")}}, WantRoot: true, Desc: key})
}

// ---- law on the implementation alone: contains(v) agrees with == on every kind pair

func c15ContainsLaw(c *Case) {
	vals := []string{"0", "1", "-1", "2.5", "'1'", "'a'", "''", "'10'", "true", "false", "null", "[]", "[1]", "{}", "{ k: 1 }", "'B'", "10", "neverset", "alsounset"}
	for _, e := range vals {
		for _, v := range vals {
			p1 := fmt.Sprintf("BEGIN { a = [%s]; print a.contains(%s) }", e, v)
			p2 := fmt.Sprintf("BEGIN { a = [%s]; print (%s) == a[0] }", e, v)
			if e == "neverset" && v == "0" {
				// (several elements: the answer is that of == applied to each in order)
				p1 = "BEGIN { a = ['', 0, false, neverset]; print a.contains(alsounset), a.contains(0) }"
				p2 = "BEGIN { a = ['', 0, false, neverset]; print alsounset == a[0] || alsounset == a[1] || alsounset == a[2] || alsounset == a[3], 0 == a[0] || 0 == a[1] }"
			}
			l1 := RunLib(p1, nil, nil, RunOpts{})
			l2 := RunLib(p2, nil, nil, RunOpts{})
			c.NonTrivial("law:" + e + "/" + v)
			c.Count("contains_law_pairs")
			if l1.Class == l2.Class && string(l1.Stdout) == string(l2.Stdout) && (l1.Class == "ok" || l1.Class == "runtime") {
				c.Held()
			} else {
				c.Violation(fmt.Sprintf("[%s].contains(%s) gives %s %q but %s == a[0] gives %s %q", e, v, l1.Class, strings.TrimSpace(string(l1.Stdout)), v, l2.Class, strings.TrimSpace(string(l2.Stdout))), nil,
					map[string]any{"program1": p1, "program2": p2})
			}
		}
	}
	// a method acts on the array it was invoked on - the value its receiver expression had when the method was looked up -
	// also when an argument of the same call stores into that very location (results computed by hand)
	for _, t := range []struct{ prog, want string }{
		{"BEGIN { a = [1, 2, 3]; b = a; a.push(a = [7]); print a, b }", "[7] [1, 2, 3, [7]]\n"},
		{"BEGIN { c = [[1], [2]]; d = c[0]; c[0].push(c[0] = [9]); print c, d }", "[[9], [2]] [1, [9]]\n"},
		{"BEGIN { a = [1, 2, 3]; print a.length(a = []), a }", "3 []\n"},
		{"BEGIN { o = {k: [4, 5, 6]}; old = o.k; print o.k.contains((o.k = [5]).length() + 4), o.k, old }", "true [5] [4, 5, 6]\n"},
		{"BEGIN { a = [3, 1, 2]; b = a; s = a.sort(a = [9, 8]); print s, a, b }", "[1, 2, 3] [9, 8] [3, 1, 2]\n"},
		{"{ keep = $.xs; $.xs.push($.xs = [0]); print $.xs, keep }", "[0] [1, 2, [0]]\n"},
		{"BEGIN { a = [1, 2]; b = a; a.push(a.push(3).length() + (a = ['new']).length()); print a, b }", "[\"new\"] [1, 2, 3, 4]\n"},
	} {
		lib := RunLib(t.prog, []InFile{{Name: "in.json", Data: []byte(`{"xs": [1, 2]}`)}}, nil, RunOpts{Budget: 100000})
		c.NonTrivial("receiver-at-lookup:" + t.prog)
		c.Count("receiver_reassigned_in_an_argument_programs")
		if lib.Class == "ok" && string(lib.Stdout) == t.want {
			c.Held()
		} else {
			c.Violation(fmt.Sprintf("a call whose argument stores into the receiver's location: want %q, got %s (%s) %q | %s", t.want, lib.Class, lib.Msg, clip(string(lib.Stdout), 80), t.prog), nil, map[string]any{"program": t.prog})
		}
	}
	// an index past the end is past the end however large it is: whatever a read or a store at 2^62 does (null,
	// or a refusal), the same happens at 2^63, 2^64 and 1e23; and likewise before the start
	for _, base := range []string{"[]", "[1, 2, 3]", "$.rows", "$.rows[4]"} {
		for _, pair := range [][2]string{{"4611686018427387904", "9223372036854775807"}, {"4611686018427387904", "9223372036854775808"}, {"4611686018427387904", "18446744073709551615"}, {"4611686018427387904", "18446744073709551616"},
			{"4611686018427387904", "100000000000000000000000"}, {"-4611686018427387904", "-9223372036854775808"}, {"-4611686018427387904", "-9223372036854775809"}, {"-4611686018427387904", "-100000000000000000000000"}} {
			for _, form := range []string{"{ a = %s; print 'before'; v = a[%s]; print 'read', v, a.length() }", "{ a = %s; print 'before'; a[%s] = 1; print 'stored', a.length() }", "{ a = %s; print 'before'; print a[%s] is null, a[%s].k.j, a.length() }"} {
				in := []byte(`{"rows": [[1, 2], [3, 4], [5], [], [6, 7, 8]]}`)
				mk := func(ix string) *Outcome {
					return RunLib(fmt.Sprintf(strings.Replace(form, "a[%s] is null, a[%s]", "a[%[2]s] is null, a[%[2]s]", 1), base, ix), []InFile{{Name: "in.json", Data: in}}, nil, RunOpts{})
				}
				l1, l2 := mk(pair[0]), mk(pair[1])
				c.NonTrivial("hugeindex:" + base + pair[1] + form)
				c.Count("huge_index_pairs")
				if l1.Class == l2.Class && string(l1.Stdout) == string(l2.Stdout) && l1.Msg == l2.Msg && (l1.Class == "ok" || l1.Class == "runtime") {
					c.Held()
				} else {
					c.Violation(fmt.Sprintf("index %s on %s: %s %q (%s), but index %s: %s %q (%s)", pair[0], base, l1.Class, clip(string(l1.Stdout), 80), l1.Msg, pair[1], l2.Class, clip(string(l2.Stdout), 80), l2.Msg), nil,
						map[string]any{"form": form, "base": base, "index1": pair[0], "index2": pair[1]})
				}
			}
		}
	}
	// arrays that come from the input document and lie next to each other in a parent array: growing one leaves its
	// neighbours alone (each is its own list, however the reader allocated them)
	for n := 0; n < 16; n++ {
		rng := caseRng(c.Seed, "C15-rows", n)
		rows := [][]any{{1.0, 2.0}, {3.0, 4.0}, {5.0}, {}, {6.0, 7.0, 8.0}}
		doc := map[string]any{"rows": []any{rows[0], rows[1], rows[2], rows[3], rows[4]}, "grid": []any{[]any{[]any{1.0}, []any{2.0}}, []any{[]any{3.0}}}}
		d := V("$")
		row := func(i int) Expr { return Idx(Mem(d, "rows"), N(strconv.Itoa(i))) }
		var body []Stmt
		for k := 0; k < 6; k++ {
			i := rng.IntN(5)
			switch rng.IntN(4) {
			case 0:
				body = append(body, ES(Meth(row(i), "push", N(strconv.Itoa(90+k)))))
			case 1:
				body = append(body, asg(Idx(row(i), N(strconv.Itoa(3+rng.IntN(3)))), S("far")))
			case 2:
				body = append(body, ES(Meth(row(i), "push", N(strconv.Itoa(80+k)))), ES(Meth(row(i), "push", N(strconv.Itoa(70+k)))))
			default:
				body = append(body, ES(Meth(Idx(Idx(Mem(d, "grid"), N("0")), N(strconv.Itoa(rng.IntN(2)))), "push", S("g"))))
			}
			body = append(body, Pr(S("step"+strconv.Itoa(k)), jsonOf(Mem(d, "rows")), jsonOf(Mem(d, "grid")), Meth(row((i+1)%5), "length"), Meth(row((i+1)%5), "contains", N(strconv.Itoa(90+k)))))
		}
		p := &Program{Items: []any{&Rule{Kind: "pattern", Body: &Block{Stmts: body}}}}
		c.NonTrivial(fmt.Sprintf("rows:%d", n))
		c.Count("document_row_programs")
		m2(c, &M2Case{Prog: p, Files: []InFile{{Name: "in.json", Data: jsonBytes(doc)}}, WantRoot: true, Desc: "arrays of the input document that are siblings in a parent array"})
	}
	// sort: strings that spell numbers are ordered as strings (unless every element is a number)
	for n, items := range [][]Expr{{S("10"), S("9"), S("100")}, {N("2"), S("10"), N("1")}, {S("1"), S("02"), S("3"), S("-1")}, {S("1.5"), S("1.10"), S("1.9")}, {N("10"), N("9"), S("8")}, {S("9"), N("10")}, {S("10"), S("9"), S("a")}, {N("10"), N("9"), N("100")}} {
		p := &Program{Items: []any{&Rule{Kind: "BEGIN", Body: Blk(asg(V("a"), Arr(items...)), Pr(jsonOf(Meth(V("a"), "sort")), jsonOf(V("a"))))}}}
		c.NonTrivial(fmt.Sprintf("numstrsort:%d", n))
		c.Count("numeric_string_sorts")
		m2(c, &M2Case{Prog: p, Desc: "sort of strings that spell numbers"})
	}
	// contains() on long arrays of one kind, before and after writes that do not change the length
	for n := 0; n < 24; n++ {
		rng := caseRng(c.Seed, "C15-contains-long", n)
		ln := []int{31, 32, 33, 40, 64, 100}[n%6]
		var items []Expr
		for i := 0; i < ln; i++ {
			if n%4 == 3 {
				items = append(items, N(strconv.Itoa(i*3)))
			} else {
				items = append(items, S(fmt.Sprintf("s%d", i)))
			}
		}
		a := Expr(V("a"))
		val := func(i int) Expr {
			if n%4 == 3 {
				return N(strconv.Itoa(i * 3))
			}
			return S(fmt.Sprintf("s%d", i))
		}
		i1, i2 := rng.IntN(ln), rng.IntN(ln)
		body := []Stmt{asg(a, Arr(items...)),
			Pr(S("before"), Meth(a, "contains", val(i1)), Meth(a, "contains", S("new")), Meth(a, "contains", val(i2)), Meth(a, "contains", N("7"))),
			asg(Idx(a, N(strconv.Itoa(i1))), S("new")),
			Pr(S("after-store"), Meth(a, "contains", val(i1)), Meth(a, "contains", S("new")), Meth(a, "contains", val(i2))),
			asg(Idx(a, &Unary{Op: "-", X: N("1")}), S("last")),
			Pr(S("after-store-from-end"), Meth(a, "contains", val(ln-1)), Meth(a, "contains", S("last"))),
			asg(V("al"), a), asg(Idx(V("al"), N(strconv.Itoa(i2))), N("7")),
			Pr(S("after-store-through-second-name"), Meth(a, "contains", val(i2)), Meth(a, "contains", N("7")), Meth(V("al"), "contains", S("new"))),
			ES(Meth(a, "push", S("pushed"))), Pr(S("after-push"), Meth(a, "contains", S("pushed")), Meth(a, "contains", S("new")), Meth(a, "length")),
			ES(Meth(a, "pop")), Pr(S("after-pop"), Meth(a, "contains", S("pushed")), Meth(a, "length"))}
		p := &Program{Items: []any{&Rule{Kind: "BEGIN", Body: &Block{Stmts: body}}}}
		c.NonTrivial(fmt.Sprintf("containslong:%d", n))
		c.Count("contains_on_long_arrays_programs")
		m2(c, &M2Case{Prog: p, Desc: fmt.Sprintf("contains() on an array of %d elements before and after in-place writes", ln)})
	}
	// sort() yields a new array also when there is nothing to reorder: changing either leaves the other alone
	for ln := 0; ln <= 3; ln++ {
		for variant := 0; variant < 6; variant++ {
			var items []Expr
			for i := 0; i < ln; i++ {
				items = append(items, N(strconv.Itoa(5-i)))
			}
			a, b := Expr(V("a")), Expr(V("b"))
			init := []Stmt{asg(a, Arr(items...))}
			switch variant {
			case 1: // held by a member
				a = Mem(V("o"), "list")
				init = []Stmt{asg(V("o"), &ObjectLit{}), asg(a, Arr(items...))}
			case 2: // emptied / shortened by pop first
				init = []Stmt{asg(a, Arr(append(items, N("0"), N("0"))...)), ES(Meth(a, "pop")), ES(Meth(a, "pop"))}
			case 3: // sorted twice
				init = append(init, asg(V("c"), Meth(a, "sort")))
			}
			body := append(init, asg(b, Meth(a, "sort")), Pr(S("sorted"), jsonOf(a), jsonOf(b)))
			switch variant % 3 {
			case 0:
				body = append(body, asg(Idx(b, N("0")), S("w")), Pr(S("result-stored"), jsonOf(a), jsonOf(b)), asg(Idx(a, N("0")), S("r")), Pr(S("receiver-stored"), jsonOf(a), jsonOf(b)))
			case 1:
				body = append(body, ES(Meth(b, "push", N("7"))), ES(Meth(a, "push", N("8"))), Pr(S("both-pushed"), jsonOf(a), jsonOf(b)), ES(Meth(b, "pop")), Pr(S("result-popped"), jsonOf(a), jsonOf(b)))
			default:
				body = append(body, ES(Meth(a, "push", N("8"))), Pr(S("receiver-pushed"), jsonOf(a), jsonOf(b), Meth(b, "length")), asg(Idx(b, N("2")), N("9")), Pr(S("result-extended"), jsonOf(a), jsonOf(b)))
			}
			p := &Program{Items: []any{&Rule{Kind: "BEGIN", Body: &Block{Stmts: body}}}}
			c.NonTrivial(fmt.Sprintf("sortfresh:%d:%d", ln, variant))
			c.Count("sort_result_is_fresh_programs")
			m2(c, &M2Case{Prog: p, Desc: fmt.Sprintf("sort() of %d elements gives a new array", ln)})
		}
	}
	// sort: long arrays (library sorts switch algorithm with length) with equal keys of different kinds
	for n := 0; n < 40; n++ {
		rng := caseRng(c.Seed, "C15-sort", n)
		var items []Expr
		ln := 13 + rng.IntN(40)
		for i := 0; i < ln; i++ {
			switch rng.IntN(9) {
			case 0:
				items = append(items, N(strconv.Itoa(rng.IntN(4))))
			case 1:
				items = append(items, S(strconv.Itoa(rng.IntN(4))))
			case 2:
				items = append(items, &BoolLit{V: rng.IntN(2) == 0})
			case 3:
				items = append(items, &NullLit{})
			case 4:
				items = append(items, Arr(N(strconv.Itoa(i))))
			case 5:
				items = append(items, obj1("i", N(strconv.Itoa(i))))
			case 6:
				items = append(items, S(""))
			default:
				items = append(items, S([]string{"b", "a", "B", "10", "9"}[rng.IntN(5)]))
			}
		}
		if n%4 == 0 { // all numbers: numeric order
			items = nil
			for i := 0; i < ln; i++ {
				items = append(items, N([]string{"3", "1", "2", "10", "2.0", "0.5"}[rng.IntN(6)]))
			}
		}
		p := &Program{Items: []any{&Rule{Kind: "BEGIN", Body: Blk(asg(V("a"), Arr(items...)), Pr(jsonOf(Meth(V("a"), "sort"))), Pr(jsonOf(V("a")), Meth(V("a"), "length")))}}}
		c.NonTrivial(fmt.Sprintf("longsort:%d", n))
		c.Count("long_sort_arrays")
		m2(c, &M2Case{Prog: p, Desc: "sort of a long array with equal keys of different kinds"})
	}
	// the same textual call site re-entered through recursion while its arguments are evaluated
	for _, prog := range []string{
		"function nest(i) { if (i == 3) { return 'leaf' } a[i].push(nest(i + 1)); return i } BEGIN { a = [[], [], []]; nest(0); print json(a) }",
		"function fill(i) { if (i == 0) { return 0 } return rows[i - 1].push(fill(i - 1)).length() } BEGIN { rows = [[9], [8, 8], [7, 7, 7]]; print fill(3), json(rows) }",
		"function has(i) { if (i == 2) { return 5 } return sets[i].contains(has(i + 1)) } BEGIN { sets = [[true, 1], [5, 6]]; print has(0) }",
	} {
		c15RunText(c, prog)
	}
	// sort: stable, copy, numeric iff all numbers
	sorts := []string{"[3, 1, 2]", "[10, 9, 2]", "['10', '9', 2]", "[true, 'a', null, 'A', 1]", "[[2], 'x', {k: 1}, '']", "[2, '2', 2.0, 'b', 'a']", "[]", "[1]", "[0.5, -1, 1e0]"}
	_ = sorts
}

// c15RunText: fixed programs given as text together with their AST for the model
func c15RunText(c *Case, prog string) {
	var p *Program
	a, rows, sets, i := V("a"), V("rows"), V("sets"), V("i")
	switch {
	case strings.HasPrefix(prog, "function nest"):
		f := &Func{Name: "nest", Params: []string{"i"}, Body: Blk(&If{C: Bin("==", i, N("3")), Then: Blk(&Return{X: S("leaf")})}, ES(Meth(Idx(a, i), "push", CallE(V("nest"), Bin("+", i, N("1"))))), &Return{X: i})}
		p = &Program{Items: []any{f, &Rule{Kind: "BEGIN", Body: Blk(asg(a, Arr(Arr(), Arr(), Arr())), ES(CallE(V("nest"), N("0"))), Pr(jsonOf(a)))}}}
	case strings.HasPrefix(prog, "function fill"):
		f := &Func{Name: "fill", Params: []string{"i"}, Body: Blk(&If{C: Bin("==", i, N("0")), Then: Blk(&Return{X: N("0")})},
			&Return{X: Meth(Meth(Idx(rows, Bin("-", i, N("1"))), "push", CallE(V("fill"), Bin("-", i, N("1")))), "length")})}
		p = &Program{Items: []any{f, &Rule{Kind: "BEGIN", Body: Blk(asg(rows, Arr(Arr(N("9")), Arr(N("8"), N("8")), Arr(N("7"), N("7"), N("7")))), Pr(CallE(V("fill"), N("3")), jsonOf(rows)))}}}
	default:
		f := &Func{Name: "has", Params: []string{"i"}, Body: Blk(&If{C: Bin("==", i, N("2")), Then: Blk(&Return{X: N("5")})}, &Return{X: Meth(Idx(sets, i), "contains", CallE(V("has"), Bin("+", i, N("1"))))})}
		p = &Program{Items: []any{f, &Rule{Kind: "BEGIN", Body: Blk(asg(sets, Arr(Arr(&BoolLit{V: true}, N("1")), Arr(N("5"), N("6")))), Pr(CallE(V("has"), N("0"))))}}}
	}
	c.NonTrivial("recursive-site:" + prog)
	c.Count("recursive_call_site_forms")
	m2(c, &M2Case{Prog: p, Desc: "method call site re-entered through recursion"})
}

const c15NPairs = 13 * 13 * 4

func c15Cases(tier string) int {
	if tier == "thorough" {
		return 1 + c15NPairs + 400000
	}
	return 1 + c15NPairs + 25000
}

func c15Run(c *Case) {
	switch {
	case c.Idx == 0:
		c15ContainsLaw(c)
		round8Hand(c, "C15")
	case c.Idx <= c15NPairs:
		c15Pairs(c, c.Idx-1)
	default:
		c15History(c)
	}
}

func init() {
	register(&Prop{
		ID: "C15", Level: "exploration",
		Rule:          "sampled histories of 5-40 operations (push pop popfirst index-read index-write length contains sort, nested method calls inside arguments) over two arrays held by a variable, $-path, object member or array element, in half of the histories the first one also by a second name through which a third of the operations go (a length change is seen through every reference), element values of every kind; after every operation the program prints the result and json()/length() of both arrays, compared with an ideal-list model; candidate steps leaving the stated semantics are discarded with the model. Enumerated: every ordered pair of 13 operations on arrays of length 0,1,2,5 (676 programs); contains(v) vs v == a[0] on 17x17 value pairs (law on the implementation alone); 16 programs that grow arrays of the input document which are siblings in a parent array (rows of a table, cells of a grid); 8 sorts of strings that spell numbers; contains() on arrays of 31-100 strings / numbers before and after stores that keep the length (24 programs); sort() of 0-3 elements gives a new array (24 programs storing / pushing / popping through the result and the receiver afterwards); 40 sorts of 13-52 elements with equal keys of different kinds (stable). Non-trivial = history with a removal followed by an append/extension, or a nested call; distinct by program text. Laws on the implementation alone: contains(v) == (v == a[0]) over 19 x 19 values incl. two unset names; 96 pairs of huge indices (what a read or store does at 2^62 it also does at 2^63, 2^64, 1e23; likewise before the start) on literals and document arrays. 7 hand-computed programs whose call argument stores into the receiver's own location.",
		NumCases:      c15Cases,
		Run:           c15Run,
		MinConclusive: func(tier string) int { return 3000 },
		Exhaustive: func(tier string) string {
			return "ordered pairs of 13 list operations x 4 initial lengths; contains/== value-pair table"
		},
		Assumptions: []string{"ideal-list semantics of DESIGN.md section 3.10", "aliasing semantics of DESIGN.md section 3.5 (a length change through one reference is seen through all; repaired, see findings/KNOWN_FINDINGS.txt)"},
	})
}
