package main

// Harness-side AST. Nothing here is shared with /repo/src: programs are
// generated as these trees, rendered to text for the implementation, and
// executed directly by the reference model.

type Expr interface{ isExpr() }
type Stmt interface{ isStmt() }

type (
	NumLit struct {
		Text string // exactly as written: digits[.digits]
	}
	StrLit struct {
		Raw string // text between the quotes, escapes unprocessed
	}
	BoolLit  struct{ V bool }
	NullLit  struct{}
	RegexLit struct{ Pat string }
	Var      struct{ Name string } // also "$", "$index", "$file"
	Unary    struct {
		Op string // ! - +
		X  Expr
	}
	IncDec struct {
		Op     string // ++ --
		Prefix bool
		X      Expr
	}
	Binary struct {
		Op   string // + - * / % == != < <= > >= ~ !~ && ||
		L, R Expr
	}
	IsExpr struct {
		X Expr
		T string
	}
	Assign struct {
		Op   string // = += -= *= /=
		L, R Expr
	}
	Member struct {
		X    Expr
		Name string
	}
	Index struct{ X, I Expr }
	Call  struct {
		F    Expr
		Args []Expr
	}
	ArrayLit  struct{ Items []Expr }
	ObjectLit struct {
		Keys   []string
		Quoted []bool // key written as a string literal
		Vals   []Expr
	}
	MatchExpr struct {
		Subj  Expr
		Cases []*MatchCase
	}
	Paren struct{ X Expr } // explicit (possibly redundant) parentheses
	// RawExpr is opaque text spliced into a program (fault planting, C01/C11); the model cannot run it.
	RawExpr struct{ Text string }
)

type MatchCase struct {
	Pats  []Expr // NumLit StrLit BoolLit NullLit Var ArrayLit(of patterns)
	Body  Expr   // expression body, or nil
	Block *Block // block body, or nil
}

func (*NumLit) isExpr()    {}
func (*StrLit) isExpr()    {}
func (*BoolLit) isExpr()   {}
func (*NullLit) isExpr()   {}
func (*RegexLit) isExpr()  {}
func (*Var) isExpr()       {}
func (*Unary) isExpr()     {}
func (*IncDec) isExpr()    {}
func (*Binary) isExpr()    {}
func (*IsExpr) isExpr()    {}
func (*Assign) isExpr()    {}
func (*Member) isExpr()    {}
func (*Index) isExpr()     {}
func (*Call) isExpr()      {}
func (*ArrayLit) isExpr()  {}
func (*ObjectLit) isExpr() {}
func (*MatchExpr) isExpr() {}
func (*Paren) isExpr()     {}
func (*RawExpr) isExpr()   {}

type (
	Block    struct{ Stmts []Stmt }
	Print    struct{ Args []Expr }
	ExprStmt struct{ X Expr }
	Return   struct{ X Expr } // X may be nil
	If       struct {
		C    Expr
		Then Stmt
		Else Stmt // may be nil
	}
	While struct {
		C    Expr
		Body Stmt
	}
	For struct {
		Pre, C, Post Expr
		Body         Stmt
	}
	ForIn struct {
		V, V2 string // V2 may be ""
		It    Expr
		Body  Stmt
	}
	Break    struct{}
	Continue struct{}
	Next     struct{}
	Exit     struct{}
	RawStmt  struct{ Text string }
)

func (*Block) isStmt()    {}
func (*Print) isStmt()    {}
func (*ExprStmt) isStmt() {}
func (*Return) isStmt()   {}
func (*If) isStmt()       {}
func (*While) isStmt()    {}
func (*For) isStmt()      {}
func (*ForIn) isStmt()    {}
func (*Break) isStmt()    {}
func (*Continue) isStmt() {}
func (*Next) isStmt()     {}
func (*Exit) isStmt()     {}
func (*RawStmt) isStmt()  {}

type Rule struct {
	Kind    string // BEGIN END BEGINFILE ENDFILE pattern
	Pattern Expr   // pattern rules only; may be nil
	Body    *Block // nil: rule without body (prints $)
}

type Func struct {
	Name   string
	Params []string
	Body   *Block
}

type Program struct {
	Items []any // *Rule | *Func in source order
}

func (p *Program) Rules() []*Rule {
	var rs []*Rule
	for _, it := range p.Items {
		if r, ok := it.(*Rule); ok {
			rs = append(rs, r)
		}
	}
	return rs
}

func (p *Program) Funcs() []*Func {
	var fs []*Func
	for _, it := range p.Items {
		if f, ok := it.(*Func); ok {
			fs = append(fs, f)
		}
	}
	return fs
}

// ---- construction helpers used by generators

func N(text string) *NumLit            { return &NumLit{Text: text} }
func S(raw string) *StrLit             { return &StrLit{Raw: raw} }
func V(name string) *Var               { return &Var{Name: name} }
func Bin(op string, l, r Expr) *Binary { return &Binary{Op: op, L: l, R: r} }
func Asg(l, r Expr) *Assign            { return &Assign{Op: "=", L: l, R: r} }
func Mem(x Expr, name string) *Member  { return &Member{X: x, Name: name} }
func Idx(x, i Expr) *Index             { return &Index{X: x, I: i} }
func CallE(f Expr, args ...Expr) *Call { return &Call{F: f, Args: args} }
func Meth(x Expr, name string, args ...Expr) *Call {
	return &Call{F: &Member{X: x, Name: name}, Args: args}
}
func Blk(ss ...Stmt) *Block       { return &Block{Stmts: ss} }
func Pr(args ...Expr) *Print      { return &Print{Args: args} }
func ES(x Expr) *ExprStmt         { return &ExprStmt{X: x} }
func Arr(items ...Expr) *ArrayLit { return &ArrayLit{Items: items} }
