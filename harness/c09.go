package main

// C09 — assignment changes exactly the addressed location; reads never change the input.

import (
	"fmt"
	"math/rand/v2"
	"strconv"
	"strings"
)

type asgGen struct {
	rng      *rand.Rand
	assigned map[string]bool
	stats    map[string]int
	allowTag func(tags map[string]bool) bool
}

var c09Keys = []string{"a", "b", "c", "list", "k", "length", "pluck"} // two of them are also method names of objects: an own member of that name is an ordinary member

func (g *asgGen) genDocVal(depth int) any {
	k := g.rng.IntN(10)
	if depth <= 0 {
		k = g.rng.IntN(5)
	}
	switch {
	case k < 2:
		return float64(g.rng.IntN(20) - 5)
	case k < 3:
		return []string{"x", "yy", "", "10"}[g.rng.IntN(4)]
	case k < 4:
		return g.rng.IntN(2) == 0
	case k < 5:
		return nil
	case k < 8:
		n := g.rng.IntN(4)
		arr := make([]any, 0, n)
		for i := 0; i < n; i++ {
			arr = append(arr, g.genDocVal(depth-1))
		}
		return arr
	}
	o := map[string]any{}
	for i := g.rng.IntN(4); i > 0; i-- {
		o[c09Keys[g.rng.IntN(len(c09Keys))]] = g.genDocVal(depth - 1)
	}
	return o
}

func (g *asgGen) base() string {
	return []string{"v0", "v1", "v2", "$", "$"}[g.rng.IntN(5)]
}

func (g *asgGen) indexExpr() (Expr, string) {
	switch g.rng.IntN(12) {
	case 0, 1, 2, 3:
		return N(strconv.Itoa(g.rng.IntN(3))), "small"
	case 4, 5:
		return N(strconv.Itoa(3 + g.rng.IntN(4))), "maybe-past-end"
	case 6, 7:
		return &Unary{Op: "-", X: N(strconv.Itoa(1 + g.rng.IntN(3)))}, "negative"
	case 8:
		return &Unary{Op: "-", X: N(strconv.Itoa(5 + g.rng.IntN(4)))}, "negative-far"
	case 9:
		return S(c09Keys[g.rng.IntN(len(c09Keys))]), "string-key"
	case 10:
		return N("1.5"), "fractional"
	}
	return N("0"), "small"
}

func (g *asgGen) path(maxDepth int) Expr {
	var e Expr = V(g.base())
	d := g.rng.IntN(maxDepth + 1)
	for i := 0; i < d; i++ {
		if g.rng.IntN(2) == 0 {
			e = Mem(e, c09Keys[g.rng.IntN(len(c09Keys))])
		} else {
			ix, cls := g.indexExpr()
			g.stats["index:"+cls]++
			e = Idx(e, ix)
		}
	}
	return e
}

func (g *asgGen) value() Expr {
	switch g.rng.IntN(12) {
	case 0, 1, 2:
		return N(strconv.Itoa(g.rng.IntN(50)))
	case 3:
		return S([]string{"s", "tt", ""}[g.rng.IntN(3)])
	case 4:
		return &BoolLit{V: g.rng.IntN(2) == 0}
	case 5:
		return &NullLit{}
	case 6, 7:
		n := g.rng.IntN(4)
		var it []Expr
		for i := 0; i < n; i++ {
			it = append(it, N(strconv.Itoa(g.rng.IntN(9))))
		}
		return Arr(it...)
	case 8:
		o := &ObjectLit{}
		for i := g.rng.IntN(3); i > 0; i-- {
			k := c09Keys[g.rng.IntN(len(c09Keys))]
			dup := false
			for _, e := range o.Keys {
				if e == k {
					dup = true
				}
			}
			if dup {
				continue
			}
			o.Keys = append(o.Keys, k)
			o.Quoted = append(o.Quoted, false)
			o.Vals = append(o.Vals, N(strconv.Itoa(g.rng.IntN(9))))
		}
		return o
	default:
		return g.path(2) // value read from another location: containers become shared
	}
}

func rootName(e Expr) string {
	switch x := e.(type) {
	case *Var:
		return x.Name
	case *Member:
		return rootName(x.X)
	case *Index:
		return rootName(x.X)
	}
	return ""
}

func (g *asgGen) stmt() (Stmt, string) {
	switch g.rng.IntN(19) {
	case 17, 18:
		// one statement storing to two locations under a common (often missing) prefix: t.k1 = t.k2 = v means
		// t.k2 = v, then t.k1 = v -- the location the right-hand side creates is kept
		t := g.path(3)
		k1, k2 := c09Keys[g.rng.IntN(len(c09Keys))], c09Keys[g.rng.IntN(len(c09Keys))]
		var t1, t2 Expr = Mem(t, k1), Mem(t, k2)
		switch g.rng.IntN(4) {
		case 0:
			t1 = Mem(t1, c09Keys[g.rng.IntN(len(c09Keys))])
		case 1:
			t2 = Mem(t2, c09Keys[g.rng.IntN(len(c09Keys))])
		case 2:
			t1, t2 = Idx(t, N(strconv.Itoa(g.rng.IntN(3)))), Idx(t, N(strconv.Itoa(g.rng.IntN(3))))
		}
		var inner Expr = Asg(t2, g.value())
		if g.rng.IntN(2) == 0 {
			inner = &Paren{X: inner}
		}
		return ES(Asg(t1, inner)), "store-chain"
	case 0, 1, 2, 3, 4, 5:
		t := g.path(4)
		return ES(Asg(t, g.value())), "store"
	case 6:
		t := g.path(3)
		op := []string{"+=", "-=", "*=", "/="}[g.rng.IntN(4)]
		return ES(&Assign{Op: op, L: t, R: N(strconv.Itoa(1 + g.rng.IntN(5)))}), "compound"
	case 7:
		t := g.path(3)
		return ES(&IncDec{Op: []string{"++", "--"}[g.rng.IntN(2)], X: t}), "incdec-stmt"
	case 8:
		t := g.path(3)
		return Pr(S("val"), &IncDec{Op: []string{"++", "--"}[g.rng.IntN(2)], Prefix: g.rng.IntN(2) == 0, X: t}), "incdec-value"
	case 9, 10, 11:
		return Pr(S("read"), g.path(4)), "read"
	case 12:
		// store through a function parameter: visible to the caller
		t := V([]string{"v0", "v1", "v2"}[g.rng.IntN(3)])
		ix, _ := g.indexExpr()
		return ES(CallE(V("setk"), t, ix, g.value())), "store-via-parameter"
	case 15:
		// the callee assigns its parameter: by-value also when the argument reads a location that does not exist
		return ES(CallE(V("setp"), g.path(3), g.value())), "assign-parameter"
	case 13:
		// store through a loop variable bound to a container element
		t := g.path(2)
		return &ForIn{V: "lv", It: Arr(t), Body: Blk(ES(Asg(Mem(V("lv"), c09Keys[g.rng.IntN(len(c09Keys))]), g.value())))}, "store-via-loopvar"
	case 14:
		if g.rng.IntN(3) == 0 {
			// scalars reached through a loop variable are copies: stepping them leaves the source alone
			t := g.path(2)
			if g.rng.IntN(2) == 0 {
				return &ForIn{V: "lv", It: t, Body: Blk(ES(&IncDec{Op: "++", X: V("lv")}), ES(&Assign{Op: "+=", L: V("lv"), R: N("5")}))}, "scalar-loopvar-step"
			}
			return &ForIn{V: "lk", V2: "lv", It: t, Body: Blk(ES(&IncDec{Op: "--", X: V("lv")}), ES(Asg(V("lk"), S("changed"))))}, "scalar-loopvar-step"
		}
		return ES(Asg(V([]string{"v0", "v1", "v2"}[g.rng.IntN(3)]), V([]string{"v0", "v1", "v2", "$"}[g.rng.IntN(4)]))), "alias"
	}
	// container stored into a container
	return ES(Asg(Mem(V([]string{"v0", "v1", "v2"}[g.rng.IntN(3)]), c09Keys[g.rng.IntN(len(c09Keys))]), V([]string{"v0", "v1", "v2"}[g.rng.IntN(3)]))), "nest-container"
}

func c09Setk() *Func {
	return &Func{Name: "setk", Params: []string{"o", "key", "val"}, Body: Blk(ES(Asg(Idx(V("o"), V("key")), V("val"))))}
}

func (g *asgGen) dump(i int) Stmt {
	args := []Expr{S("s" + strconv.Itoa(i))}
	for _, v := range []string{"v0", "v1", "v2"} {
		if g.assigned[v] {
			args = append(args, CallE(V("json"), V(v)))
		}
	}
	args = append(args, CallE(V("json"), V("$")))
	return Pr(args...)
}

func c09Setp() *Func {
	return &Func{Name: "setp", Params: []string{"p", "val"}, Body: Blk(ES(Asg(V("p"), V("val"))), ES(Asg(V("p"), N("1"))), &Return{X: V("p")})}
}

func c09Program(body []Stmt) *Program {
	return &Program{Items: []any{c09Setk(), c09Setp(), &Rule{Kind: "pattern", Body: &Block{Stmts: body}}}}
}

// history builds a history of n statements, each followed by a dump of all state; a candidate
// statement is kept only if the model executes it without leaving the stated semantics.
func (g *asgGen) history(n int, doc any) []Stmt {
	var body []Stmt
	in := []MInput{{Name: "in.json", Values: []any{doc}}}
	tries := 0
	for len(body)/2 < n && tries < n*6 {
		tries++
		st, kind := g.stmt()
		saved := map[string]bool{}
		for k, v := range g.assigned {
			saved[k] = v
		}
		// which variable does the statement assign (so that it can be dumped afterwards)?
		switch x := st.(type) {
		case *ExprStmt:
			switch y := x.X.(type) {
			case *Assign:
				if r := rootName(y.L); r != "" && r != "$" {
					g.assigned[r] = true
				}
			case *IncDec:
				if r := rootName(y.X); r != "" && r != "$" {
					g.assigned[r] = true
				}
			case *Call:
				if r := rootName(y.Args[0]); r != "" && r != "$" {
					g.assigned[r] = true
				}
			}
		case *Print:
			if len(x.Args) > 1 {
				if y, ok := x.Args[1].(*IncDec); ok {
					if r := rootName(y.X); r != "" && r != "$" {
						g.assigned[r] = true
					}
				}
			}
		}
		cand := append(append([]Stmt{}, body...), st, g.dump(len(body)/2))
		mo := RunModel(c09Program(cand), in, nil, ModelOpts{Budget: 100000})
		ok := mo.Class == "ok" && g.allowTag(mo.Tags)
		if !ok && mo.Class == "runtime" && g.allowTag(mo.Tags) && g.rng.IntN(12) == 0 {
			// occasionally end the history with a failing statement
			g.stats["ends-in-error"]++
			g.stats["kept:"+kind]++
			return cand
		}
		if !ok {
			g.assigned = saved
			g.stats["discarded"]++
			continue
		}
		g.stats["kept:"+kind]++
		body = cand
	}
	return body
}

func noPinned(tags map[string]bool) bool {
	for t := range tags {
		if strings.HasPrefix(t, "pinned:") { // "alias_resize" is a statistic only: a length change is seen through every reference (section 3.5)
			return false
		}
	}
	return true
}

// ---- read-only slice

type roGen struct{ rng *rand.Rand }

func (g *roGen) path(depth int) Expr {
	var e Expr = V("$")
	for i := g.rng.IntN(depth + 1); i > 0; i-- {
		if g.rng.IntN(2) == 0 {
			e = Mem(e, []string{"a", "b", "c", "list", "k", "zz", "length"}[g.rng.IntN(7)])
		} else {
			e = Idx(e, []Expr{N("0"), N("1"), N("2"), N("5"), N("40"), &Unary{Op: "-", X: N("1")}, &Unary{Op: "-", X: N("2")}, S("a")}[g.rng.IntN(8)])
		}
	}
	return e
}

func (g *roGen) expr(depth int) Expr {
	if depth <= 0 {
		if g.rng.IntN(4) == 0 {
			return []Expr{N("1"), S("x"), &NullLit{}, &BoolLit{V: true}}[g.rng.IntN(4)]
		}
		return g.path(3)
	}
	switch g.rng.IntN(14) {
	case 0, 1:
		return Bin([]string{"+", "-", "*", "==", "!=", "<", "&&", "||"}[g.rng.IntN(8)], g.expr(depth-1), g.expr(depth-1))
	case 2:
		return &Unary{Op: []string{"!", "-"}[g.rng.IntN(2)], X: g.expr(depth - 1)}
	case 3:
		return &IsExpr{X: g.path(3), T: []string{"array", "object", "number", "null"}[g.rng.IntN(4)]}
	case 4:
		return Meth(g.path(3), "length")
	case 5:
		return Meth(g.path(3), "sort")
	case 6:
		return Meth(g.path(3), "contains", g.expr(0))
	case 7:
		return Meth(g.path(3), "pluck", S("a"), S("zz"))
	case 8:
		return CallE(V("json"), g.path(2))
	case 9:
		return Meth(g.path(3), []string{"upper", "lower", "floor", "round"}[g.rng.IntN(4)])
	case 10:
		return &MatchExpr{Subj: g.path(2), Cases: []*MatchCase{{Pats: []Expr{Arr(V("p"), V("q"))}, Body: V("q")}, {Pats: []Expr{N("1"), S("x")}, Body: S("lit")}, {Pats: []Expr{V("other")}, Body: V("other")}}}
	case 11:
		return Meth(g.path(3), "split", S(","))
	case 12:
		return Arr(g.path(3), g.expr(depth-1))
	}
	return g.path(4)
}

func c09ReadOnly(c *Case) {
	g := &roGen{rng: c.Rng}
	ag := &asgGen{rng: c.Rng, stats: map[string]int{}}
	var doc any
	switch c.Rng.IntN(3) {
	case 0:
		doc = ag.genDocVal(3)
	case 1:
		doc = []any{ag.genDocVal(2), ag.genDocVal(2), []any{1.0, 2.0}}
	default:
		doc = map[string]any{"a": ag.genDocVal(2), "list": []any{1.0, "x", []any{2.0}}, "b": map[string]any{"c": ag.genDocVal(1)}}
	}
	var p *Program
	form := c.Rng.IntN(3)
	for try := 0; try < 8; try++ {
		e := g.expr(1 + c.Rng.IntN(3))
		switch form {
		case 0:
			p = &Program{Items: []any{&Rule{Kind: "pattern", Body: Blk(Pr(e))}}}
		case 1:
			p = &Program{Items: []any{&Rule{Kind: "pattern", Pattern: e, Body: Blk()}}}
		default:
			p = &Program{Items: []any{&Rule{Kind: "pattern", Body: Blk(ES(CallE(V("printf"), S("%v;"), e)))}, &Rule{Kind: "ENDFILE", Body: Blk(Pr(S("end"), e))}}}
		}
		// prefer expressions the model evaluates without a runtime error (a failed run writes no document)
		if mo := RunModel(p, []MInput{{Name: "in.json", Values: []any{doc}}}, nil, ModelOpts{Budget: 50000}); mo.Class == "ok" {
			break
		}
	}
	rd := RenderProgram(p, ParenMinimal, nil)
	text, _ := rd.Layout(nil)
	if rd.LeadBad {
		c.Inconclusive("generator-discipline")
		return
	}
	data := jsonBytes(doc)
	lib := RunLib(text, []InFile{{Name: "in.json", Data: data}}, nil, RunOpts{WantRoot: true})
	c.Count("readonly_runs")
	c.Count("readonly_outcome:" + lib.Class)
	switch lib.Class {
	case "panic":
		c.Violation("read-only expression panicked: "+lib.PanicVal+" | "+text, nil, map[string]any{"program": text, "input": string(data), "stack": lib.Stack})
		return
	case "budget":
		c.Inconclusive("budget")
		return
	case "ok":
	default:
		// the run ended in an error: the document is not written
		c.Inconclusive("readonly-run-failed")
		return
	}
	c.NonTrivial("ro:" + text + string(data))
	if lib.RootErr != "" {
		c.Violation("read-only program: document can no longer be serialised: "+lib.RootErr+" | "+text, nil, map[string]any{"program": text, "input": string(data)})
		return
	}
	got, _, err := decodeOne([]byte(lib.RootJSON))
	want, _, _ := decodeOne(data)
	if err != nil || !jsonEqual(want, got) {
		c.Violation(fmt.Sprintf("evaluating an expression without assignment or mutating call changed the document at %s | program: %s | input: %s", firstDiffPath(want, got, "$"), clip(text, 160), clip(string(data), 120)),
			nil, map[string]any{"program": text, "input": string(data), "output": lib.RootJSON})
		return
	}
	c.Held()
}

// ---- length changes through one of two references (was known finding K-ALIAS until the repair)

var c09AliasForms = []string{
	"BEGIN { a = [1, 2]; b = a; a.push(3); print json(b), b.length() }",
	"function f(x) { x.push(1) } BEGIN { a = []; f(a); print json(a) }",
	"BEGIN { a = [1, 2, 3]; b = a; b.pop(); print json(a) }",
	"BEGIN { a = [1, 2, 3]; o = { k: a }; a.popfirst(); print json(o) }",
	"BEGIN { a = [1]; b = a; b[3] = 9; print json(a) }",
	"BEGIN { a = [1]; print json(a.push(2).push(3)), json(a) }",
	"BEGIN { a = [[1]]; for (x in a) { x.push(2) } print json(a) }",
}

func c09AliasProgram(i int) *Program {
	a, b, o, x := V("a"), V("b"), V("o"), V("x")
	js := func(e Expr) Expr { return CallE(V("json"), e) }
	switch i {
	case 0:
		return &Program{Items: []any{&Rule{Kind: "BEGIN", Body: Blk(ES(Asg(a, Arr(N("1"), N("2")))), ES(Asg(b, a)), ES(Meth(a, "push", N("3"))), Pr(js(b), Meth(b, "length")))}}}
	case 1:
		return &Program{Items: []any{&Func{Name: "f", Params: []string{"x"}, Body: Blk(ES(Meth(x, "push", N("1"))))}, &Rule{Kind: "BEGIN", Body: Blk(ES(Asg(a, Arr())), ES(CallE(V("f"), a)), Pr(js(a)))}}}
	case 2:
		return &Program{Items: []any{&Rule{Kind: "BEGIN", Body: Blk(ES(Asg(a, Arr(N("1"), N("2"), N("3")))), ES(Asg(b, a)), ES(Meth(b, "pop")), Pr(js(a)))}}}
	case 3:
		return &Program{Items: []any{&Rule{Kind: "BEGIN", Body: Blk(ES(Asg(a, Arr(N("1"), N("2"), N("3")))), ES(Asg(o, &ObjectLit{Keys: []string{"k"}, Quoted: []bool{false}, Vals: []Expr{a}})), ES(Meth(a, "popfirst")), Pr(js(o)))}}}
	case 4:
		return &Program{Items: []any{&Rule{Kind: "BEGIN", Body: Blk(ES(Asg(a, Arr(N("1")))), ES(Asg(b, a)), ES(Asg(Idx(b, N("3")), N("9"))), Pr(js(a)))}}}
	case 5:
		return &Program{Items: []any{&Rule{Kind: "BEGIN", Body: Blk(ES(Asg(a, Arr(N("1")))), Pr(js(Meth(Meth(a, "push", N("2")), "push", N("3"))), js(a)))}}}
	default:
		return &Program{Items: []any{&Rule{Kind: "BEGIN", Body: Blk(ES(Asg(a, Arr(Arr(N("1"))))), &ForIn{V: "x", It: a, Body: Blk(ES(Meth(x, "push", N("2"))))}, Pr(js(a)))}}}
	}
}

// ---- enumerated: an array shrunk by pop / popfirst and then extended past its end (the gap is null, whatever
// the slots held before), and container literals built from variables (scalars are copied in)

func c09EnumPrograms() []*Program {
	var out []*Program
	js := func(e Expr) Expr { return CallE(V("json"), e) }
	a := Expr(V("a"))
	for L := 2; L <= 6; L++ {
		for q := 0; q <= 2; q++ {
			for r := 1; r <= 4 && r <= L+q; r++ {
				for rk := 0; rk < 3; rk++ {
					for g := 1; g <= 3; g++ {
						var items []Expr
						for i := 1; i <= L; i++ {
							items = append(items, N(strconv.Itoa(i)))
						}
						body := []Stmt{asg(a, Arr(items...))}
						for i := 0; i < q; i++ {
							body = append(body, ES(Meth(a, "push", N(strconv.Itoa(50+i)))))
						}
						for i := 0; i < r; i++ {
							m := "pop"
							if rk == 1 || (rk == 2 && i%2 == 1) {
								m = "popfirst"
							}
							body = append(body, ES(Meth(a, m)))
						}
						ln := L + q - r
						body = append(body, Pr(js(a), Meth(a, "length")),
							asg(Idx(a, N(strconv.Itoa(ln+g))), N("99")), Pr(js(a), Meth(a, "length")),
							asg(Idx(a, N(strconv.Itoa(ln+g+2))), N("98")), Pr(js(a), Meth(a, "length")),
							ES(Meth(a, "pop")), ES(Meth(a, "pop")), ES(Meth(a, "pop")), asg(Idx(a, N(strconv.Itoa(ln+g+1))), S("again")), Pr(js(a)))
						out = append(out, &Program{Items: []any{&Rule{Kind: "BEGIN", Body: &Block{Stmts: body}}}})
					}
				}
			}
		}
	}
	// container literals built from variables / members / loop variables
	vals := []Expr{S("ann"), N("5"), &BoolLit{V: true}, &NullLit{}, Arr(N("1")), obj1("k", N("1"))}
	news := []Expr{S("bob"), N("6"), &BoolLit{V: false}, S("was-null"), Arr(N("2")), obj1("k", N("2"))}
	lits := []func(x Expr) (Expr, Expr){
		func(x Expr) (Expr, Expr) { return obj1("who", x), Mem(V("rec"), "who") },
		func(x Expr) (Expr, Expr) { return Arr(x), Idx(V("rec"), N("0")) },
		func(x Expr) (Expr, Expr) { return obj1("o", obj1("w", x)), Mem(Mem(V("rec"), "o"), "w") },
		func(x Expr) (Expr, Expr) { return Arr(N("0"), Arr(x)), Idx(Idx(V("rec"), N("1")), N("0")) },
		func(x Expr) (Expr, Expr) {
			return &ObjectLit{Keys: []string{"p", "q"}, Quoted: []bool{false, true}, Vals: []Expr{x, x}}, Mem(V("rec"), "q")
		},
	}
	for vi, v := range vals {
		for li, lit := range lits {
			for src := 0; src < 4; src++ {
				var setup []Stmt
				var x Expr
				switch src {
				case 0:
					setup, x = []Stmt{asg(V("name"), v)}, V("name")
				case 1:
					setup, x = []Stmt{asg(Mem(V("holder"), "f"), v)}, Mem(V("holder"), "f")
				case 2:
					setup, x = []Stmt{asg(V("arr"), Arr(v, N("0")))}, Idx(V("arr"), N("0"))
				default:
					setup, x = []Stmt{asg(Mem(Mem(V("deep"), "a"), "b"), v)}, Mem(Mem(V("deep"), "a"), "b")
				}
				le, slot := lit(x)
				body := append(setup, asg(V("rec"), le), Pr(S("built"), js(V("rec")), js(x)),
					asg(x, news[vi]), Pr(S("source-stored"), js(V("rec")), js(x)),
					asg(slot, S("eve")), Pr(S("member-stored"), js(V("rec")), js(x)))
				if vi == 0 || vi == 1 {
					body = append(body, ES(&Assign{Op: "+=", L: x, R: news[vi]}), Pr(S("source-compound"), js(V("rec")), js(x)))
				}
				_ = li
				out = append(out, &Program{Items: []any{&Rule{Kind: "BEGIN", Body: &Block{Stmts: body}}}})
			}
		}
	}
	// a store into one parameter the caller left out changes that parameter only
	for nparams := 2; nparams <= 4; nparams++ {
		for given := 0; given < nparams-1; given++ {
			for target := given; target < nparams; target++ {
				for kind := 0; kind < 4; kind++ {
					var params []string
					var ret []Expr
					for i := 0; i < nparams; i++ {
						params = append(params, fmt.Sprintf("p%d", i))
						ret = append(ret, V(fmt.Sprintf("p%d", i)))
					}
					t := V(params[target])
					var st Stmt
					switch kind {
					case 0:
						st = asg(t, S("set"))
					case 1:
						st = ES(&IncDec{Op: "++", X: t})
					case 2:
						st = ES(&Assign{Op: "+=", L: t, R: N("5")})
					default:
						st = asg(t, Arr(N("1")))
					}
					fn := &Func{Name: "fn", Params: params, Body: Blk(Pr(S("before"), js(Arr(ret...))), st, Pr(S("after"), js(Arr(ret...))), &Return{X: Arr(ret...)})}
					var args []Expr
					for i := 0; i < given; i++ {
						args = append(args, N(strconv.Itoa(10+i)))
					}
					body := []Stmt{Pr(js(CallE(V("fn"), args...))), Pr(js(CallE(V("fn"), args...)))}
					out = append(out, &Program{Items: []any{fn, &Rule{Kind: "BEGIN", Body: &Block{Stmts: body}}}})
				}
			}
		}
	}
	// prefix and postfix ++ / -- on locations that have to be created: the value of the expression and what is stored
	for _, loc := range []func() Expr{
		func() Expr { return Idx(V("hist"), N("2")) }, func() Expr { return Idx(V("hist"), N("0")) }, func() Expr { return Idx(Mem(V("rec"), "visits"), N("3")) },
		func() Expr { return Mem(V("cnt"), "k") }, func() Expr { return Idx(Idx(V("grid"), N("1")), N("2")) }, func() Expr { return Mem(Idx(V("rows"), N("1")), "n") }, func() Expr { return V("plain") },
		func() Expr { return Idx(V("short"), N("4")) },
	} {
		for _, op := range []string{"++", "--"} {
			for _, prefix := range []bool{true, false} {
				body := []Stmt{asg(V("short"), Arr(N("1"), N("2"))),
					asg(V("first"), &IncDec{Op: op, Prefix: prefix, X: loc()}), Pr(S("first"), js(V("first")), js(loc())),
					asg(V("second"), &IncDec{Op: op, Prefix: prefix, X: loc()}), Pr(S("second"), js(V("second")), js(loc())),
					Pr(js(V("hist")), js(V("rec")), js(V("cnt")), js(V("grid")), js(V("rows")), js(V("short")))}
				out = append(out, &Program{Items: []any{&Rule{Kind: "BEGIN", Body: &Block{Stmts: body}}}})
			}
		}
	}
	// literals built inside loops from the loop variable
	for _, it := range []Expr{Arr(S("x"), S("y"), S("z")), Arr(N("1"), N("2"), N("3")), S("abc"), obj1("p", S("u"))} { // a one-key object: the order in which several keys are visited is not stated
		for li := 0; li < 2; li++ {
			var lit Expr = obj1("key", V("k"))
			if li == 1 {
				lit = Arr(V("k"), V("k"))
			}
			body := []Stmt{asg(V("list"), Arr()), &ForIn{V: "k", It: it, Body: Blk(ES(Meth(V("list"), "push", lit)))}, Pr(js(V("list"))),
				asg(V("n"), N("0")), &ForIn{V: "k", V2: "w", It: it, Body: Blk(asg(Idx(V("byidx"), V("n")), obj1("pair", Arr(V("k"), V("w")))), ES(&IncDec{Op: "++", X: V("n")}))}, Pr(js(V("byidx")))}
			out = append(out, &Program{Items: []any{&Rule{Kind: "BEGIN", Body: &Block{Stmts: body}}}})
		}
	}
	return out
}

var c09Enum = c09EnumPrograms()

// ---- laws on the implementation alone (results computed by hand)
var c09Text = []struct{ prog, want string }{
	// every evaluation of an array / object literal gives new cells
	{"function mk() { return [1, 2, 3, 4, 5, 6, 7, 8, 9] } BEGIN { a = mk(); b = mk(); a[0] = 'changed'; a[8]++; b[1] += 5; print a, b, mk() }", "[\"changed\", 2, 3, 4, 5, 6, 7, 8, 10] [1, 7, 3, 4, 5, 6, 7, 8, 9] [1, 2, 3, 4, 5, 6, 7, 8, 9]\n"},
	{"BEGIN { for (i in [1, 2]) { t = ['a', 'b', 'c', 'd', 'e', 'f', 'g', 'h']; t[i] = t[i] + '!'; print t } }", "[\"a\", \"b!\", \"c\", \"d\", \"e\", \"f\", \"g\", \"h\"]\n[\"a\", \"b\", \"c!\", \"d\", \"e\", \"f\", \"g\", \"h\"]\n"},
	{"BEGIN { rows = [] } { row = [0, 0, 0, 0, 0, 0, 0, 0, true, null, 'x']; row[$.i] = $.v; rows.push(row) } END { print rows }", "[[0, 0, 7, 0, 0, 0, 0, 0, true, null, \"x\"], [0, 0, 0, 0, 0, 8, 0, 0, true, null, \"x\"]]\n"},
	{"function cfg() { return {a: 1, b: 2, c: 3, d: 4, e: 5, f: 6, g: 7, h: 8} } BEGIN { x = cfg(); y = cfg(); x.a = 'changed'; y.h++; print x.a, y.a, x.h, y.h, cfg().a }", "changed 1 8 9 1\n"},
	// own keys named like methods are ordinary members
	{"BEGIN { o = {length: 5, pluck: 'p', push: 1, k: 2}; print o.length, o['pluck'], o.push, o.k; o.length = 6; o.pluck += 'q'; o.push++; print o, o.length }", "5 p 1 2\n{\"k\": 2, \"length\": 6, \"pluck\": \"pq\", \"push\": 2} 6\n"},
	{"BEGINFILE { print $.length, $.pluck; $.length++; $.pluck = 'new'; $.contains = [1]; print $ }", "1 x\n{\"a\": 3, \"contains\": [1], \"i\": 2, \"length\": 2, \"pluck\": \"new\", \"v\": 7}\n1 x\n{\"a\": 3, \"contains\": [1], \"i\": 5, \"length\": 2, \"pluck\": \"new\", \"v\": 8}\n"},
	// a store to a member named like a method creates the member (the method is looked up only when there is no such member)
	{"BEGIN { o = {}; o.length = 3; o.sort = 's'; o.upper = o.length + 1; print o, o.length, o.sort, o.upper }", "{\"length\": 3, \"sort\": \"s\", \"upper\": 4} 3 s 4\n"},
	{"BEGIN { o = {k: 1}; print o.length(), o.pluck('k'); o.length = 'own'; o['pluck'] = 2; o.contains = [1]; print o.length, o }", "1 {\"k\": 1}\nown {\"contains\": [1], \"k\": 1, \"length\": \"own\", \"pluck\": 2}\n"},
	// sort() gives a new array with cells of its own: a store into either leaves the other (and the document) alone
	{"BEGIN { a = [3, 1, 2]; s = a.sort(); s[0] = 99; a[1] = 7; s[2]++; print a, s; b = a.sort().sort(); b[0] = 'b'; print a, b }", "[3, 7, 2] [99, 2, 4]\n[3, 7, 2] [\"b\", 3, 7]\n"},
	{"{ t = [$.v, $.i, $.a]; s = t.sort(); s[0] = 'x'; s[1] += 100; t[2]--; print t, s, $.v, $.i, $.a }", "[7, 2, 2] [\"x\", 103, 7] 7 2 3\n[8, 5, 2] [\"x\", 105, 8] 8 5 3\n"},
	{"{ $.list = [$.v, $.i]; s = $.list.sort(); s[0] = 0; s[1] = [s[1]]; print $.list, s }", "[7, 2] [0, [7]]\n[8, 5] [0, [8]]\n"},
	// a location created by the right-hand side of the assignment is kept, not replaced
	{"BEGIN { o = {}; o.b.x = o.b.y = 1; a[1].p = a[1].q = a[0] = 2; print o, a }", "{\"b\": {\"x\": 1, \"y\": 1}} [2, {\"p\": 2, \"q\": 2}]\n"},
	{"function side() { $.m.made = $.i; return 'r' } { $.m.res = side(); print $.m }", "{\"made\": 2, \"res\": \"r\"}\n{\"made\": 5, \"res\": \"r\"}\n"},
	// ... also when what the right-hand side put there is an unset value (a store below it makes it a container, as in two statements)
	{"BEGIN { o = {}; o.b.x = o.b = neverset; a = []; a[0][1] = a[0] = neverset; p = {q: {}}; p.q.r = p.q = neverset; print json(o), json(a), json(p) }", "{\n  \"b\": {\n    \"x\": null\n  }\n} [\n  [\n    null,\n    null\n  ]\n] {\n  \"q\": {\n    \"r\": null\n  }\n}\n"},
	// ... also when the store goes deeper: the missing member is created as an object or array, as under any other name
	{"BEGIN { o = {}; o.length.x = 1; o.pluck[1] = 'p'; o.sort.by.key++; print o, o.length.x, o.pluck.length() }", "{\"length\": {\"x\": 1}, \"pluck\": [null, \"p\"], \"sort\": {\"by\": {\"key\": 1}}} 1 2\n"},
	{"{ $.contains.n = $.i; $.split.length = 1; print $ }", "{\"a\": 3, \"contains\": {\"n\": 2}, \"i\": 2, \"length\": 1, \"pluck\": \"x\", \"split\": {\"length\": 1}, \"v\": 7}\n{\"a\": 3, \"contains\": {\"n\": 5}, \"i\": 5, \"length\": 1, \"pluck\": \"x\", \"split\": {\"length\": 1}, \"v\": 8}\n"},
	{"{ $.push = $.a; $.sort = $.push + 1; print $ }", "{\"a\": 3, \"i\": 2, \"length\": 1, \"pluck\": \"x\", \"push\": 3, \"sort\": 4, \"v\": 7}\n{\"a\": 3, \"i\": 5, \"length\": 1, \"pluck\": \"x\", \"push\": 3, \"sort\": 4, \"v\": 8}\n"},
}

func c09TextRun(c *Case, k int) {
	t := c09Text[k]
	in := `{"length": 1, "pluck": "x", "a": 3, "i": 2, "v": 7} {"length": 1, "pluck": "x", "a": 3, "i": 5, "v": 8}`
	lib := RunLib(t.prog, []InFile{{Name: "in.json", Data: []byte(in)}}, nil, RunOpts{Budget: 200000})
	c.NonTrivial("text:" + t.prog)
	c.Count("hand_computed_programs")
	// (objects are printed with their keys in a deterministic order that no statement fixes: key order apart)
	if lib.Class == "ok" && (string(lib.Stdout) == t.want || sameLinesOrderFree(t.want, string(lib.Stdout))) {
		c.Held()
		return
	}
	c.Violation(fmt.Sprintf("want %q, got %s (%s) %q | program: %s", t.want, lib.Class, lib.Msg, clip(string(lib.Stdout), 200), t.prog), nil, map[string]any{"program": t.prog, "input": in})
}

func c09Cases(tier string) int {
	if tier == "thorough" {
		return len(c09AliasForms) + len(c09Enum) + 1000000 + 600000
	}
	return len(c09AliasForms) + len(c09Enum) + 20000 + 20000
}

func c09Run(c *Case) {
	i := c.Idx
	if i == 0 {
		round8Hand(c, "C09")
	}
	na := len(c09AliasForms)
	if i >= na && i < na+len(c09Text) {
		c09TextRun(c, i-na)
		return
	}
	if i >= na && i < na+len(c09Enum) {
		c.NonTrivial(fmt.Sprintf("enum:%d", i-na))
		c.Count("enumerated_shrink_extend_and_literal_copy_programs")
		m2(c, &M2Case{Prog: c09Enum[i-na], Desc: "enumerated store program"})
		return
	}
	if i >= na {
		i -= len(c09Enum)
	}
	nh := 20000
	if c.Tier == "thorough" {
		nh = 1000000
	}
	switch {
	case i < na:
		p := c09AliasProgram(i)
		c.Count("alias_resize_forms")
		c.NonTrivial("alias:" + c09AliasForms[i])
		m2(c, &M2Case{Prog: p, Desc: "length change through one of two references: " + c09AliasForms[i]})
	case i < na+nh:
		g := &asgGen{rng: c.Rng, assigned: map[string]bool{}, stats: map[string]int{}, allowTag: noPinned}
		arrayRoot := c.Rng.IntN(4) == 0
		var doc any
		if arrayRoot {
			doc = []any{g.genDocVal(2), g.genDocVal(2)}
		} else {
			doc = map[string]any{"a": g.genDocVal(2), "list": g.genDocVal(2), "b": g.genDocVal(3)}
		}
		var body []Stmt
		if arrayRoot {
			// $ is an element: the history runs per element; model the first element for candidate selection
			body = g.history(3+c.Rng.IntN(10), doc)
		} else {
			body = g.history(3+c.Rng.IntN(23), doc)
		}
		if len(body) == 0 {
			c.Inconclusive("empty-history")
			return
		}
		p := c09Program(body)
		rd := RenderProgram(p, ParenMinimal, nil)
		text, _ := rd.Layout(nil)
		if rd.LeadBad {
			c.Inconclusive("generator-discipline")
			return
		}
		files := []InFile{{Name: "in.json", Data: jsonBytes(doc)}}
		r := m2(c, &M2Case{Prog: p, Text: text, Files: files, WantRoot: true, Desc: "assignment history", Quiet: true})
		if r.Verdict == "violated" {
			// shrink: drop (statement, dump) pairs while the disagreement persists
			cur := body
			for changed := true; changed; {
				changed = false
				for k := 0; k+1 < len(cur); k += 2 {
					cand := append(append([]Stmt{}, cur[:k]...), cur[k+2:]...)
					if len(cand) == 0 {
						continue
					}
					rr := m2(c, &M2Case{Prog: c09Program(cand), Files: files, WantRoot: true, Quiet: true})
					if rr.Verdict == "violated" && noPinned(rr.Mod.Tags) {
						cur = cand
						changed = true
						break
					}
				}
			}
			pm := c09Program(cur)
			m2(c, &M2Case{Prog: pm, Files: files, WantRoot: true, Desc: "assignment history (shrunk)", Replay: map[string]any{"original_program": text}})
		} else {
			m2(c, &M2Case{Prog: p, Text: text, Files: files, WantRoot: true, Desc: "assignment history"})
		}
		for k, v := range g.stats {
			c.CountN("history:"+k, v)
		}
		if r.Mod != nil {
			c.CountN("model_stores", r.Mod.Stats["store"])
			c.CountN("model_vivifications", r.Mod.Stats["vivify"])
			c.CountN("model_paddings", r.Mod.Stats["pad"])
			if r.Mod.Stats["store"] >= 1 && len(body) >= 4 {
				c.NonTrivial(text)
			}
		}
		if i == na+1 {
			c.Sample(map[string]any{"history": text, "document": string(jsonBytes(doc))})
		}
	default:
		c09ReadOnly(c)
	}
}

func init() {
	register(&Prop{
		ID: "C09", Level: "exploration",
		Rule:          "sampled histories of 3-25 statements over 3 variables and $-paths into a generated document: stores to existing/missing/unset bases (chains to depth 4; indices in range, at length, past the end, negative in and out of range), compound assignments, ++/-- (value of prefix/postfix forms printed), reads, aliasing (b = a, containers stored in containers, parameters, loop variables) followed by element stores through one name; after EVERY statement the program prints json() of every live variable and of $, and the run ends with the -o document: all compared path by path with the reference model's heap. Candidate statements that would leave the stated semantics are discarded using the model. Read-only slice: {print e} / e{} / printf %v with e free of assignments and mutating calls: -o document must equal the input. 7 enumerated alias-resize forms (length change through one of two references). Non-trivial = history with >= 1 store and >= 2 statements (every statement is followed by a dump of all other locations); distinct by program text. One statement kind stores to two locations under a common, often missing, prefix in one statement (t.k1 = t.k2 = v, also t[i] = t[j] = v and deeper): the location the right-hand side creates is kept. Method names (length, pluck) are ordinary keys for stores of any depth. 3 hand-computed programs storing into sort() results and their receivers.",
		NumCases:      c09Cases,
		Run:           c09Run,
		MinConclusive: func(tier string) int { return 3000 },
		Assumptions:   []string{"store/read semantics of DESIGN.md section 3.4-3.5", "a statement never reads and writes one location in different sub-expressions"},
	})
}
