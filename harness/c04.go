package main

// C04 — JSON written by -o and json() is valid and equal to the value it represents.

import (
	"bytes"
	"encoding/json"
	"fmt"
	"math"
	"math/rand/v2"
	"os"
	"os/exec"
	"path/filepath"
	"sort"
	"strconv"
	"strings"
	"time"
	"unicode/utf8"
)

type docGen struct {
	rng    *rand.Rand
	stats  map[string]int
	unsafe bool // contains invalid UTF-8 or lone surrogates (not given to jq)
}

var docKeys = []string{"\\\\u003ckey", "a", "b", "k", "length", "pluck", "push", "", "key with space", "é", "\\u00e9", "q\\\"uote", "日本", "a", "dup"}

func (g *docGen) numText() string {
	switch g.rng.IntN(14) {
	case 0:
		return strconv.Itoa(g.rng.IntN(200) - 100)
	case 1:
		return []string{"0", "-0", "0.0", "-0.0", "0e0", "0E-5"}[g.rng.IntN(6)]
	case 2:
		return strconv.FormatFloat(math.Float64frombits(uint64(g.rng.IntN(2000)+1)), 'g', -1, 64) // subnormal
	case 3:
		// around 2^53 and at the edges of the 32- and 64-bit integer types (9223372036854775807 reads as the double 2^63)
		return []string{"9007199254740991", "9007199254740992", "9007199254740993", "-9007199254740993", "18446744073709551616", "9223372036854775807", "9223372036854775808", "-9223372036854775808", "-9223372036854775809",
			"9223372036854774784", "18446744073709551615", "4294967295", "4294967296", "-2147483649", "9.223372036854775808e18", "36893488147419103232"}[g.rng.IntN(16)]
	case 4:
		return []string{"1e308", "1.7976931348623157e308", "-1.7976931348623157E+308", "5e-324", "4.9406564584124654e-324", "2.2250738585072014e-308"}[g.rng.IntN(6)]
	case 5:
		return "0." + strings.Repeat("123456789", 1+g.rng.IntN(5))
	case 6:
		return strings.Repeat("9", 10+g.rng.IntN(40))
	case 7:
		return "1" + strings.Repeat("0", g.rng.IntN(30)) + "." + strings.Repeat("0", g.rng.IntN(5)) + "1"
	case 8:
		return fmt.Sprintf("%de%d", g.rng.IntN(99)+1, g.rng.IntN(600)-300)
	case 9:
		for {
			f := math.Float64frombits(g.rng.Uint64())
			if !math.IsInf(f, 0) && !math.IsNaN(f) {
				return strconv.FormatFloat(f, 'g', -1, 64)
			}
		}
	case 10:
		return strconv.FormatFloat(randDouble(g.rng), 'f', -1, 64)
	}
	return strconv.FormatFloat(float64(g.rng.IntN(100000))/64, 'f', -1, 64)
}

func (g *docGen) strText() string {
	var sb strings.Builder
	sb.WriteByte('"')
	for i := g.rng.IntN(8); i > 0; i-- {
		switch g.rng.IntN(16) {
		case 0:
			sb.WriteString([]string{"\\n", "\\t", "\\r", "\\b", "\\f", "\\/", "\\\\", "\\\""}[g.rng.IntN(8)])
			g.stats["escape"]++
		case 1:
			sb.WriteString("\\u0000")
			g.stats["nul"]++
		case 2:
			sb.WriteString([]string{"\\u00e9", "\\u65e5", "\\u2028", "\\u001f", "\\u007f", "\\u0001", "\\u0007", "\\u000b", "\\udb40\\udc01", "\\ufeff", "\\u0085", "\\u00a0", "\\ufffe", "\\u200b"}[g.rng.IntN(14)])
		case 10:
			// text that looks like comments, paths ending in a backslash, URLs
			sb.WriteString([]string{"C:\\\\tmp\\\\", "http://example.com/x", "//", "a // b", "/* c */", "\\\\", "\\\\\\\"", "# not a comment", "\\\\//"}[g.rng.IntN(9)])
			g.stats["comment-and-path-like-text"]++
		case 9:
			// raw characters that reader-side conveniences like to drop: U+FEFF (the byte order mark), U+2028, DEL, a private-use astral character
			sb.WriteString([]string{"\ufeff", "\u2028", "\x7f", "\U000e0001", "\u00a0", "\ufeffx\ufeff"}[g.rng.IntN(6)])
			g.stats["raw-special-characters"]++
		case 3:
			sb.WriteString("\\ud83d\\ude00") // surrogate pair
			g.stats["surrogate-pair"]++
		case 4:
			sb.WriteString([]string{"\\ud800", "\\udc00", "\\ud83dx"}[g.rng.IntN(3)]) // lone surrogate
			g.stats["lone-surrogate"]++
			g.unsafe = true
		case 5:
			sb.WriteString([]string{"é", "日本", "😀", "ß", " ", " "}[g.rng.IntN(6)])
			g.stats["non-ascii"]++
		case 6:
			sb.Write([]byte{[]byte{0xff, 0xc3, 0x80, 0xe6}[g.rng.IntN(4)]}) // invalid UTF-8 (the decoder repairs it)
			g.stats["invalid-utf8"]++
			g.unsafe = true
		case 7:
			sb.WriteString([]string{"<", ">", "&", "'", "</script>", "100%", "%d", "%s%v", "%!"}[g.rng.IntN(9)])
		case 8:
			// an escaped backslash followed by text that looks like an escape: the string holds the characters \ u 0 0 3 c
			sb.WriteString([]string{"\\\\u003c", "\\\\u003e", "\\\\u0026", "\\\\u2028", "\\\\n", "\\\\\\\"", "\\\\u00e9", "\\\\\\\\", "\\\\/"}[g.rng.IntN(9)])
			g.stats["escaped-backslash-before-escape-like-text"]++
		default:
			sb.WriteByte("abcxyz 0123,:[]{}"[g.rng.IntN(17)])
		}
	}
	sb.WriteByte('"')
	return sb.String()
}

func (g *docGen) ws() string { return []string{"", "", " ", "\n", "\t", " \r\n "}[g.rng.IntN(6)] }

func (g *docGen) value(depth int) string {
	k := g.rng.IntN(14)
	if depth <= 0 && k >= 8 {
		k = g.rng.IntN(8)
	}
	switch {
	case k < 3:
		return g.numText()
	case k < 5:
		return g.strText()
	case k < 6:
		return []string{"true", "false", "null"}[g.rng.IntN(3)]
	case k < 7:
		g.stats["empty-array"]++
		return "[" + g.ws() + "]"
	case k < 8:
		g.stats["empty-object"]++
		return "{" + g.ws() + "}"
	case k < 11:
		n := 1 + g.rng.IntN(4)
		parts := make([]string, n)
		for i := range parts {
			parts[i] = g.ws() + g.value(depth-1) + g.ws()
		}
		return "[" + strings.Join(parts, ",") + "]"
	}
	n := 1 + g.rng.IntN(4)
	parts := make([]string, n)
	for i := range parts {
		key := docKeys[g.rng.IntN(len(docKeys))]
		parts[i] = g.ws() + "\"" + key + "\"" + g.ws() + ":" + g.ws() + g.value(depth-1)
	}
	return "{" + strings.Join(parts, ",") + g.ws() + "}"
}

func (g *docGen) doc() string {
	switch g.rng.IntN(10) {
	case 0: // deep nesting with an empty container at the bottom
		n := 20 + g.rng.IntN(181)
		if g.rng.IntN(40) == 0 {
			n = 4000 + g.rng.IntN(700) // beyond every other limit of the interpreter (4096 frames), well inside what the reader accepts (10000)
			g.stats["very-deep"]++
		}
		var sb strings.Builder
		closers := make([]byte, 0, n)
		for i := 0; i < n; i++ {
			if g.rng.IntN(2) == 0 {
				sb.WriteString("[")
				closers = append(closers, ']')
			} else {
				sb.WriteString("{\"d\":")
				closers = append(closers, '}')
			}
		}
		sb.WriteString([]string{"[]", "{}", "1.5", "\"x\""}[g.rng.IntN(4)])
		for i := len(closers) - 1; i >= 0; i-- {
			sb.WriteByte(closers[i])
		}
		g.stats["deep"]++
		return sb.String()
	case 1:
		return g.value(0)
	case 2:
		if g.rng.IntN(3) == 0 {
			// a document of 2-20 KiB in which a three-byte character recurs at varying offsets (some fall on the boundaries of read chunks)
			var sb strings.Builder
			sb.WriteString("[")
			for i := 0; sb.Len() < 2000+g.rng.IntN(18000); i++ {
				if i > 0 {
					sb.WriteString(",")
				}
				sb.WriteString("\"" + strings.Repeat("x", g.rng.IntN(7)) + "\ufeff" + strings.Repeat("\ufeff", g.rng.IntN(3)) + "\"")
			}
			sb.WriteString("]")
			g.stats["long-with-recurring-bom-character"]++
			return sb.String()
		}
	}
	return g.value(2 + g.rng.IntN(4))
}

var c04Programs = []struct {
	prog string
	sel  string // "" | a | 0
}{
	{"", ""}, {"{}", ""}, {"{ }", ""}, {"$.a is number && $.a > 1 { }", ""}, {"{ x = $ }", ""}, {"BEGINFILE { n++ } ENDFILE { m = n }", ""}, {"$ is object { for (k, v in $) { c++ } }", ""},
	{"{ y = $.a.b.c; z = $[0] }", ""}, {"$ is array { t++ }", ""}, {"{}", "a"}, {"{ x = $ }", "0"}, {"", "a"}, {"{}", "whole"},
	{"JSONCALLS", ""},
}

func hasJSONFeature(text string) bool {
	return strings.Contains(text, "\\") || strings.Contains(text, ".") || strings.ContainsAny(text, "eE") || strings.Count(text, "[")+strings.Count(text, "{") >= 2
}

func c04Doc(c *Case) {
	g := &docGen{rng: c.Rng, stats: map[string]int{}}
	text := g.doc()
	want, n, err := decodeOne([]byte(text))
	if err != nil || n != len(strings.TrimRight(text, " \t\r\n")) && false {
		c.Inconclusive("generated-document-not-accepted-by-decoder")
		return
	}
	pc := c04Programs[c.Rng.IntN(len(c04Programs))]
	var sels []string
	expect := want
	switch pc.sel {
	case "a":
		sels = []string{"$.a"}
		if o, ok := want.(map[string]any); ok {
			expect = o["a"] // missing: null
		} else {
			expect = nil
		}
		if _, isStr := want.(string); isStr {
			c.Inconclusive("selector-on-string") // member of a string that names a method is [P]
			return
		}
	case "0":
		sels = []string{"$[0]"}
		arr, ok := want.([]any)
		if !ok {
			c.Inconclusive("index-selector-on-non-array") // numeric keys on objects / string indexing are [P]
			return
		}
		expect = nil
		if len(arr) > 0 {
			expect = arr[0]
		}
	case "whole":
		sels = []string{"$"}
	}
	for k, v := range g.stats {
		c.CountN("documents_with:"+k, v)
	}
	c.Count("documents")
	if pc.prog == "JSONCALLS" {
		c04JsonCalls(c, g, text, want)
		return
	}
	lib := RunLib(pc.prog, []InFile{{Name: "in.json", Data: []byte(text)}}, sels, RunOpts{WantRoot: true})
	rp := map[string]any{"program": pc.prog, "selectors": sels, "input": text}
	if lib.Class != "ok" {
		c.Violation(fmt.Sprintf("program %q on a well-formed document ended as %s (%s %s) | input %s", pc.prog, lib.Class, lib.Msg, lib.PanicVal, clip(text, 160)), nil, rp)
		return
	}
	if !lib.HasRoot || lib.RootErr != "" {
		c.Violation(fmt.Sprintf("document could not be written: %s | program %q selectors %q input %s", lib.RootErr, pc.prog, sels, clip(text, 160)), nil, rp)
		return
	}
	if hasJSONFeature(text) {
		c.NonTrivial(text + "|" + pc.prog + pc.sel)
	}
	if !json.Valid([]byte(lib.RootJSON)) || !utf8.ValidString(lib.RootJSON) {
		c.Violation("written JSON is not valid: "+clip(lib.RootJSON, 160), nil, rp)
		return
	}
	got, _, _ := decodeOne([]byte(lib.RootJSON))
	if !jsonEqual(expect, got) {
		rp["output"] = lib.RootJSON
		c.Violation(fmt.Sprintf("written JSON differs from the input as read at %s | program %q selectors %q | input %s | output %s", firstDiffPath(expect, got, "$"), pc.prog, sels, clip(text, 200), clip(lib.RootJSON, 200)), nil, rp)
		return
	}
	c.Held()
	if c.Idx%2000 == 9 {
		c.Sample(map[string]any{"input": clip(text, 300), "program": pc.prog, "selectors": sels})
	}
	// thorough: second opinion by jq on documents it can read
	if c.Tier == "thorough" && c.Idx%100 == 0 && !g.unsafe && pc.sel == "" {
		c04Jq(c, text, lib.RootJSON)
	}
	// a sample through the binary: -o - and -o FILE
	if c.Idx%20 == 0 && !strings.ContainsRune(text, 0) && g.stats["very-deep"] == 0 {
		args := []string{}
		for _, s := range sels {
			args = append(args, "-r", s)
		}
		outf := filepath.Join(c.env.Scratch, "o.json")
		os.Remove(outf)
		how := "fresh file"
		var r *CliResult
		switch (c.Idx / 20) % 4 {
		case 1: // the target exists and is longer than what will be written
			how = "existing longer file"
			os.WriteFile(outf, []byte(lib.RootJSON+"\n"+strings.Repeat("{\"old\": [1, 2, 3]}\n", 3+c.Rng.IntN(40))), 0o644)
			r = RunCli(c.env.Jqawk, append(args, "-o", outf, "--", pc.prog), []byte(text), c.env.Scratch, 120*time.Second)
		case 2: // rewrite in place: the target is the input file, re-indented wider than the output will be
			how = "in place over a longer input file"
			var wide bytes.Buffer
			if json.Indent(&wide, []byte(text), "", "        ") != nil {
				wide.Reset()
				wide.WriteString(text)
			}
			wide.WriteString(strings.Repeat(" \n", 50))
			os.WriteFile(outf, wide.Bytes(), 0o644)
			r = RunCli(c.env.Jqawk, append(args, "-o", outf, "--", pc.prog, outf), nil, c.env.Scratch, 120*time.Second)
		case 3: // the target exists and is shorter
			how = "existing shorter file"
			os.WriteFile(outf, []byte("0"), 0o644)
			r = RunCli(c.env.Jqawk, append(args, "-o", outf, "--", pc.prog), []byte(text), c.env.Scratch, 120*time.Second)
		default:
			r = RunCli(c.env.Jqawk, append(args, "-o", outf, "--", pc.prog), []byte(text), c.env.Scratch, 120*time.Second)
		}
		b, rerr := os.ReadFile(outf)
		os.Remove(outf)
		if r.TimedOut {
			c.Inconclusive("binary-watchdog")
			return
		}
		c.Count("binary_runs")
		c.Count("binary_-o:" + how)
		if r.Exit != 0 || rerr != nil || string(b) != lib.RootJSON {
			rp["target"] = how
			c.Violation(fmt.Sprintf("binary -o FILE (%s): exit %d stderr %q, file (%d bytes) differs from the library's JSON (%d bytes) (%v)", how, r.Exit, clip(string(r.Stderr), 80), len(b), len(lib.RootJSON), rerr), nil, rp)
			return
		}
		c.Held()
	}
}

// json($) and json() of every member / element of the document, as text: each must be valid JSON equal to the value
func c04JsonCalls(c *Case, g *docGen, text string, want any) {
	const sep = "\x01SEP\x02"
	prog := "{ printf('%s" + sep + "', json($)) } $ is array { for (v in $) { printf('%s" + sep + "', json(v)) } } $ is object { for (k, v in $) { printf('%s" + sep + "', json(v)) } }"
	// a pattern rule over an array root runs per element: wrap the document so that $ is the document itself
	doc := "{\"d\": " + text + "}"
	prog = "{ printf('%s" + sep + "', json($.d)); if ($.d is array) { for (v in $.d) { printf('%s" + sep + "', json(v)) } } if ($.d is object) { for (k, v in $.d) { printf('%s" + sep + "', json(v)) } } }"
	lib := RunLib(prog, []InFile{{Name: "in.json", Data: []byte(doc)}}, nil, RunOpts{Budget: 2000000})
	c.Count("json_call_documents")
	rp := map[string]any{"program": prog, "input": doc}
	if lib.Class != "ok" {
		c.Violation(fmt.Sprintf("json() of a well-formed document ended as %s (%s %s) | input %s", lib.Class, lib.Msg, lib.PanicVal, clip(doc, 160)), nil, rp)
		return
	}
	parts := strings.Split(string(lib.Stdout), sep)
	parts = parts[:len(parts)-1]
	var wants []any
	wants = append(wants, want)
	switch x := want.(type) {
	case []any:
		wants = append(wants, x...)
	case map[string]any:
		keys := make([]string, 0, len(x))
		for k := range x {
			keys = append(keys, k)
		}
		sort.Strings(keys)
		for _, k := range keys {
			wants = append(wants, x[k])
		}
	}
	if len(parts) != len(wants) {
		c.Violation(fmt.Sprintf("json() calls: %d results for %d values | input %s", len(parts), len(wants), clip(doc, 160)), nil, rp)
		return
	}
	if hasJSONFeature(text) {
		c.NonTrivial("jsoncalls|" + text)
	}
	_, isObj := want.(map[string]any)
	for i, pt := range parts {
		if !json.Valid([]byte(pt)) || !utf8.ValidString(pt) {
			c.Violation(fmt.Sprintf("json() result %d is not valid JSON: %s | input %s", i, clip(pt, 120), clip(doc, 160)), nil, rp)
			return
		}
		got, _, _ := decodeOne([]byte(pt))
		if isObj && i > 0 {
			// members are visited in an unspecified order: each result must equal some member not yet used
			found := -1
			for j := 1; j < len(wants); j++ {
				if wants[j] != struct{}{} && jsonEqual(wants[j], got) {
					found = j
					break
				}
			}
			if found < 0 {
				c.Violation(fmt.Sprintf("json() of a member gives %s, which equals no member of the document | input %s", clip(pt, 120), clip(doc, 160)), nil, rp)
				return
			}
			wants[found] = struct{}{}
			continue
		}
		if !jsonEqual(wants[i], got) {
			c.Violation(fmt.Sprintf("json() result %d differs from the value at %s: %s | input %s", i, firstDiffPath(wants[i], got, "$"), clip(pt, 120), clip(doc, 160)), nil, rp)
			return
		}
	}
	c.Held()
}

func c04Jq(c *Case, in, out string) {
	jq, err := exec.LookPath("jq")
	if err != nil {
		c.Inconclusive("jq-missing")
		return
	}
	norm := func(s string) (string, bool) {
		cmd := exec.Command(jq, "-cS", ".")
		cmd.Stdin = strings.NewReader(s)
		var o bytes.Buffer
		cmd.Stdout = &o
		if cmd.Run() != nil {
			return "", false
		}
		return o.String(), true
	}
	a, ok1 := norm(in)
	b, ok2 := norm(out)
	c.Count("jq_second_opinions")
	if !ok1 {
		c.Inconclusive("jq-rejects-input")
		return
	}
	if !ok2 || a != b {
		c.Violation("jq normalises input and written JSON differently: "+diffAt(a, b), nil, map[string]any{"input": in, "output": out})
		return
	}
	c.Held()
}

// ---- constructed values: json(v) must parse back to the model's value

func c04Constructed(c *Case) {
	rng := c.Rng
	g := &asgGen{rng: rng, assigned: map[string]bool{}, stats: map[string]int{}, allowTag: noPinned}
	// build values with stores (auto-created containers), then print json() of them
	var body []Stmt
	in := []MInput{{Name: "in.json", Values: []any{map[string]any{}}}}
	dumpArgs := func() []Expr {
		args := []Expr{}
		for _, v := range []string{"v0", "v1", "v2"} {
			if g.assigned[v] {
				args = append(args, jsonOf(V(v)))
			}
		}
		return append(args, jsonOf(V("$")))
	}
	for tries := 0; len(body) < 6 && tries < 40; tries++ {
		st, kind := g.stmt()
		if kind != "store" && kind != "nest-container" && kind != "alias" && kind != "compound" {
			continue
		}
		saved := map[string]bool{}
		for k, v := range g.assigned {
			saved[k] = v
		}
		if es, ok := st.(*ExprStmt); ok {
			if a, ok := es.X.(*Assign); ok {
				if r := rootName(a.L); r != "" && r != "$" {
					g.assigned[r] = true
				}
			}
		}
		cand := append(append([]Stmt{}, body...), st)
		all := append(append([]Stmt{}, cand...), Pr(dumpArgs()...))
		mo := RunModel(c09Program(all), in, nil, ModelOpts{Budget: 100000})
		if mo.Class == "ok" && noPinned(mo.Tags) {
			body = cand
		} else {
			g.assigned = saved
		}
	}
	var shared []Expr
	for _, v := range []string{"v0", "v1", "v2"} {
		if g.assigned[v] {
			shared = append(shared, V(v))
		}
	}
	body = append(body, Pr(append([]Expr{S("A")}, dumpArgs()...)...),
		Pr(S("D"), jsonOf(Arr(append(shared, &ObjectLit{Keys: []string{"k"}, Quoted: []bool{false}, Vals: []Expr{Arr(shared...)}}, Arr(), &ObjectLit{})...))))
	p := c09Program(body)
	c.Count("constructed_programs")
	r := m2(c, &M2Case{Prog: p, Files: []InFile{{Name: "in.json", Data: []byte("{}")}}, WantRoot: true, Desc: "json() of constructed values"})
	if r.Verdict == "held" {
		c.NonTrivial(Canon(p))
	}
}

// ---- values whose parts are shared and resized through one of several references: json(v) and -o must
// describe the same value that print shows (law on the implementation alone; the reference model is not
// consulted because the length seen through a second reference is the known finding K-ALIAS)

func c04Shared(c *Case) {
	rng := c.Rng
	names := []string{"a", "b", "d"}
	var st []string
	st = append(st, "a = [1, 2, 3]", "b = [4]", "d = []", "o = {}")
	num := 10
	for n := 4 + rng.IntN(10); n > 0; n-- {
		x, y := names[rng.IntN(3)], names[rng.IntN(3)]
		num++
		switch rng.IntN(10) {
		case 0, 1:
			st = append(st, x+" = "+y)
		case 2, 3:
			st = append(st, fmt.Sprintf("%s.push(%d)", x, num))
		case 4:
			st = append(st, x+".pop()")
		case 5:
			st = append(st, x+".popfirst()")
		case 6:
			st = append(st, fmt.Sprintf("if (%s.length() > 0) { %s[0] = %d }", x, x, num))
		case 7:
			st = append(st, fmt.Sprintf("o = {k: %s, l: %s}", x, y))
		case 8:
			st = append(st, fmt.Sprintf("%s.push(%s)", x, y))
		case 9:
			st = append(st, fmt.Sprintf("%s = [%s, %s]", x, x, y))
		}
	}
	prog := "{ " + strings.Join(st, "\n") + "\nv = [a, b, d, o, [a, a], {x: b, y: b}]; print v; print json(v); $.out = v }"
	lib := RunLib(prog, []InFile{{Name: "in.json", Data: []byte("{}")}}, nil, RunOpts{WantRoot: true, Budget: 100000})
	c.Count("shared_and_resized_programs")
	rp := map[string]any{"program": prog}
	if lib.Class == "runtime" && (strings.Contains(lib.Msg, "circular") || strings.Contains(string(lib.Stdout), "<circular")) {
		c.Inconclusive("history-built-a-cycle")
		return
	}
	if strings.Contains(string(lib.Stdout), "<circular") {
		c.Inconclusive("history-built-a-cycle")
		return
	}
	if lib.Class != "ok" {
		c.Violation(fmt.Sprintf("program ended as %s (%s %s) | %s", lib.Class, lib.Msg, lib.PanicVal, prog), nil, rp)
		return
	}
	lines := strings.SplitN(string(lib.Stdout), "\n", 2)
	if len(lines) < 2 {
		c.Violation("expected two output lines | "+prog, nil, rp)
		return
	}
	shown, _, err1 := decodeOne([]byte(lines[0]))
	js, _, err2 := decodeOne([]byte(lines[1]))
	if err1 != nil {
		c.Inconclusive("print-rendering-not-json")
		return
	}
	c.NonTrivial(prog)
	if err2 != nil || !jsonEqual(shown, js) {
		rp["print"], rp["json"] = lines[0], lines[1]
		c.Violation(fmt.Sprintf("json(v) does not describe the value print shows: print %s | json %s | program %s", clip(lines[0], 120), clip(strings.ReplaceAll(lines[1], "\n", " "), 160), prog), nil, rp)
		return
	}
	c.Held()
	if lib.HasRoot && lib.RootErr == "" {
		root, _, err := decodeOne([]byte(lib.RootJSON))
		ro, _ := root.(map[string]any)
		if err != nil || ro == nil || !jsonEqual(shown, ro["out"]) {
			rp["print"], rp["root"] = lines[0], lib.RootJSON
			c.Violation(fmt.Sprintf("the document written by -o does not hold the value print shows: print %s | -o %s | program %s", clip(lines[0], 120), clip(strings.ReplaceAll(lib.RootJSON, "\n", " "), 160), prog), nil, rp)
			return
		}
		c.Held()
	}
}

func onlyJsonUnset(tags map[string]bool) bool {
	for t := range tags {
		if strings.HasPrefix(t, "pinned:") && t != "pinned:json-unset" && t != "pinned:copy-unset" {
			return false
		}
	}
	return true
}

// ---- cyclic and inexpressible values: an error, never output, never a hang

func c04Rejected(c *Case) {
	for _, sh := range shapeTable() {
		// json(v)
		body := append(append([]Stmt{Pr(S("before"))}, sh.build...), Pr(S("json"), jsonOf(V("v"))), Pr(S("after")))
		p := &Program{Items: []any{&Rule{Kind: "BEGIN", Body: &Block{Stmts: body}}}}
		c.NonTrivial("json-shape:" + sh.name)
		c.Count("shapes_json")
		m2(c, &M2Case{Prog: p, Desc: "json() of shape " + sh.name})
		// -o with the shape as the root
		body2 := append(append([]Stmt{}, sh.build...), asg(V("$"), V("v")))
		p2 := &Program{Items: []any{&Rule{Kind: "pattern", Body: &Block{Stmts: body2}}}}
		text := Canon(p2)
		lib := RunLib(text, []InFile{{Name: "in.json", Data: []byte("0")}}, nil, RunOpts{WantRoot: true})
		c.NonTrivial("root-shape:" + sh.name)
		c.Count("shapes_root")
		switch {
		case lib.Class != "ok":
			c.Violation(fmt.Sprintf("building shape %s as the root failed: %s %s", sh.name, lib.Class, lib.Msg), nil, map[string]any{"program": text})
		case sh.cyclic && lib.RootErr == "":
			c.Violation(fmt.Sprintf("a root that contains itself (%s) was serialised instead of rejected: %s", sh.name, clip(lib.RootJSON, 100)), nil, map[string]any{"program": text})
		case !sh.cyclic && (lib.RootErr != "" || !json.Valid([]byte(lib.RootJSON))):
			c.Violation(fmt.Sprintf("shared but acyclic root (%s) was rejected or invalid: %s", sh.name, lib.RootErr), nil, map[string]any{"program": text})
		default:
			c.Held()
		}
		// through the binary: status != 0 and "error writing JSON" for cycles
		r := RunCli(c.env.Jqawk, []string{"-o", "-", "--", text}, []byte("0"), c.env.Scratch, 120*time.Second)
		if r.TimedOut {
			c.Inconclusive("binary-watchdog") // wall-clock is never a verdict; an unbounded walk ends at the address-space limit instead
			continue
		}
		if f := cliFault(r); f != "" {
			c.Violation("binary writing shape "+sh.name+": "+f, nil, map[string]any{"program": text, "stderr": string(r.Stderr)})
			continue
		}
		if sh.cyclic != (r.Exit != 0) || (sh.cyclic && !strings.Contains(string(r.Stderr), "error writing JSON")) || (sh.cyclic && len(r.Stdout) != 0) {
			c.Violation(fmt.Sprintf("binary -o - on shape %s (cyclic=%v): exit %d stdout %q stderr %q", sh.name, sh.cyclic, r.Exit, clip(string(r.Stdout), 60), clip(string(r.Stderr), 80)), nil, map[string]any{"program": text})
			continue
		}
		c.Held()
	}
	// inexpressible values
	big := "1" + strings.Repeat("0", 308)
	forms := []struct{ name, setup, expr string }{
		{"function", "function f() { return 1 }", "f"}, {"native", "", "printf"}, {"method", "", "[1].push"},
		{"infinity", "", big + " * 10"}, {"negative-infinity", "", "-" + big + " * 10"}, {"nan", "", "(" + big + " * 10) * 0"},
		{"infinity-nested", "", "[1, { k: " + big + " * " + big + " }]"}, {"regex", "", "/re/"},
	}
	for _, f := range forms {
		prog := f.setup + " BEGIN { print 'before'; print json(" + f.expr + "); print 'after' }"
		lib := RunLib(prog, nil, nil, RunOpts{})
		c.NonTrivial("inexpressible:" + f.name)
		c.Count("inexpressible_forms")
		out := string(lib.Stdout)
		switch {
		case lib.Class == "runtime" && out == "before\n":
			c.Held()
		case lib.Class == "ok" && f.name == "regex":
			// a regex has no JSON form either; today it is an error too, but the property names only functions and non-finite numbers
			c.Inconclusive("regex-json-unspecified")
		default:
			c.Violation(fmt.Sprintf("json(%s) must be a runtime error; got %s with output %q", f.expr, lib.Class, clip(out, 80)), nil, map[string]any{"program": prog})
		}
		if f.name == "infinity" || f.name == "nan" || f.name == "infinity-nested" {
			prog2 := "{ $ = " + f.expr + " }"
			l2 := RunLib(prog2, []InFile{{Name: "in", Data: []byte("0")}}, nil, RunOpts{WantRoot: true})
			if l2.Class == "ok" && l2.RootErr != "" {
				c.Held()
			} else {
				c.Violation(fmt.Sprintf("-o with a non-finite number in the root (%s) must be an error; got class %s JSON %q", f.expr, l2.Class, clip(l2.RootJSON, 60)), nil, map[string]any{"program": prog2})
			}
		}
	}
}

func c04Cases(tier string) int {
	if tier == "thorough" {
		return 1 + 100000 + 2500000
	}
	return 1 + 10000 + 60000
}

func c04Run(c *Case) {
	nc := 10000
	if c.Tier == "thorough" {
		nc = 100000
	}
	switch {
	case c.Idx == 0:
		c04Rejected(c)
		round8Hand(c, "C04")
	case c.Idx <= nc && c.Idx%4 == 0:
		c04Shared(c)
	case c.Idx <= nc:
		c04Constructed(c)
	default:
		c04Doc(c)
	}
}

func init() {
	register(&Prop{
		ID: "C04", Level: "exploration",
		Rule:          "sampled documents written as JSON TEXT by a hostile generator (empty arrays/objects at every depth, nesting to 200, every escape, \\u0000, surrogate pairs, lone surrogates, non-ASCII, invalid UTF-8, keys that are method names or duplicated, numbers of every class: -0, subnormals, 2^53+-1, 1e308, 5e-324, 50-digit integers, long fractions, random bit patterns) x 13 programs that do not modify the document, plus a program that calls json() on the document and on each of its members / elements (each result valid JSON equal to that value) (empty program, empty rule, read-only patterns, copies, for-in, -r $ / $.a / $[0]): the -o JSON must be valid UTF-8 JSON and decode to a value equal (float64 bits, strings after the decoder's own UTF-8 repair, key sets) to the input as read, resp. to the selected sub-document; a sample goes through the binary's -o FILE; thorough adds `jq -cS .` on input and output as a second opinion. Values whose parts are shared and resized through one of several references (copies, push / pop / popfirst through either name, arrays pushed into arrays): json(v) and the -o document must decode to the value `print v` shows (law on the implementation alone). Constructed values (auto-created containers, shared structures) printed with json() must parse back to the reference model's value. Enumerated: the 22-shape cyclic/shared table through json(), -o in the library and -o - in the binary (cycles: error, nothing written; shared-acyclic: written in full), and 8 inexpressible values (functions, natives, +-Inf, NaN, nested). Non-trivial = document with an escape, a non-integer number or >= 2 containers; distinct by document+program.",
		NumCases:      c04Cases,
		Run:           c04Run,
		MinConclusive: func(tier string) int { return 10000 },
		Exhaustive: func(tier string) string {
			return "cyclic/shared shape table x {json(), -o library, -o binary}; inexpressible value list"
		},
		Assumptions: []string{"'the input as read' is what encoding/json decodes (nearest double, invalid UTF-8 and lone surrogates replaced by U+FFFD, last duplicate key wins)", "cycles through arrays whose length changed after being shared are K-ALIAS territory (C09) and not generated"},
	})
}
