package main

// C01 — every run ends in success or one of three reported error kinds, never a crash.
// Monitor M1 only (pure classification), so arbitrary texts can be used.

import (
	"crypto/sha1"
	"fmt"
	"os"
	"path/filepath"
	"strconv"
	"strings"
	"time"
)

var c01Signals = []string{"next", "exit", "break", "continue", "return", "return 5"}
var c01Loops = []string{"none", "while", "for", "forin", "forin-string", "nested-if"}
var c01Inputs = []struct {
	name string
	data []byte
}{{"no-input", nil}, {"array-root", []byte("[1, 2]")}, {"scalar-root", []byte("5")}, {"two-values", []byte("[1] {\"a\": 2}")}}

type c01Placement struct {
	name string
	mk   func(body string) (prog string, sel string)
}

func c01Placements() []c01Placement {
	fn := func(caller string) func(string) (string, string) {
		return func(b string) (string, string) {
			return "function sig() { " + b + " }\n" + caller + " { print 'call'; sig(); print 'after call' }\n{ print 'rule', $ } END { print 'END' }", ""
		}
	}
	return []c01Placement{
		{"BEGIN", func(b string) (string, string) {
			return "BEGIN { " + b + " } { print 'rule', $ } END { print 'END' }", ""
		}},
		{"END", func(b string) (string, string) { return "{ print 'rule', $ } END { " + b + " }", "" }},
		{"BEGINFILE", func(b string) (string, string) {
			return "BEGINFILE { " + b + " } { print 'rule', $ } ENDFILE { print 'ef' }", ""
		}},
		{"ENDFILE", func(b string) (string, string) {
			return "{ print 'rule', $ } ENDFILE { " + b + " } END { print 'END' }", ""
		}},
		{"pattern-body", func(b string) (string, string) { return "{ " + b + " } { print 'second', $ } END { print 'END' }", "" }},
		{"pattern-expression", func(b string) (string, string) {
			return "match (1) { 1 => { " + b + " } } { print 'body', $ } { print 'second', $ } END { print 'END' }", ""
		}},
		{"function-from-BEGIN", fn("BEGIN")},
		{"function-from-END", fn("END")},
		{"function-from-BEGINFILE", fn("BEGINFILE")},
		{"function-from-ENDFILE", fn("ENDFILE")},
		{"function-from-pattern-rule", fn("")},
		{"match-block-in-BEGIN", func(b string) (string, string) {
			return "BEGIN { print 'b'; match (1) { 1 => { " + b + " } } print 'after match' } { print 'rule', $ }", ""
		}},
		{"match-block-in-pattern-rule", func(b string) (string, string) {
			return "{ print 'r'; v = match ($) { x => { " + b + " } } print 'after match', v } END { print 'END' }", ""
		}},
		{"match-block-in-function", func(b string) (string, string) {
			return "function mf(v) { match (v) { x => { " + b + " } } return 'fell off' }\n{ print 'r', mf($) } END { print mf(0) }", ""
		}},
		{"selector", func(b string) (string, string) {
			return "BEGIN { print 'begin' } { print 'rule', $ } END { print 'END' }", "match (1) { 1 => { " + b + " } }"
		}},
		{"selector-after-plain-selector", func(b string) (string, string) {
			return "{ print 'rule', $ } END { print 'END' }", "$\x00match ($) { x => { " + b + " } }"
		}},
	}
}

func c01Body(sig, loop string) string {
	switch loop {
	case "while":
		return "print 'a'; i = 0; while (i < 2) { i++; print 'w', i; " + sig + "; print 'w2' } print 'b'"
	case "for":
		return "print 'a'; for (i = 0; i < 2; i++) { print 'f', i; " + sig + "; print 'f2' } print 'b'"
	case "forin":
		return "print 'a'; for (x, k in [10, 20]) { print 'x', x; " + sig + "; print 'x2' } print 'b'"
	case "forin-string":
		return "print 'a'; for (ch in 'ab') { for (k in { only: 1 }) { print ch, k; " + sig + " } print 'inner done' } print 'b'"
	case "nested-if":
		return "print 'a'; if (1) { if (0) { print 'no' } else { " + sig + " } print 'b' } print 'c'"
	}
	return "print 'a'; " + sig + "; print 'b'"
}

const c01E1 = 6 * 16 * 6 * 4

func legalClass(cl string) bool {
	return cl == "ok" || cl == "syntax" || cl == "runtime" || cl == "json"
}

type c01Run struct {
	prog  string
	sels  []string
	input []byte // nil: no input file
	name  string
}

// c01Check applies M1 to the library run (and optionally to the binary).
func c01Check(c *Case, r c01Run, fuzzing bool, cli bool, key string) {
	c01CheckB(c, r, fuzzing, cli, key, 50000)
}

func c01CheckB(c *Case, r c01Run, fuzzing bool, cli bool, key string, budget int) {
	var files []InFile
	if r.input != nil {
		files = []InFile{{Name: "in.json", Data: r.input}}
	}
	lib := RunLib(r.prog, files, r.sels, RunOpts{Fuzzing: fuzzing, Budget: budget})
	c.Count("library_outcome:" + lib.Class)
	h := sha1.Sum([]byte(r.prog + "\x00" + strings.Join(r.sels, "\x01") + "\x00" + string(r.input)))
	if lib.Steps >= 3 || (lib.Class == "syntax" && len(r.prog) >= 10) {
		c.NonTrivial(string(h[:]))
	}
	switch {
	case lib.Class == "budget":
		c.Inconclusive("budget")
		return
	case legalClass(lib.Class):
		c.Held()
	default:
		detail := lib.Msg
		if lib.Class == "panic" {
			detail = lib.PanicVal
		}
		c.Violation(fmt.Sprintf("%s: run ended as %s (%s) | program: %s | selectors: %q | input: %s", key, lib.Class, detail, clip(r.prog, 240), r.sels, describeBytes(r.input)), nil,
			map[string]any{"program": r.prog, "selectors": r.sels, "input": string(r.input), "class": lib.Class, "stack": lib.Stack})
		return
	}
	if !cli || strings.ContainsRune(r.prog, 0) || len(r.prog) > 100000 {
		return
	}
	for _, s := range r.sels {
		if strings.ContainsRune(s, 0) {
			return
		}
	}
	args := []string{}
	for _, s := range r.sels {
		args = append(args, "-r", s)
	}
	args = append(args, "--", r.prog)
	res := RunCli(c.env.Jqawk, args, r.input, c.env.Scratch, 60*time.Second)
	if res.TimedOut {
		c.Inconclusive("cli-timeout")
		return
	}
	c.Count("binary_runs")
	c.Count(fmt.Sprintf("binary_exit:%d", res.Exit))
	if f := cliFault(res); f != "" {
		c.Violation(fmt.Sprintf("%s (binary): %s | stderr: %s | program: %s | selectors: %q", key, f, clip(string(res.Stderr), 200), clip(r.prog, 200), r.sels), nil,
			map[string]any{"program": r.prog, "selectors": r.sels, "input": string(r.input), "stderr": string(res.Stderr), "exit": res.Exit})
		return
	}
	if c.env.JqawkRace != "" {
		// the same run through the -race build: a race or checkptr report is a fatal exit with its own signature
		rr := RunCli(c.env.JqawkRace, args, r.input, c.env.Scratch, 120*time.Second)
		c.Count("race_binary_runs")
		if !rr.TimedOut {
			se := string(rr.Stderr)
			if strings.Contains(se, "DATA RACE") || strings.Contains(se, "checkptr") || rr.Exit == 66 || cliFault(rr) != "" {
				c.Violation(fmt.Sprintf("%s (race/checkptr build): exit %d, stderr %s | program: %s", key, rr.Exit, clip(se, 300), clip(r.prog, 200)), nil,
					map[string]any{"program": r.prog, "selectors": r.sels, "input": string(r.input), "stderr": se})
				return
			}
			c.Held()
		}
	}
	// the debugging flags show tokens / the tree of the same text: they end with status 0, or 1 and the syntax error
	if c.Idx%6 == 0 && len(r.prog) <= 3000 { // (printing the tree of a long program takes seconds)
		for _, flag := range []string{"-dbg-ast", "-dbg-lex"} {
			dr := RunCli(c.env.Jqawk, append([]string{flag}, args...), r.input, c.env.Scratch, 60*time.Second)
			if dr.TimedOut {
				c.Inconclusive("cli-timeout")
				continue
			}
			c.Count("binary_runs" + flag)
			f := cliFault(dr)
			if f == "" && dr.Exit != 0 && dr.Exit != 1 {
				f = fmt.Sprintf("exit status %d", dr.Exit)
			}
			if f == "" && flag == "-dbg-ast" && (dr.Exit == 0) != (lib.Class != "syntax") {
				f = fmt.Sprintf("exit status %d although the run of the same text ends as %s", dr.Exit, lib.Class)
			}
			// (-dbg-lex lists tokens without the parser: after a '}' it cannot know whether a '/' divides an object literal or
			// starts a regex in the next rule, so for arbitrary texts only "status 0 or 1, no crash" is demanded of it; the
			// unambiguous listings are checked in c01DbgLex)
			if f != "" {
				c.Violation(fmt.Sprintf("%s (binary, %s): %s | stderr: %s | program: %s | selectors: %q", key, flag, f, clip(string(dr.Stderr), 200), clip(r.prog, 200), r.sels), nil,
					map[string]any{"program": r.prog, "selectors": r.sels, "flag": flag, "stderr": string(dr.Stderr), "exit": dr.Exit})
				return
			}
			c.Held()
		}
	}
	// the exit status agrees with the library's outcome (stdin that is empty processes no value)
	want := 0
	if lib.Class != "ok" {
		want = 1
	}
	if (res.Exit == 0) != (want == 0) {
		c.Violation(fmt.Sprintf("%s (binary): exit status %d but the library run ended as %s | program: %s", key, res.Exit, lib.Class, clip(r.prog, 200)), nil,
			map[string]any{"program": r.prog, "selectors": r.sels, "input": string(r.input), "stderr": string(res.Stderr)})
		return
	}
	c.Held()
}

// ---- E2: nesting stress

type nestForm struct {
	name string
	mk   func(n int) string // BEGIN-level program with nesting n
	unit int                // bytes per level (to find the deepest that fits 64 KiB)
	inFn func(n int) string // the same nesting inside a self-recursive function (may be nil)
}

func rep(s string, n int) string { return strings.Repeat(s, n) }

func c01NestForms() []nestForm {
	return []nestForm{
		{"parentheses", func(n int) string { return "BEGIN { print " + rep("(", n) + "1" + rep(")", n) + " }" }, 2,
			func(n int) string {
				return "function r(v) { return " + rep("(", n) + "r(v + 1)" + rep(")", n) + " } BEGIN { print 'm'; r(1) }"
			}},
		{"prefix-minus", func(n int) string { return "BEGIN { print " + rep("- ", n) + "1 }" }, 2,
			func(n int) string {
				return "function r(v) { return " + rep("- ", n) + "r(v + 1) } BEGIN { print 'm'; r(1) }"
			}},
		{"prefix-not", func(n int) string { return "BEGIN { print " + rep("!", n) + "1 }" }, 1,
			func(n int) string {
				return "function r(v) { return " + rep("!", n) + "r(v + 1) } BEGIN { print 'm'; r(1) }"
			}},
		{"array-literals", func(n int) string {
			return "BEGIN { x = " + rep("[", n) + "1" + rep("]", n) + "; print 'built'; print x.length() }"
		}, 2,
			func(n int) string {
				return "function r(v) { return " + rep("[", n) + "r(v + 1)" + rep("]", n) + " } BEGIN { print 'm'; r(1) }"
			}},
		{"object-literals", func(n int) string { return "BEGIN { x = " + rep("{a:", n) + "1" + rep("}", n) + "; print 'built' }" }, 4, nil},
		{"print-nested-arrays", func(n int) string { return "BEGIN { print " + rep("[", n) + "1" + rep("]", n) + " }" }, 2, nil},
		{"json-nested-arrays", func(n int) string { return "BEGIN { print json(" + rep("[", n) + "1" + rep("]", n) + ").length() }" }, 2, nil},
		{"member-chain", func(n int) string { return "BEGIN { x = {}; print x" + rep(".a", n) + " }" }, 2,
			func(n int) string {
				return "function r(v) { return r(v + 1)" + rep(".a", n) + " } BEGIN { print 'm'; r(1) }"
			}},
		{"member-chain-store", func(n int) string { return "BEGIN { x" + rep(".a", n) + " = 1; print 'stored' }" }, 2, nil},
		{"index-chain", func(n int) string { return "BEGIN { x = [1]; print x" + rep("[0]", n) + " }" }, 3, nil},
		{"index-chain-store", func(n int) string { return "BEGIN { x" + rep("[0]", n) + " = 1; print 'stored' }" }, 3, nil},
		{"call-chain", func(n int) string { return "function f() { return 1 } BEGIN { print f" + rep("()", n) + " }" }, 2, nil},
		{"blocks", func(n int) string { return "BEGIN " + rep("{", n) + " print 1 " + rep("}", n) }, 2, nil},
		{"if-else-ladder", func(n int) string { return "BEGIN { x = 0; " + rep("if (x) { print 1 } else ", n) + "print 'end' }" }, 24, nil},
		{"nested-ifs", func(n int) string { return "BEGIN { x = 1; " + rep("if (x) ", n) + "print 'deep' }" }, 7, nil},
		{"nested-while", func(n int) string {
			return "BEGIN { " + rep("while (1) { ", n) + "print 'deep'; exit " + rep("}", n) + " }"
		}, 13, nil},
		{"nested-forin", func(n int) string { return "BEGIN { " + rep("for (x in [1]) ", n) + "print 'deep' }" }, 15, nil},
		{"match-in-match", func(n int) string { return "BEGIN { print " + rep("match (1) { 1 => ", n) + "1" + rep(" }", n) + " }" }, 19,
			func(n int) string {
				return "function r(v) { return " + rep("match (v) { w => ", n) + "r(w + 1)" + rep(" }", n) + " } BEGIN { print 'm'; r(1) }"
			}},
		{"match-block-in-match-block", func(n int) string {
			return "BEGIN { " + rep("match (1) { 1 => { ", n) + "print 'deep'" + rep(" } }", n) + " }"
		}, 23, nil},
		{"binary-chain-left", func(n int) string { return "BEGIN { print 1" + rep(" + 1", n) + " }" }, 4,
			func(n int) string {
				return "function r(v) { return " + rep("1 + (", n) + "r(v + 1)" + rep(")", n) + " } BEGIN { print 'm'; r(1) }"
			}},
		{"binary-chain-right", func(n int) string { return "BEGIN { print " + rep("1 + (", n) + "1" + rep(")", n) + " }" }, 6, nil},
		{"assignment-chain", func(n int) string { return "BEGIN { " + rep("x = ", n) + "1; print x }" }, 4, nil},
		{"string-concat-chain", func(n int) string { return "BEGIN { print ('a'" + rep(" + 'a'", n) + ").length() }" }, 6, nil},
		{"logic-chain", func(n int) string { return "BEGIN { print 1" + rep(" && 1", n) + " }" }, 5, nil},
		{"array-pattern-nesting", func(n int) string {
			return "BEGIN { print match (" + rep("[", n) + "1" + rep("]", n) + ") { " + rep("[", n) + "x" + rep("]", n) + " => x } }"
		}, 4, nil},
		{"call-argument-nesting", func(n int) string {
			return "function id(v) { return v } BEGIN { print " + rep("id(", n) + "1" + rep(")", n) + " }"
		}, 4, nil},
		{"method-call-chain", func(n int) string { return "BEGIN { print 'a'" + rep(".upper()", n) + " }" }, 8, nil},
		{"deep-json-input-print", func(n int) string { return "{ print 'got'; print $ }" }, 0, nil},
	}
}

func c01NestCases() []c01Run {
	var out []c01Run
	for _, f := range c01NestForms() {
		if f.unit == 0 {
			for _, n := range []int{1000, 5000, 9999} {
				out = append(out, c01Run{prog: f.mk(n), input: []byte(rep("[", n) + "1" + rep("]", n)), name: fmt.Sprintf("nesting:%s:%d", f.name, n)})
			}
			continue
		}
		depths := []int{1000, 8000, (65536 - 200) / f.unit}
		for _, n := range depths {
			p := f.mk(n)
			if len(p) > 65536 {
				continue
			}
			out = append(out, c01Run{prog: p, name: fmt.Sprintf("nesting:%s:%d", f.name, n)})
		}
		if f.inFn != nil {
			for _, n := range []int{10, 100, 1000, 3000} {
				p := f.inFn(n)
				if len(p) > 65536 {
					continue
				}
				out = append(out, c01Run{prog: p, name: fmt.Sprintf("recursion-x-nesting:%s:%d", f.name, n)})
			}
		}
	}
	return out
}

var c01NestList = c01NestCases()

// ---- hostile values: cyclic, shared and aliased structures handed to every operation that walks a value

var c01ValueOps = []string{
	"print v == w", "print v != w", "print v == v", "print [v] == [w]", "print {k: v} == {k: w}", "print v < w", "print v <= v",
	"print [w].contains(v)", "print v.contains(w)", "print [1, v, 2].contains(2)", "print v.contains(v)",
	"print json(v)", "print v", "print v, w", "printf('%v|', v)", "printf('%30v|', v)", "printf('%s', v)",
	"print [v, w].sort()", "print v.sort()", "print [w, 3, v, 'a', null].sort()",
	"print match (v) { [x, y] => 'pair', other => 'other' }", "print match (v) { [1, [1, q]] => q, {n: 1} => 'obj', other => 'other' }", "print match ([v, w]) { [x, y] => x == y }",
	"for (k, x in v) { print k }", "for (x in v) { for (y in x) { n++ } } print n", "for (x in v) { v = 1 } print v",
	"print v + ''", "print '' + v + w", "print v ~ 'x'", "print 'x' ~ v", "print -v", "print !v", "v++; print v", "v += w; print v", "print v * 2",
	"print v.length()", "print v.pluck('n')", "print v.pluck('self', 'n')", "print v.join(',')", "print [v, w].join('-')", "print v.keys()", "print v.values()",
	"v.push(v); print v.length()", "v.pop(); print v", "x = v.popfirst(); print x", "v.push(w); w.push(v); print v == w",
	"print v is array, v is object, v is string", "o2 = {}; o2[v] = 1; print o2", "print v[v]", "print 'abc'[v]", "print v[0][0][0][0][0][0]", "print v.self.self.self.n",
	"v[5] = v; print v.length()", "v.k.k.k = v; print v.k.k.k == v", "$ = v; print $", "print [v].pluck(0)", "u = v; u[0] = 7; print v == u",
	"printf(v)", "print split(v, v)", "print json(json(v))", "print v.split(',')", "print 'a,b'.split(v)", "exit", "print [[v]] == [[w]], [[v]] == [[v]]",
}

var c01AliasProgs = []string{
	"BEGIN { a = [1, 2, 3]; b = a; b.pop(); for (x in a) { print x } print a, json(a), a.length(), a == b }",
	"BEGIN { a = [1, 2, 3]; b = a; b.pop(); b.pop(); print a[2], a[1], a; a.push(9); print a, b }",
	"BEGIN { a = [1, 2, 3]; b = a; b.popfirst(); print a, b, json(a), a.sort(), a.contains(3), a == b, [a] == [b] }",
	"BEGIN { a = [[1], [2], [3]]; b = a; b.pop(); print a[2][0]; a[2].push(4); print json(a), json(b) }",
	"function f(x) { x.pop(); x.pop(); return x } BEGIN { a = [1, 2, 3]; c = f(a); print a, c; for (i, x in a) { print i, x } print a.join('-') }",
	"BEGIN { a = [1, 2, 3]; o = {k: a}; o.k.pop(); print a, o, json(a); a.pop(); print o, o.k.length(), o.k[1] }",
	"BEGIN { a = []; b = a; for (i = 0; i < 40; i++) { a.push(i); if (i % 3 == 0) { b.pop() } } print a, b, json(b) }",
	"BEGIN { a = [1, 2, 3, 4]; b = a; while (b.length() > 0) { b.pop() } print a, a.length(), json(a), a.sort(), a == [] }",
	"BEGINFILE { all = $ } { all.popfirst() } ENDFILE { print $, all, json($) } END { print all }",
	"BEGINFILE { keep = $; keep.pop(); keep.pop() } { print $ } END { print keep, json(keep) }",
	"{ t = $; t.pop(); print $, t; for (x in $) { print x } }",
	"BEGIN { a = [1, 2, 3]; for (x in a) { a.pop(); print x, a } print a }",
	"BEGIN { a = [1, 2, 3]; for (i, x in a) { a.popfirst(); print i, x, a } print a }",
	"BEGIN { a = [3, 1, 2]; b = a; b.pop(); print a.sort(), b.sort(), a.contains(2), b.contains(2), printf('%v %v', a, b) }",
	"BEGIN { a = [1, 2, 3]; b = [a, a]; a.pop(); print b, json(b), b[0] == b[1], b.pluck(2), b.pluck(1) }",
}

func c01ValueCases() []c01Run {
	var out []c01Run
	for _, sh := range shapeTable() {
		// every name the builder uses is a parameter, hence local: two calls give two separate structures
		mk := &Func{Name: "mk", Params: []string{"a", "b", "c", "o", "p", "q", "v", "x"}, Body: &Block{Stmts: append(append([]Stmt{}, sh.build...), &Return{X: V("v")})}}
		head := Canon(&Program{Items: []any{mk}})
		for _, op := range c01ValueOps {
			out = append(out, c01Run{prog: head + " BEGIN { v = mk(); w = mk(); " + op + "; print 'end' }", name: "value-op:" + sh.name + ":" + op})
		}
	}
	for _, p := range c01AliasProgs {
		out = append(out, c01Run{prog: p, input: []byte("[1, 2, 3]\n[[4], 5, 6, 7]"), name: "alias-history:" + p})
	}
	return out
}

// ---- stores through paths whose keys are of every kind, on bases of every kind

func c01StoreCases() []c01Run {
	keys := []string{"true", "false", "null", "u", "[]", "{}", "[1]", "1.5", "-1", "0", "'k'", "''", "/re/", "fn", "$", "3000000", "'0'", "-0.5"}
	forms := []string{
		"fresh%d[K] = 1", "fresh%d.a[K] = 1", "fresh%d[K][K] = 1", "fresh%d.a.b[K].c = 1", "fresh%d[K].a[K] = 1", "fresh%d[0][K] = 1",
		"x = true; x[K] = 1", "x = 5; x[K][K] = 1", "x = 's'; x[K] = 1", "x = null; x[K][K] = 1", "x = fn; x[K] = 1", "x = [1]; x[K][K] = 1", "x = {}; x[K][K].y = 1", "x = [[]]; x[0][K] = 1",
		"fresh%d[K]++", "fresh%d.a[K] += 2", "fresh%d[K][K]--", "++fresh%d.a[K].b", "fresh%d.a[K] = fresh%d.a[K]", "y = fresh%d[K][K]; print y",
		"$.g[K][K] = 1", "$[K].f[K] = 1", "$[K]++", "seen[$.f][$.g] = 1", "seen[$.t][$.n][$.f] += 1",
	}
	var out []c01Run
	n := 0
	for _, f := range forms {
		for _, k := range keys {
			n++
			st := strings.ReplaceAll(strings.ReplaceAll(f, "%d", strconv.Itoa(n)), "K", k)
			prog := "function fn(a) { return a } BEGIN { print 'b' } { " + st + "; print 'stored'; print json($) } END { print 'end' }"
			out = append(out, c01Run{prog: prog, input: []byte(`{"f": true, "g": null, "t": false, "n": 1.5, "s": "str", "a": [1, 2], "o": {}}`), name: "store-path:" + f + ":" + k})
		}
	}
	return out
}

// ---- tiny inputs: every single byte, and short prefixes of multi-byte sequences and of JSON tokens

func c01TinyInputs() []c01Run {
	var out []c01Run
	add := func(b []byte) {
		out = append(out, c01Run{prog: "BEGINFILE { print 'bf' } { print } END { print 'end' }", input: b, name: fmt.Sprintf("tiny-input:% x", b)})
	}
	for b := 0; b < 256; b++ {
		add([]byte{byte(b)})
	}
	for _, s := range []string{"\xef\xbb", "\xef\xbb\xbf", "\xef\xbb\xbf1", "\xef\xbb\xbf[", "\xef\xbf", "\xfe\xff", "\xff\xfe", "\xff\xfe1\x00", "\xc3", "\xe2\x82", "\xf0\x9f\x98", "\xed\xa0\x80",
		"1e", "-", "-0", "0.", "1e+", "tr", "nul", "fals", "\"\\", "\"\\u", "\"\\u00", "\"\\ud83d", "[1,", "{\"a\"", "{\"a\":", "[[", "}]", "//", "/*", "1 2", "1\x002", "\x00\x00", "\r", "\r\n", " ", "\t\n ", "01", "1.e1", "+1", ".5", "0x10", "NaN", "Infinity", "-Infinity", "1e400", "\"\xff\"", "'a'"} {
		add([]byte(s))
	}
	return out
}

// ---- control-flow signals raised from a loop header (through a match block), with and without an enclosing loop,
// at rule level and inside a function: a syntax error or an ordinary run, never a leaked signal
func c01HeaderSignals() []c01Run {
	var out []c01Run
	for _, sig := range []string{"break", "continue", "return", "return 5", "next", "exit"} {
		m := "match (1) { 1 => { " + sig + " } }"
		headers := []string{
			"for (i = " + m + "; i < 2; i++) { print i }",
			"for (i = 0; " + m + "; i++) { print i }",
			"for (i = 0; i < 2; i = " + m + ") { print i }",
			"while (" + m + ") { print 'w' }",
			"for (x in " + m + ") { print x }",
			"for (k, x in [" + m + "]) { print x }",
			"if (" + m + ") { print 't' }",
			"print [" + m + ", 2]",
		}
		for _, h := range headers {
			for _, wrap := range []string{"BEGIN { %s }", "BEGIN { for (o in [1, 2]) { %s } print 'after' }", "function f() { %s; return 'r' } BEGIN { print f() }", "function f() { while (n++ < 2) { %s } return 'r' } { print f() }", "%s { print 'rule' }"} {
				if strings.HasPrefix(wrap, "%s {") && !strings.HasPrefix(h, "print [") {
					continue
				}
				prog := fmt.Sprintf(wrap, h)
				if strings.HasPrefix(wrap, "%s {") {
					prog = m + " { print 'rule' }"
				}
				out = append(out, c01Run{prog: prog, input: []byte("[1, 2]"), name: "header-signal:" + sig + ":" + prog})
			}
		}
	}
	return out
}

// ---- a method call whose argument reassigns (or empties, or deletes from) the receiver's location before the call happens
func c01ReceiverCases() []c01Run {
	var out []c01Run
	recvs := []string{"[]", "[3, 1, 2]", "{}", "{k: 1, j: 2}", "'a,b'", "5.5", "true", "null"}
	news := []string{"1", "'s'", "null", "[]", "{}", "true", "[9]", "{z: 1}", "5.5"}
	calls := []string{"x.push(x = N)", "x.pop(x = N)", "x.popfirst(x = N)", "x.contains(x = N)", "x.sort(x = N)", "x.length(x = N)", "x.pluck(x = N)", "x.pluck('k', x = N)",
		"x.split(x = N)", "x.upper(x = N)", "x.lower(x = N)", "x.floor(x = N)", "x.ceil(x = N)", "x.round(x = N)", "x.push(x.pop(x = N))", "x.push((x = N).length())",
		"o.list.push(o.list = N)", "o.list.push(o = N)", "$.a.push($.a = N)", "$.a.push($ = N)", "arr[0].push(arr = N)", "arr[0].push(arr[0] = N)", "x.contains(x.pop())", "x.push(x.length(), x = N)"}
	for _, r := range recvs {
		for ni, n := range news {
			for ci, c := range calls {
				if (ni+ci)%3 != 0 && r != "[]" && r != "{}" {
					continue // a third of the table for the other receivers, all of it for the empty containers
				}
				call := strings.ReplaceAll(c, "N", n)
				prog := "{ x = " + r + "; o = {list: " + r + "}; arr = [" + r + "]; print 'pre'; y = " + call + "; print 'post', y, x }"
				out = append(out, c01Run{prog: prog, input: []byte(`{"a": ` + strings.ReplaceAll(strings.ReplaceAll(r, "'", "\""), "k:", "\"k\":") + `}`), name: "receiver-reassigned:" + r + ":" + call})
			}
		}
	}
	return out
}

// ---- printf: every width 1-12 (right, left, zero padded) x strings whose byte and character counts differ
func c01PrintfCases() []c01Run {
	var out []c01Run
	strs := []string{"日本橋", "ééé", "😀😀", "aé", "é", "日本橋日本橋日本橋", "\\t日", ""}
	for _, st := range strs {
		for w := 1; w <= 12; w++ {
			for _, style := range []string{"", "-", "0"} {
				for _, code := range []string{"s", "v"} {
					f := "%" + style + strconv.Itoa(w) + code
					out = append(out, c01Run{prog: "BEGIN { printf('[" + f + "]', '" + st + "'); printf('[" + f + "|" + f + "]', ['" + st + "'], {k: '" + st + "'}); print 'end' }", name: "printf-width:" + f + ":" + st})
				}
			}
		}
	}
	// formats that end inside a directive, or carry flags and widths in unusual places, as literals, in a variable, and
	// built at run time: a runtime error or output, never a crash
	tails := []string{"%", "%-", "%0", "%-0", "%5", "%-5", "%05", "%-05", "%--", "%-%", "%5%", "%-s", "%-f", "%-v", "%0s", "%-0s", "%00005s", "%-00005s", "%5-s", "%s%-", "%v%-5", "%%%-", "%65536", "%-65536", "%99999999999999999999", "%-99999999999999999999", "% ", "%+", "%#", "%*", "%.", "%.5", "%-.5s", "%5.", "%\n", "%\t-"}
	for _, t := range tails {
		for _, pre := range []string{"", "total: %s", "%5s|%-5v|"} {
			f := pre + t
			out = append(out, c01Run{prog: "BEGIN { print 'pre'; printf('" + f + "', 'a', 'b', 'c'); print 'end' }", name: "printf-tail:" + f})
			out = append(out, c01Run{prog: "BEGIN { print 'pre'; fmt = '" + f + "'; printf(fmt, 1, 2, 3); printf(fmt + fmt, 'a'); print 'end' }", name: "printf-tail-in-variable:" + f})
		}
	}
	return out
}

// ---- an expression that reassigns something another part of the same expression or statement is using
func c01SelfRefCases() []c01Run {
	var out []c01Run
	inits := []string{"x = [1, 2]", "x = {k: [1], j: {m: 1}}", "x = 'str'", "x = 5", "x = null", "x = [[1, 2], [3]]"}
	news := []string{"1", "'s'", "null", "[]", "{}", "[[9]]", "{k: {m: 2}}"}
	forms := []string{
		"x[x = N]", "x[0][x = N]", "x.k[x = N]", "x[(x = N) is null]", "print x[0], (x = N), x[0]",
		"x[0] = (x = N)", "x.k = (x = N)", "x[0][1] = (x = N)", "x.k.m = (x = N)", "x.j.m = (x.j = N)", "x[0] += (x = N)", "x[x = N] = 1", "x[0][x = N] = 2", "x[1] = x[0] = (x = N)",
		"x[0]++ + (x = N)", "(x = N) + x[0]++", "++x[(x = N) is null]", "y = [x, x = N, x]", "y = {a: x, b: (x = N), c: x}",
		"f(x, x = N, x)", "f(x[0], x = N)", "f(x = N)(1)", "x.length(x = N)", "f = (f = N)", "f(f = N)", "g(g = N)",
		"for (e in x) { x = N; print e }", "for (i, e in x) { x[i] = (x = N) }", "while (x[0] != N && c++ < 3) { x = N }", "for (x[0] = 0; c++ < 2; x = N) { print x }",
		"match (x) { [a, b] => (x = N), {k: q} => (x = N), other => (x = N) }", "match (x = N) { v => x }", "print match (x) { other => [other, x = N, other] }",
		"x ~ (x = N)", "(x = N) ~ x", "x && (x = N) && x[0]", "x == (x = N)", "x + (x = N) + x", "-x[x = N]", "printf('%v %v', x, x = N)", "print json([x, x = N])", "$ = (x = N); print $, x", "$.a = ($ = N)",
	}
	n := 0
	for _, in := range inits {
		for fi, f := range forms {
			for ni, nv := range news {
				if (fi+ni)%4 != n%4 {
					continue
				}
				st := strings.ReplaceAll(f, "N", nv)
				prog := "function f(a, b, c) { return [a, b, c] } function g(a) { return a } { " + in + "; c = 0; print 'pre'\n" + st + "\nprint 'post', x }"
				out = append(out, c01Run{prog: prog, input: []byte(`{"a": [1]}`), name: "self-reference:" + in + ":" + st})
			}
			n++
		}
	}
	return out
}

// ---- many distinct patterns / formats / keys in one run (tables that fill up), and patterns that match without binding
func c01ManyCases() []c01Run {
	var out []c01Run
	progs := []string{
		"BEGIN { for (i = 0; i < 70; i++) { if ('abc' + i ~ ('c' + i)) { n++ } } print n }",
		"BEGIN { for (i = 0; i < 70; i++) { if ('abc' !~ ('^' + i + 'x')) { n++ } } print n }",
		"{ if ($.name ~ $.pat) { print 'hit', $.name } }",
		"$.name ~ $.pat",
		"BEGIN { for (i = 0; i < 300; i++) { printf('%' + (i % 40 + 1) + 's|', i) } print '' }",
		"BEGIN { for (i = 0; i < 300; i++) { o['k' + i] = i; a[i] = 'v' + i } print o.length(), a.length(), o.k299, a[299] }",
		"BEGIN { for (i = 0; i < 300; i++) { s = s + ('' + i).length() } print s }",
		"function f(v) { return match (v) { [] => 'empty', [0, 0] => 'zeros', [[1], 2] => 'nested', other => 'other' } } BEGIN { print f([]), f([0, 0]), f([[1], 2]), f([0]), f([]); print 'after' }",
		"{ print match ($.v) { [] => 'empty', [0, 0] => 'zeros', [[1], 2] => 'nested', [null] => 'null', other => 'other' } } END { print 'end' }",
		"BEGIN { print match ([]) { [] => 'empty' }; print match ([1, [2]]) { [1, [2]] => { print 'in block' } }; x = 5; print x }",
	}
	var in strings.Builder
	for i := 0; i < 60; i++ {
		fmt.Fprintf(&in, "{\"name\": \"n%d\", \"pat\": \"^n%d$\", \"v\": %s}\n", i, i, []string{"[]", "[0, 0]", "[[1], 2]", "[null]", "7"}[i%5])
	}
	for _, p := range progs {
		out = append(out, c01Run{prog: p, input: []byte(in.String()), name: "many:" + p})
	}
	return out
}

var c01ValueList = append(c01ManyCases(), append(c01SelfRefCases(), append(append(append(append(append(c01PrintfCases(), c01ValueCases()...), c01StoreCases()...), c01TinyInputs()...), c01HeaderSignals()...), c01ReceiverCases()...)...)...)

// ---- sampled

func c01Sampled(c *Case, j int) {
	rng := c.Rng
	r := c01Run{input: hostileInput(rng)}
	kind := ""
	switch k := j % 10; {
	case k < 4:
		g := &wildGen{rng: rng}
		rd := RenderProgram(g.Program(), ParenMode(rng.IntN(3)), rng)
		r.prog, _ = rd.Layout(rng)
		kind = "grammar-directed"
	case k < 6:
		var toks []Tok
		if rng.IntN(2) == 0 {
			g := &wildGen{rng: rng}
			toks = RenderProgram(g.Program(), ParenMinimal, nil).Toks
		} else {
			g := newStructGen(rng, sgOpts{MaxDepth: 2, Funcs: true, Signals: true, Exit: true, MultiRule: true})
			p, _ := g.Program()
			toks = RenderProgram(p, ParenMinimal, nil).Toks
		}
		r.prog = mutateTokens(rng, toks)
		kind = "token-mutation"
	case k == 6:
		seeds := loadFuzzSeeds(c.env.Repo)
		if len(seeds) > 0 && rng.IntN(2) == 0 {
			s := seeds[rng.IntN(len(seeds))]
			r.prog = string(mutateBytes(rng, []byte(s[0])))
			if len(s) > 1 {
				r.input = mutateBytes(rng, []byte(s[1]))
			}
		} else {
			g := &wildGen{rng: rng}
			r.prog = string(mutateBytes(rng, []byte(Canon(g.Program()))))
		}
		kind = "byte-mutation"
	case k == 7:
		seeds := loadFuzzSeeds(c.env.Repo)
		if i := j / 10; i < len(seeds) {
			r.prog = seeds[i][0]
			if len(seeds[i]) > 1 {
				r.input = []byte(seeds[i][1])
			}
			kind = "fuzz-seed"
		} else {
			r.prog = string(randomBytes(rng))
			kind = "raw-bytes"
		}
	case k == 8:
		// selectors: generated, mutated, garbage
		r.prog = []string{"{ print }", "{ print $ } END { print 'e' }", "BEGINFILE { print 'bf', $ } { $.k = 1 } ENDFILE { print $ }", ""}[rng.IntN(4)]
		for n := 1 + rng.IntN(2); n > 0; n-- {
			g := &wildGen{rng: rng}
			e := g.expr(3)
			switch rng.IntN(4) {
			case 0:
				r.sels = append(r.sels, string(randomBytes(rng)))
			case 1:
				r.sels = append(r.sels, mutateTokens(rng, RenderExpr(e, ParenMinimal, nil).Toks))
			default:
				r.sels = append(r.sels, CanonExpr(e))
			}
		}
		if r.input == nil {
			r.input = []byte(`{"a": [1, 2], "b": {"c": null}}`)
		}
		kind = "selectors"
	default:
		// EvalExpression driven directly with JSON-typed roots
		g := &wildGen{rng: rng}
		src := CanonExpr(g.expr(3))
		if rng.IntN(3) == 0 {
			src = mutateTokens(rng, RenderExpr(g.expr(3), ParenMinimal, nil).Toks)
		}
		roots := []any{nil, 1.5, "s", true, []any{1.0, "x", nil}, map[string]any{"a": []any{}, "b": map[string]any{}}, []any{}}
		o, _ := RunExpr(src, roots[rng.IntN(len(roots))], 50000)
		c.Count("sampled:eval-expression")
		c.Count("library_outcome:" + o.Class)
		switch {
		case o.Class == "budget":
			c.Inconclusive("budget")
		case legalClass(o.Class):
			if o.Steps >= 2 {
				c.NonTrivial("expr:" + src)
			}
			c.Held()
		default:
			c.Violation(fmt.Sprintf("EvalExpression ended as %s (%s %s) | expression: %s", o.Class, o.Msg, o.PanicVal, clip(src, 200)), nil, map[string]any{"expression": src, "stack": o.Stack})
		}
		return
	}
	if len(r.prog) > 65536 {
		r.prog = r.prog[:65536]
	}
	c.Count("sampled:" + kind)
	c01Check(c, r, rng.IntN(2) == 0, j%25 == 0, kind)
	if j == 3 || j == 14 {
		c.Sample(map[string]any{"kind": kind, "program": clip(r.prog, 500), "selectors": r.sels, "input": clip(string(r.input), 120)})
	}
}

func c01Cases(tier string) int {
	n := c01E1 + len(c01NestList) + len(c01ValueList)
	if tier == "thorough" {
		return n + 2000000
	}
	return n + 120000
}

// c01DbgLex: the token listing of valid programs in which divisions, regex literals and strings holding slashes meet:
// status 0, the listing ends with EOF, and it shows as many regex tokens as the program has regex literals
func c01DbgLex(c *Case) {
	for _, t := range []struct {
		prog    string
		regexes int
	}{
		{"{ print a / 2, \"x/y\" }", 0}, {"{ print a / b / c }", 0}, {"{ print a / b; x ~ /re/ }", 1}, {"{ x = a / b\ny = c / d\nz = 1 }", 0},
		{"{ print \"a=b\" ~ /=b/ }", 1}, {"{ print $ ~ /=\"/ }", 1}, {"{ x /= 2; y = /=+/; z = x /2/ 1 }", 1}, {"/re/ { print 4 / 2 } /=x/", 2},
		{"{ print (1) / 2 / [3][0] / $.a / 'q' }", 0}, {"{ print 1 / 2 # a/b\n}", 0}, {"{ a[1] /= 2; print f(/x/, /y/) / 2 }", 2}, {"{ if (x ~ /a/) print 1 / 2; else print /b/ }", 2},
	} {
		r := RunCli(c.env.Jqawk, []string{"-dbg-lex", "--", t.prog}, nil, c.env.Scratch, 60*time.Second)
		if r.TimedOut {
			c.Inconclusive("cli-timeout")
			continue
		}
		c.NonTrivial("dbg-lex:" + t.prog)
		c.Count("dbg_lex_listings")
		out := string(r.Stdout)
		f := cliFault(r)
		switch {
		case f != "":
		case r.Exit != 0:
			f = fmt.Sprintf("exit status %d for a valid program, stderr %q", r.Exit, clip(string(r.Stderr), 100))
		case !strings.HasSuffix(strings.TrimSpace(out), "EOF"):
			f = "the listing does not end with EOF"
		case strings.Count(out, "Regex(") != t.regexes:
			f = fmt.Sprintf("the listing shows %d regex tokens, the program has %d regex literals", strings.Count(out, "Regex("), t.regexes)
		}
		if f != "" {
			c.Violation(fmt.Sprintf("-dbg-lex %q: %s | listing %q", t.prog, f, clip(out, 200)), nil, map[string]any{"program": t.prog, "stdout": out, "stderr": string(r.Stderr)})
		} else {
			c.Held()
		}
	}
}

func c01Run_(c *Case) {
	i := c.Idx
	if i == 0 {
		c01DbgLex(c)
		round8Hand(c, "C01")
	}
	switch {
	case i < c01E1:
		pl := c01Placements()
		sig := c01Signals[i%6]
		place := pl[(i/6)%16]
		loop := c01Loops[(i/96)%6]
		in := c01Inputs[i/576]
		prog, sel := place.mk(c01Body(sig, loop))
		r := c01Run{prog: prog, input: in.data}
		if sel != "" {
			r.sels = strings.Split(sel, "\x00")
			if r.input == nil {
				r.input = []byte("[3]") // a selector is only evaluated when there is a value
			}
		}
		key := fmt.Sprintf("%s in %s (%s, %s)", sig, place.name, loop, in.name)
		c.Count("matrix_signal:" + strings.Fields(sig)[0])
		c.Count("matrix_placement:" + place.name)
		c01Check(c, r, false, true, key)
		if i == 0 || i == 100 {
			c.Sample(map[string]any{"matrix_cell": key, "program": prog, "selectors": r.sels})
		}
	case i < c01E1+len(c01NestList):
		r := c01NestList[i-c01E1]
		c.Count("nesting_programs")
		c.Max("max_program_bytes", len(r.prog))
		// write the program to disk first: if the process dies the journal names the case, the file holds the text
		os.WriteFile(filepath.Join(c.env.Scratch, "current-nesting-case.txt"), []byte(r.name+"\n"+r.prog), 0o644)
		// these programs terminate by construction (recursion limit x nesting): give them a budget they cannot exhaust
		c01CheckB(c, r, false, len(r.prog) < 30000, r.name, 2000000000)
	case i < c01E1+len(c01NestList)+len(c01ValueList):
		r := c01ValueList[i-c01E1-len(c01NestList)]
		c.Count("hostile_value_programs")
		c01CheckB(c, r, false, true, r.name, 200000)
	default:
		c01Sampled(c, i-c01E1-len(c01NestList)-len(c01ValueList))
	}
}

func init() {
	register(&Prop{
		ID: "C01", Level: "exploration",
		Rule:          "outcome classification only (no model): every run must end as ok / syntax / runtime / json; a recovered panic, a control-flow sentinel or any other error value, the death of the worker process, and for the binary a signal, a Go trace on stderr or a non-zero status without diagnostic are violations. Enumerated: {next, exit, break, continue, return, return v} x 16 placements (BEGIN, END, BEGINFILE, ENDFILE, pattern body, pattern expression via a match block, function called from each of the five rule kinds, match block in BEGIN / pattern rule / function, -r selector via a match block alone and after a plain selector) x {plain, while, for, for-in, nested for-in, nested if} x 4 inputs, all also through the binary; 28 nestable constructs nested 1000 / 8000 / as deep as 64 KiB allows, and 6 of them inside a self-recursive function (recursion x nesting); 22 cyclic / shared shapes (built twice) x 62 operations that walk a value (comparison, contains, sort, match, iteration, rendering, arithmetic, member chains, stores into itself) and 15 histories that shrink an array through one of two references and then walk it through the other; 25 store forms (plain, nested, through fresh names, through $, with ++ / += / --) x 18 keys of every kind (booleans, null, unset, containers, regex, function, fractions, negative, huge) on bases of every kind; every one-byte input and 50 short prefixes of byte-order marks, multi-byte sequences and JSON tokens; the six signals raised from every loop-header position / condition / print list through a match block, with and without an enclosing loop, at rule level and inside functions; method calls on every receiver kind whose argument reassigns the receiver's own location to a value of another kind before the call happens (24 call forms x 8 receivers x 9 new values); 43 statement forms in which one part reassigns a variable that another part of the same statement is using (index base, store target, argument list, loop iterable, match subject, operands) on 6 initial values; 10 programs that use 60-300 distinct patterns / formats / keys in one run, and array patterns that match without binding a name; printf with every width 1-12 in three padding styles on strings whose byte and character counts differ; all also through the binary. Sampled: whole-grammar random programs in random layouts, token-level mutations, byte-level mutations of these and of the repository's fuzz corpus, raw bytes; hostile inputs (JSONL, truncated, stray closers, nesting to 20000, garbage, empty); generated / mutated / garbage selectors; EvalExpression on JSON-typed roots; fuzzing flag on and off; step budget 50000 (budget-exhausted runs are inconclusive). Non-trivial = at least 3 interpreter steps executed (hook) or a syntax error in a text of >= 10 bytes; distinct by hash of program+selectors+input. Every sixth binary case (program up to 3 000 bytes) is also run with -dbg-ast and with -dbg-lex: status 0, or 1 with the syntax error, never a Go trace; -dbg-ast succeeds exactly when the text is no syntax error. 36 printf format tails ending inside a directive x 3 prefixes, as literals and in variables.",
		NumCases:      c01Cases,
		Run:           c01Run_,
		MinConclusive: func(tier string) int { return 20000 },
		Chunk:         func(tier string) int { return 400 },
		Exhaustive: func(tier string) string {
			return "control-flow signal x placement x loop context x input matrix (2304 cells), nesting table, shape x operation table"
		},
		Assumptions: []string{"program texts up to 64 KiB", "memory exhaustion by accumulated allocation is out of scope: a worker that hits its address-space limit with an out-of-memory signature is inconclusive"},
	})
}
