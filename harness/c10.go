package main

// C10 — output is a deterministic function of program, selectors and input bytes.
// Monitor M3 only: executions the property equates are compared with each other.

import (
	"fmt"
	"io"
	"math/rand/v2"
	"strconv"
	"strings"
	"time"

	lang "github.com/alligator/jqawk/src"
)

type poolCase struct {
	prog    string
	sels    []string
	input   []byte
	kind    string
	multi   bool // touches an object with >= 2 keys or a prototype method
	withMsg bool // the error message is part of the compared outcome
}

func objKeysLit(rng *rand.Rand, n int) (*ObjectLit, map[string]any) {
	o := &ObjectLit{}
	doc := map[string]any{}
	numericLooking := []string{"1", "1.0", "01", "10", "9", "1a", "2", "002", "2.0", "-1", "1e1", "a1", " 1", "0x1"}
	style := rng.IntN(3)
	if style == 0 && n > 9 {
		n = 9 // only 14 distinct numeric-looking keys exist
	}
	for len(o.Keys) < n {
		k := fmt.Sprintf("%c%c%d", 'a'+rng.IntN(26), 'a'+rng.IntN(26), rng.IntN(10))
		if style == 0 || (style == 1 && rng.IntN(2) == 0) {
			// keys that look like numbers: equal values in different spellings, numeric vs. string order disagreeing
			k = numericLooking[rng.IntN(len(numericLooking))]
		}
		if _, dup := doc[k]; dup {
			continue
		}
		v := rng.IntN(100)
		o.Keys = append(o.Keys, k)
		o.Quoted = append(o.Quoted, true)
		if rng.IntN(5) == 0 {
			inner, idoc := map[string]any{}, &ObjectLit{}
			for j := 0; j < 3; j++ {
				kk := fmt.Sprintf("n%d%c", j, 'a'+rng.IntN(26))
				inner[kk] = float64(j)
				idoc.Keys = append(idoc.Keys, kk)
				idoc.Quoted = append(idoc.Quoted, false)
				idoc.Vals = append(idoc.Vals, N(strconv.Itoa(j)))
			}
			o.Vals = append(o.Vals, idoc)
			doc[k] = inner
		} else {
			o.Vals = append(o.Vals, N(strconv.Itoa(v)))
			doc[k] = float64(v)
		}
	}
	return o, doc
}

// objectFamily: prints / printf %v / for-in / json() / sort over objects with 2-16 keys
func objectFamily(rng *rand.Rand) poolCase {
	n := 2 + rng.IntN(15)
	lit, doc := objKeysLit(rng, n)
	var src Expr = lit
	if rng.IntN(2) == 0 {
		src = V("$")
	}
	o := V("o")
	body := []Stmt{asg(o, src)}
	for i := 2 + rng.IntN(4); i > 0; i-- {
		switch rng.IntN(9) {
		case 0:
			body = append(body, Pr(o))
		case 1:
			body = append(body, ES(CallE(V("printf"), S("%v|%-40v|\\n"), o, o)))
		case 2:
			body = append(body, &ForIn{V: "k", V2: "v", It: o, Body: Blk(Pr(V("k"), V("v")))})
		case 3:
			body = append(body, Pr(jsonOf(o)))
		case 4:
			body = append(body, asg(V("ks"), Arr()), &ForIn{V: "k", It: o, Body: Blk(ES(Meth(V("ks"), "push", V("k"))))}, Pr(V("ks"), Meth(V("ks"), "sort")))
		case 5:
			body = append(body, Pr(Arr(o, obj1("wrapped", o))))
		case 6:
			body = append(body, Pr(Meth(o, "pluck", S(lit.Keys[0]), S(lit.Keys[len(lit.Keys)-1]), S("zz")), Meth(o, "length")))
		case 7:
			// an object literal whose values have effects: they are evaluated in the order written
			lit2 := &ObjectLit{}
			for j, k := range []string{"id", "seq", "again", "zz"}[:2+rng.IntN(3)] {
				lit2.Keys = append(lit2.Keys, k)
				lit2.Quoted = append(lit2.Quoted, false)
				if j%2 == 0 {
					lit2.Vals = append(lit2.Vals, &IncDec{Op: "++", X: V("cnt")})
				} else {
					lit2.Vals = append(lit2.Vals, Meth(V("stack"), "pop"))
				}
			}
			body = append(body, asg(V("stack"), Arr(N("1"), N("2"), N("3"), N("4"))), Pr(jsonOf(lit2), V("cnt"), jsonOf(V("stack"))))
		default:
			body = append(body, asg(V("acc"), S("")), &ForIn{V: "k", It: o, Body: Blk(asg(V("acc"), Bin("+", Bin("+", V("acc"), V("k")), S(","))))}, Pr(V("acc")))
		}
	}
	p := &Program{Items: []any{&Rule{Kind: "pattern", Body: &Block{Stmts: body}}}}
	return poolCase{prog: Canon(p), input: jsonBytes(doc), kind: "object-family", multi: true}
}

var c10Disturbers = []string{
	// stores through a string index (accepted and lost today): whatever they write into must not be what a later run reads
	"BEGIN { s = 'abc'; s[0] = 'X'; s[1]++; s[2] += 5; t = 'é日'; t[0] = 'q'; match (s[0]) { ch => { ch = 'poisoned' } } for (c in 'ab') { c = 'Z' } print s, t }",
	"{ k = 'key'; k[0] = $; k[1] = [1]; k[2] = {a: 1}; print k } END { w = 'xyz'; for (i = 0; i < 3; i++) { w[i] = i; w[i]++ } print w }",
	"BEGIN { o = {}; o.length = 5; a = []; a.push = 1; s = 'x'; s.upper = 2; n = 1.5; n.floor = 3; print o.length, a.length() }",
	"BEGIN { o = {}; o.pluck = 'mine'; print o.pluck; p = {}; print p.pluck('a') }",
	"function r(n) { return r(n + 1) } BEGIN { print 'deep'; r(1) }",
	"function f(a) { a.push(1); return 1 / 0 } BEGIN { x = []; f(x) }",
	"BEGIN { c = {}; c.me = c; print c; print json(c) }",
	"BEGIN { a = [3, 1, 2]; print a.sort(), a.contains(2), a.pop(), a.popfirst(); printf('%5s|%-5f|%v\\n', 'x', 2.5, [1]) }",
	"{ $.added = $.length(); print $ } END { exit }",
	"BEGIN { printf('%99999999999s', 'x') }",
	"BEGIN { x[2000000] = 1 }",
	"BEGIN { print 'abc'.upper().lower().split('b'), 2.5.round(), {a: 1}.pluck('a').length() }",
	"BEGIN { print 1 +",
	"BEGIN { print [1].push(2).length(), 'a'.length() }",
	"BEGIN { match (null) { t => { t += 5; t = 'poisoned' } } match (true) { s => { s = 'no' } } match (false) { f => { f++ } } x = 0; match (x) { z => { z = 9 } } print 'd' }",
	"BEGIN { x = true; x++; y = null; y.k = 1; n = 5; n++; print x, n } { $ = null } END { print null, true, false, 0, 1, '' }",
	"function m(v) { v.seen = 1; return v } BEGIN { print m({}), m([]) , 1 is number, null is null }",
	"BEGIN { printf('partial text %s and %d', 'x', 1) }",
	"BEGIN { printf('%s|%5f|', 'abc', 2); printf('tail %v %q', [1]) }",
	"{ printf('%s=%s;', $.b, $.zz) }",
}

// literalFamily: programs whose output depends on the CONTENT of every literal at a fixed set of source positions
// (regex, string and number literals of equal length are drawn from small pools).
func literalFamily(rng *rand.Rand) poolCase {
	res := []string{"^a", "b$", "ab", "^b", "a$", "ba", "c+", "^c", "a.", ".b"}
	strs := []string{"ab", "ba", "ca", "bc", "aa", "cb"}
	re := func() string { return "/" + res[rng.IntN(len(res))] + "/" }
	st := func() string { return "'" + strs[rng.IntN(len(strs))] + "'" }
	num := func() string { return strconv.Itoa(1 + rng.IntN(8)) }
	var sb strings.Builder
	fmt.Fprintf(&sb, "$.s ~ %s { print 'rule', $.s }\n", re())
	fmt.Fprintf(&sb, "{ print $.s ~ %s, $.t !~ %s, $.s == %s, $.n > %s, $.s + %s, $.n * %s }\n", re(), re(), st(), num(), st(), num())
	fmt.Fprintf(&sb, "{ print match ($.s) { %s => 'first', %s => 'second', other => other ~ %s } }\n", st(), st(), re())
	if rng.IntN(2) == 0 {
		fmt.Fprintf(&sb, "function f(v) { return v ~ %s } { print f($.s), f($.t), f(%s) }\n", re(), st())
	}
	fmt.Fprintf(&sb, "END { printf('%%s %%5s|\\n', %s, %s); print %s.length() + %s }", st(), st(), st(), num())
	var sels []string
	if rng.IntN(2) == 0 {
		sels = []string{fmt.Sprintf("match ($.s ~ %s) { true => $, other => { s: %s, t: %s, n: %s } }", re(), st(), st(), num())}
	}
	var in strings.Builder
	for i := 3 + rng.IntN(4); i > 0; i-- {
		fmt.Fprintf(&in, "{\"s\": \"%s\", \"t\": \"%s\", \"n\": %d}\n", strs[rng.IntN(len(strs))], strs[rng.IntN(len(strs))], rng.IntN(9))
	}
	if rng.IntN(3) == 0 {
		// a damaged tail: the values before it are processed, then the run fails - identically every time
		in.WriteString([]string{"]", "{\"s\": ", "} {", "nul"}[rng.IntN(4)])
	}
	return poolCase{prog: sb.String(), sels: sels, input: []byte(in.String()), kind: "literal-content", multi: true}
}

// compareFamily: comparisons, contains() and match cases over containers with several members of mixed kinds; whatever
// the outcome is (false, true, or a runtime error for a container against a scalar), it is the same every time
func compareFamily(rng *rand.Rand) poolCase {
	vals := []string{"1", "2", "'s'", "[1]", "[1, 2]", "{z: 1}", "{}", "null", "true", "[]", "5.5", "'1'"}
	obj := func() string {
		n := 2 + rng.IntN(5)
		parts := make([]string, n)
		for i := range parts {
			parts[i] = fmt.Sprintf("k%d: %s", i, vals[rng.IntN(len(vals))])
		}
		return "{" + strings.Join(parts, ", ") + "}"
	}
	a, b := obj(), obj()
	if rng.IntN(3) == 0 {
		b = a
	}
	ops := []string{"==", "!=", "<", ">="}
	var sb strings.Builder
	fmt.Fprintf(&sb, "BEGIN { a = %s; b = %s; c = a }\n", a, b)
	fmt.Fprintf(&sb, "BEGIN { print 'start'; print a %s b }\n", ops[rng.IntN(4)])
	fmt.Fprintf(&sb, "END { print [a, 1].contains(b), 'contains' }\nEND { print match (a) { {} => 'empty', other => 'other' } }\nEND { print a %s c, [a] %s [b] }\n", ops[rng.IntN(4)], ops[rng.IntN(2)])
	return poolCase{prog: sb.String(), input: []byte("[1]"), kind: "container-comparison", multi: true}
}

func c10Pool(rng *rand.Rand) poolCase {
	pc := c10PoolRaw(rng)
	if pc.input != nil && rng.IntN(12) == 0 {
		// a byte order mark, or other bytes a reader-side convenience might treat specially, before the first value
		pc.input = append([]byte([]string{"\xef\xbb\xbf", "\xef\xbb", "\xfe\xff", "\x1e", " \n\t", "\xef\xbb\xbf\n"}[rng.IntN(6)]), pc.input...)
		pc.kind += "+prefixed-input"
	}
	return pc
}

// caseFamily: objects whose keys differ only in case, read and stored under spellings that are and are not keys
func caseFamily(rng *rand.Rand) poolCase {
	spell := [][]string{{"ID", "Id", "iD", "id"}, {"Name", "NAME", "name", "nAme"}, {"k", "K"}}
	var in strings.Builder
	for r := 0; r < 3; r++ {
		in.WriteString("{")
		first := true
		for _, grp := range spell {
			for _, k := range grp {
				if rng.IntN(3) == 0 {
					continue
				}
				if !first {
					in.WriteString(", ")
				}
				first = false
				fmt.Fprintf(&in, "\"%s\": %d", k, rng.IntN(9))
			}
		}
		in.WriteString("}\n")
	}
	pick := func(g int) string { return spell[g][rng.IntN(len(spell[g]))] }
	prog := fmt.Sprintf("{ print $.%s, $.%s, $['%s'], $.%s; $.%s = 'set'; $.%s++; print $; o = {%s: 1, %s: 2}; print o.%s, o.%s, o }", pick(0), pick(1), pick(0), pick(2), pick(0), pick(1), spell[0][0], spell[0][1], pick(0), pick(0))
	return poolCase{prog: prog, input: []byte(in.String()), kind: "case-variant-keys", multi: true}
}

// unwritableFamily: a root (or a json() argument) with several members that cannot be written as JSON -- a regex,
// a function, a reference to an enclosing container: the run fails, and with the same report every time
func unwritableFamily(rng *rand.Rand) poolCase {
	bad := []string{"/x/", "printf", "$", "self", "json", "/y+/"}
	keys := []string{"r", "self", "a", "zz", "B", "m1", "m2", "k"}
	rng.Shuffle(len(keys), func(i, j int) { keys[i], keys[j] = keys[j], keys[i] })
	n := 2 + rng.IntN(4)
	var sb strings.Builder
	if rng.IntN(2) == 0 {
		sb.WriteString("{ self = $; ")
		for i := 0; i < n; i++ {
			fmt.Fprintf(&sb, "$.%s = %s; ", keys[i], bad[rng.IntN(len(bad))])
		}
		sb.WriteString("print 'stored' }")
		return poolCase{prog: sb.String(), input: []byte(`{"first": 1, "second": [2]}`), kind: "unwritable-root", multi: true}
	}
	sb.WriteString("BEGIN { self = {}; o = self; ")
	for i := 0; i < n; i++ {
		b := bad[rng.IntN(len(bad))]
		if b == "$" {
			b = "o"
		}
		fmt.Fprintf(&sb, "o.%s = %s; ", keys[i], b)
	}
	sb.WriteString("print 'stored'; print json(o) }")
	return poolCase{prog: sb.String(), input: []byte("[1]"), kind: "unwritable-json-argument", multi: true, withMsg: true}
}

// stringIndexFamily: programs whose output is made of single characters read through s[i], for-in over strings and
// split(''), over the same small alphabet the disturbers write to
func stringIndexFamily(rng *rand.Rand) poolCase {
	words := []string{"abc", "cab", "xyz", "key", "aXb", "é日a", "bca5", "zzz"}
	w1, w2 := words[rng.IntN(len(words))], words[rng.IntN(len(words))]
	prog := fmt.Sprintf("BEGIN { s = '%s'; t = '%s'; print s[0], s[1], s[2], t[0], t[%d]; for (i, ch in s) { print i, ch, ch == t[i] } print s.split('')[%d], (s + t)[%d], s[0] + t[0], s[0].upper(), s[1].length() }\n{ u = $.w; print u[0], u[1], u[u.length() - 1], u[0] == 'a' }",
		w1, w2, rng.IntN(3), rng.IntN(3), rng.IntN(5))
	in := fmt.Sprintf(`{"w": "%s"} {"w": "%s"}`, words[rng.IntN(len(words))], words[rng.IntN(len(words))])
	return poolCase{prog: prog, input: []byte(in), kind: "string-index", multi: true}
}

func c10PoolRaw(rng *rand.Rand) poolCase {
	if rng.IntN(25) == 0 {
		return unwritableFamily(rng)
	}
	if rng.IntN(25) == 0 {
		return stringIndexFamily(rng)
	}
	if rng.IntN(14) == 0 {
		return caseFamily(rng)
	}
	if rng.IntN(10) == 0 {
		return literalFamily(rng)
	}
	if rng.IntN(12) == 0 {
		return compareFamily(rng)
	}
	switch rng.IntN(12) {
	case 0, 1, 2, 3:
		return objectFamily(rng)
	case 4:
		g := &wildGen{rng: rng}
		rd := RenderProgram(g.Program(), ParenMinimal, nil)
		s, _ := rd.Layout(nil)
		return poolCase{prog: s, input: hostileInput(rng), kind: "whole-grammar"}
	case 5:
		g := newStructGen(rng, sgOpts{MaxDepth: 3, Funcs: true, Signals: true, Exit: true, MultiRule: true, NonASCII: true})
		p, doc := g.Program()
		return poolCase{prog: Canon(p), input: doc, kind: "structured"}
	case 6:
		g := &funcGen{rng: rng, stats: map[string]int{}}
		p, doc := g.Program()
		return poolCase{prog: Canon(p), input: doc, kind: "functions", multi: true}
	case 7:
		g := &asgGen{rng: rng, assigned: map[string]bool{}, stats: map[string]int{}, allowTag: func(map[string]bool) bool { return true }}
		doc := map[string]any{"a": g.genDocVal(2), "list": g.genDocVal(2), "b": g.genDocVal(3), "zeta": 1.0, "alpha": 2.0}
		body := g.history(4+rng.IntN(8), doc)
		return poolCase{prog: Canon(c09Program(body)), input: jsonBytes(doc), kind: "assignment-history", multi: true}
	case 8:
		g := &docGen{rng: rng, stats: map[string]int{}}
		return poolCase{prog: []string{"{ print }", "{ print json($) }", "{ for (k, v in $) print k, v }", "{ printf('%v\\n', $) }"}[rng.IntN(4)], input: []byte(g.doc()), kind: "document-print", multi: true}
	case 9:
		return poolCase{prog: c10Disturbers[rng.IntN(len(c10Disturbers))], input: []byte(`[{"b": 1, "a": [1, 2], "c": {"z": 1, "y": 2}}, {"k": "v", "j": null}]`), kind: "disturber", multi: true}
	case 10:
		g := &wildGen{rng: rng}
		if rng.IntN(2) == 0 {
			// selectors with a memory: whatever they count or collect starts afresh in every run
			sel := []string{"[$.a, n++]", "[seen[$.b.d]++, $.b]", "match (acc.push(1)) { v => v.length() }", "{k: (total = total + $.b.d), first: n++ == 0}", "[$.a[n++ % 2]]"}[rng.IntN(5)]
			return poolCase{prog: "BEGIN { acc = [] } { print $ } END { print 'e', n, total }", sels: []string{sel, "$", sel}, input: []byte(`{"b": {"d": 1, "c": 2}, "a": [1, {"y": 1, "x": 2}]}` + "\n" + `{"b": {"d": 5}, "a": [7, 8]}`), kind: "stateful-selectors", multi: true}
		}
		return poolCase{prog: "{ print $ } END { print 'e' }", sels: []string{CanonExpr(g.expr(3)), "$"}, input: []byte(`{"b": {"d": 1, "c": 2}, "a": [1, {"y": 1, "x": 2}]}`), kind: "selectors", multi: true}
	}
	g := &matchGen{rng: rng, stats: map[string]int{}}
	target := g.subject(2)
	cases, _, _ := g.cases(target, false)
	p := &Program{Items: []any{&Rule{Kind: "pattern", Body: Blk(Pr(jsonOf(&MatchExpr{Subj: V("$"), Cases: cases})))}}}
	return poolCase{prog: Canon(p), input: jsonBytes([]any{target, g.subject(2)}), kind: "match"}
}

type c10Sig struct {
	class  string
	stdout string
	root   string
}

// dribble delivers its bytes in pieces of the given sizes (cycled), the way a slow pipe or socket does
type dribble struct {
	data  []byte
	sizes []int
	i     int
}

func (d *dribble) Read(p []byte) (int, error) {
	if len(d.data) == 0 {
		return 0, io.EOF
	}
	n := d.sizes[d.i%len(d.sizes)]
	d.i++
	if n > len(p) {
		n = len(p)
	}
	if n > len(d.data) {
		n = len(d.data)
	}
	copy(p, d.data[:n])
	d.data = d.data[n:]
	return n, nil
}

func c10RunOnce(pc poolCase) (c10Sig, bool) { return c10RunChunked(pc, nil) }

func c10RunChunked(pc poolCase, sizes []int) (c10Sig, bool) {
	var files []InFile
	if pc.input != nil {
		files = []InFile{{Name: "in.json", Data: pc.input}}
		if sizes != nil {
			files = []InFile{{Name: "in.json", Reader: &dribble{data: append([]byte{}, pc.input...), sizes: sizes}}}
		}
	}
	o := RunLib(pc.prog, files, pc.sels, RunOpts{Budget: 100000, WantRoot: true})
	if o.Class == "budget" {
		return c10Sig{}, false
	}
	sig := c10Sig{class: o.Class, stdout: string(o.Stdout), root: o.RootJSON + "|" + o.RootErr}
	if pc.withMsg {
		sig.root += "|" + o.Msg // what json() reports is the JSON outcome of these programs
	}
	return sig, true
}

// siblingText returns a program of identical layout in which every string, regex and number literal has other
// content of the same length: whatever an implementation remembers per source position (rather than per
// content) from a run of the sibling is wrong for the original.
func siblingText(src string) string {
	b := []byte(src)
	rot := func(ch byte) byte {
		switch {
		case ch >= 'a' && ch < 'z', ch >= 'A' && ch < 'Z', ch >= '0' && ch < '9':
			return ch + 1
		case ch == 'z':
			return 'a'
		case ch == 'Z':
			return 'A'
		case ch == '9':
			return '1'
		}
		return ch
	}
	prevSig := byte(0) // last significant byte outside literals
	for i := 0; i < len(b); i++ {
		ch := b[i]
		switch {
		case ch == '\'' || ch == '"':
			for i++; i < len(b) && b[i] != ch; i++ {
				if b[i] == '\\' {
					i++
					continue
				}
				if i > 0 && b[i-1] == '%' {
					continue // keep printf directives
				}
				b[i] = rot(b[i])
			}
			prevSig = ch
		case ch == '/' && (prevSig == '~' || prevSig == '(' || prevSig == ',' || prevSig == '=' || prevSig == '{' || prevSig == 0 || prevSig == '&' || prevSig == '|' || prevSig == '!'):
			for i++; i < len(b) && b[i] != '/'; i++ {
				if b[i] == '\\' {
					i++
					continue
				}
				b[i] = rot(b[i])
			}
			prevSig = '/'
		case ch == '#':
			for i < len(b) && b[i] != '\n' {
				i++
			}
		case ch >= '0' && ch <= '9' && !(prevSig >= 'a' && prevSig <= 'z') && !(prevSig >= 'A' && prevSig <= 'Z') && prevSig != '_' && prevSig != '$':
			b[i] = rot(ch)
			prevSig = '0'
		case ch == ' ' || ch == '\t' || ch == '\n' || ch == '\r':
		default:
			prevSig = ch
		}
	}
	return string(b)
}

func sigDiff(a, b c10Sig) string {
	switch {
	case a.class != b.class:
		return fmt.Sprintf("outcome %s vs %s", a.class, b.class)
	case a.stdout != b.stdout:
		return "stdout: " + diffAt(a.stdout, b.stdout)
	case a.root != b.root:
		return "JSON output: " + diffAt(a.root, b.root)
	}
	return ""
}

func c10Run(c *Case) {
	if c.Idx == 0 {
		round8C10(c)
	}
	rng := c.Rng
	pc := c10Pool(rng)
	if len(pc.prog) > 60000 {
		c.Inconclusive("program-too-long")
		return
	}
	before := lang.VerifGlobals()
	ref, ok := c10RunOnce(pc)
	if !ok {
		c.Inconclusive("budget")
		return
	}
	c.Count("pool:" + pc.kind)
	c.Count("outcome:" + ref.class)
	if pc.multi {
		c.NonTrivial(pc.prog + string(pc.input) + strings.Join(pc.sels, "|"))
	}
	rp := map[string]any{"program": pc.prog, "selectors": pc.sels, "input": string(pc.input), "globals_before": fmt.Sprint(before)}
	// repeated back to back
	for i := 1; i < 8; i++ {
		got, ok := c10RunOnce(pc)
		if !ok {
			c.Inconclusive("budget")
			return
		}
		c.Count("executions_compared")
		if d := sigDiff(ref, got); d != "" {
			rp["globals_after"] = fmt.Sprint(lang.VerifGlobals())
			c.Violation(fmt.Sprintf("run %d of the same program and input differs from run 0: %s | program: %s", i, d, clip(pc.prog, 200)), nil, rp)
			return
		}
	}
	// after sequences of unrelated runs in the same process
	for seq := 0; seq < 3; seq++ {
		var names []string
		for k := 1 + rng.IntN(3); k > 0; k-- {
			d := c10Pool(rng)
			if rng.IntN(2) == 0 {
				d = poolCase{prog: c10Disturbers[rng.IntN(len(c10Disturbers))], input: []byte(`[{"b": 1, "a": 2}]`), kind: "disturber"}
			}
			c10RunOnce(d)
			names = append(names, d.kind)
		}
		got, ok := c10RunOnce(pc)
		if !ok {
			c.Inconclusive("budget")
			return
		}
		c.Count("executions_compared")
		c.Count("interleavings")
		if d := sigDiff(ref, got); d != "" {
			rp["predecessors"] = names
			rp["globals_after"] = fmt.Sprint(lang.VerifGlobals())
			c.Violation(fmt.Sprintf("the same run gives a different result after unrelated runs %v in the same process: %s | program: %s", names, d, clip(pc.prog, 200)), nil, rp)
			return
		}
	}
	// the same bytes delivered in small pieces (the result is a function of the bytes, not of how reads happen to split them)
	if pc.input != nil {
		for _, sizes := range [][]int{{1}, {2, 1}, {1, 3, 2, 7}, {5}} {
			got, ok := c10RunChunked(pc, sizes)
			if !ok {
				c.Inconclusive("budget")
				return
			}
			c.Count("executions_compared")
			c.Count("deliveries_in_small_pieces")
			if d := sigDiff(ref, got); d != "" {
				rp["read_sizes"] = fmt.Sprint(sizes)
				c.Violation(fmt.Sprintf("the same input bytes delivered in reads of %v bytes give a different result: %s | program: %s | input starts %q", sizes, d, clip(pc.prog, 160), clip(string(pc.input), 30)), nil, rp)
				return
			}
		}
	}
	// after a run of the position-preserving sibling (same layout, other literal contents)
	{
		sib := pc
		sib.prog = siblingText(pc.prog)
		sib.sels = nil
		for _, sel := range pc.sels {
			sib.sels = append(sib.sels, siblingText(sel))
		}
		if sib.prog != pc.prog || strings.Join(sib.sels, "|") != strings.Join(pc.sels, "|") {
			c10RunOnce(sib)
			got, ok := c10RunOnce(pc)
			if !ok {
				c.Inconclusive("budget")
				return
			}
			c.Count("executions_compared")
			c.Count("after_position_preserving_sibling")
			if d := sigDiff(ref, got); d != "" {
				rp["sibling_program"] = sib.prog
				rp["sibling_selectors"] = sib.sels
				c.Violation(fmt.Sprintf("the same run gives a different result after a program of the same layout with other literals ran in the same process: %s | program: %s", d, clip(pc.prog, 200)), nil, rp)
				return
			}
		}
	}
	c.Held()
	// fresh processes
	if c.Idx%4 == 0 && !strings.ContainsRune(pc.prog, 0) {
		args := []string{}
		skip := false
		for _, s := range pc.sels {
			if strings.ContainsRune(s, 0) {
				skip = true
			}
			args = append(args, "-r", s)
		}
		if skip {
			return
		}
		args = append(args, "-o", "-", "--", pc.prog)
		var first *CliResult
		for i := 0; i < 4; i++ {
			r := RunCli(c.env.Jqawk, args, pc.input, c.env.Scratch, 60*time.Second)
			if r.TimedOut {
				c.Inconclusive("cli-timeout")
				return
			}
			c.Count("process_executions_compared")
			if first == nil {
				first = r
				continue
			}
			if r.Exit != first.Exit || string(r.Stdout) != string(first.Stdout) {
				c.Violation(fmt.Sprintf("fresh process %d differs from process 0: exit %d vs %d, stdout: %s | program: %s", i, r.Exit, first.Exit, diffAt(string(first.Stdout), string(r.Stdout)), clip(pc.prog, 200)), nil, rp)
				return
			}
		}
		// and the processes agree with the in-process run on what the program printed
		if ref.class == "ok" && !strings.HasPrefix(string(first.Stdout), ref.stdout) {
			c.Violation(fmt.Sprintf("fresh process prints something else than the in-process run: %s | program: %s", diffAt(ref.stdout, string(first.Stdout)), clip(pc.prog, 200)), nil, rp)
			return
		}
		c.Held()
	}
	if c.Idx%500 == 1 {
		c.Sample(map[string]any{"kind": pc.kind, "program": clip(pc.prog, 400), "input": clip(string(pc.input), 200), "selectors": pc.sels})
	}
}

func init() {
	register(&Prop{
		ID: "C10", Level: "exploration",
		Rule: "metamorphic: a case (program, selectors, input) drawn from a pool (object family: print / printf %v / for-in / json() / key collection+sort / pluck over objects with 2-16 keys from literals and from the input; whole-grammar programs; objects whose keys differ only in case, read and stored under spellings that are and are not keys; selectors with a memory (counters, collections: they start afresh in every run); a container-comparison family (objects of 2-6 mixed members compared, searched and matched: the outcome, error or not, is the same every time); inputs prefixed with a byte order mark, half of one, a record separator or white space; a literal-content family whose output depends on every regex / string / number literal at fixed source positions, in rules, functions, match cases and selectors; structured, function, assignment-history, match programs; document printing; selectors; 12 'disturber' programs that assign to method names, fail inside calls, hit limits, build cycles) is executed in-process 8 times back to back, 3 more times each after 1-3 unrelated pool/disturber runs in the same process, 4 times with the same input bytes delivered in reads of 1 / 1-2 / 1-7 / 5 bytes, once more after its position-preserving sibling (same layout, every string / regex / number literal replaced by other content of the same length, in program and selectors), and (every 4th case) in 4 fresh processes of the binary with -o -; stdout, JSON output (or its error) and outcome class must be byte-identical across all of them. Non-trivial = the case touches an object with >= 2 keys or a prototype method; distinct by program+input+selectors. Go randomises map iteration per range statement, so an order-dependent output over n >= 3 keys repeats 11 times by chance with probability < 1e-8.; an unwritable family: a root or json() argument with 2-5 members that cannot be written as JSON (regex, function, reference to an enclosing container) fails with the same report every time; a string-index family (characters read through s[i], for-in over strings, split(\"\")) with disturbers that store through string indices",
		NumCases: func(tier string) int {
			if tier == "thorough" {
				return 60000
			}
			return 4000
		},
		Run:           c10Run,
		MinConclusive: func(tier string) int { return 1500 },
		Assumptions:   []string{"nondeterminism with a probability far below 1/(number of runs) is not observable", "error message texts are not compared, only the outcome class"},
	})
}
