package main

// C08 — calls bind by position and value; completed calls and matches leave no residue.

import (
	"bytes"
	"fmt"
	"math/rand/v2"
	"strconv"
	"strings"
)

type fgFunc struct {
	f         *Func
	container bool // last parameter is a container (exact argument list required)
	usesNext  bool
}

type funcGen struct {
	rng   *rand.Rand
	funcs []*fgFunc
	tag   int
	stats map[string]int
}

func (g *funcGen) lit() Expr { return N(strconv.Itoa(g.rng.IntN(7))) }

func (g *funcGen) scalarExpr(names []string, depth int) Expr {
	if depth <= 0 || g.rng.IntN(3) == 0 {
		if len(names) > 0 && g.rng.IntN(3) > 0 {
			return V(names[g.rng.IntN(len(names))])
		}
		return g.lit()
	}
	return Bin([]string{"+", "-", "*"}[g.rng.IntN(3)], g.scalarExpr(names, depth-1), g.scalarExpr(names, depth-1))
}

func (g *funcGen) trace(label string, names []string) Stmt {
	g.tag++
	args := []Expr{S(fmt.Sprintf("%s#%d", label, g.tag))}
	for _, n := range names {
		args = append(args, V(n))
	}
	return Pr(args...)
}

// callExpr builds a call of function fi with a (possibly mismatching) argument list.
func (g *funcGen) callExpr(fi int, names []string) Expr {
	f := g.funcs[fi]
	np := len(f.f.Params)
	n := np
	if !f.container {
		switch g.rng.IntN(5) {
		case 0:
			n = g.rng.IntN(np + 1) // too few: missing ones are null
			g.stats["call-too-few"]++
		case 1:
			n = np + 1 + g.rng.IntN(2) // surplus ones ignored
			g.stats["call-too-many"]++
		}
	}
	var args []Expr
	for i := 0; i < n; i++ {
		if f.container && i == np-1 {
			if g.rng.IntN(2) == 0 {
				args = append(args, V("GA"))
			} else {
				args = append(args, V("GO"))
			}
			continue
		}
		args = append(args, g.scalarExpr(names, 1))
	}
	g.stats["call"]++
	return CallE(V(f.f.Name), args...)
}

func (g *funcGen) genFunc(i int) *fgFunc {
	name := fmt.Sprintf("F%d", i)
	np := g.rng.IntN(5)
	ff := &fgFunc{}
	var params []string
	for j := 0; j < np; j++ {
		params = append(params, fmt.Sprintf("f%dp%d", i, j))
	}
	scal := append([]string{}, params...)
	if np > 0 && g.rng.IntN(3) == 0 {
		ff.container = true
		scal = scal[:np-1]
	}
	readable := append(append([]string{}, scal...), "G0", "G1")
	b := &Block{}
	b.Stmts = append(b.Stmts, g.trace("in "+name, scal))
	nst := 2 + g.rng.IntN(4)
	nloc := 0
	for s := 0; s < nst; s++ {
		switch g.rng.IntN(10) {
		case 0, 1:
			l := fmt.Sprintf("f%dl%d", i, nloc)
			nloc++
			b.Stmts = append(b.Stmts, ES(Asg(V(l), g.scalarExpr(readable, 2))))
			readable = append(readable, l)
		case 2:
			gv := []string{"G0", "G1"}[g.rng.IntN(2)]
			b.Stmts = append(b.Stmts, ES(Asg(V(gv), Bin("+", V(gv), g.scalarExpr(scal, 1)))))
		case 3:
			if len(scal) > 0 {
				p := scal[g.rng.IntN(len(scal))]
				// reassigning a parameter must not be visible to the caller
				b.Stmts = append(b.Stmts, ES(Asg(V(p), Bin("+", V(p), N("100")))))
			}
		case 4:
			b.Stmts = append(b.Stmts, &If{C: Bin(">", g.scalarExpr(readable, 1), g.lit()), Then: Blk(g.trace("early "+name, nil), &Return{X: g.scalarExpr(readable, 1)})})
		case 5:
			x := fmt.Sprintf("f%dx%d", i, s)
			b.Stmts = append(b.Stmts, &ForIn{V: x, It: Arr(N("1"), N("2"), N("3")), Body: Blk(
				&If{C: Bin("==", V(x), g.scalarExpr(readable, 0)), Then: &Return{X: Bin("*", V(x), N("10"))}})})
			g.stats["return-in-loop"]++
		case 6:
			if ff.container {
				pc := params[np-1]
				// element / key store through the parameter is visible to the caller (shared container)
				b.Stmts = append(b.Stmts, &If{C: &IsExpr{X: V(pc), T: "array"}, Then: Blk(ES(Asg(Idx(V(pc), N("0")), g.scalarExpr(readable, 1)))),
					Else: Blk(ES(Asg(Mem(V(pc), "k"), g.scalarExpr(readable, 1))))})
				g.stats["container-store"]++
			}
		case 7:
			if i > 0 {
				l := fmt.Sprintf("f%dl%d", i, nloc)
				nloc++
				b.Stmts = append(b.Stmts, ES(Asg(V(l), g.callExpr(g.rng.IntN(i), readable))))
				readable = append(readable, l)
				g.stats["nested-call"]++
			}
		case 8:
			x, y := fmt.Sprintf("f%dm%dx", i, s), fmt.Sprintf("f%dm%dy", i, s)
			l := fmt.Sprintf("f%dl%d", i, nloc)
			nloc++
			mc := &MatchExpr{Subj: Arr(g.scalarExpr(readable, 1), g.lit()), Cases: []*MatchCase{
				{Pats: []Expr{Arr(N("1"), V(y))}, Body: Bin("+", V(y), N("1000"))},
				{Pats: []Expr{Arr(V(x), V(y))}, Body: Bin("+", V(x), V(y))}}}
			if g.rng.IntN(2) == 0 {
				mc.Cases[1] = &MatchCase{Pats: []Expr{Arr(V(x), V(y))}, Block: Blk(&Return{X: Bin("-", V(x), V(y))})}
				g.stats["return-in-match-block"]++
			}
			b.Stmts = append(b.Stmts, ES(Asg(V(l), mc)), Pr(S("probe-match"), &IsExpr{X: V(x), T: "unknown"}, &IsExpr{X: V(y), T: "unknown"}))
			readable = append(readable, l)
			g.stats["match-in-function"]++
		case 9:
			b.Stmts = append(b.Stmts, g.trace("mid "+name, readable[:min(len(readable), 3)]))
		}
	}
	if g.rng.IntN(4) > 0 {
		b.Stmts = append(b.Stmts, &Return{X: g.scalarExpr(readable, 2)})
	} else if g.rng.IntN(2) == 0 {
		b.Stmts = append(b.Stmts, &Return{})
	}
	ff.f = &Func{Name: name, Params: params, Body: b}
	return ff
}

// probes: names of every function's parameters and locals must be unknown in the caller
func (g *funcGen) probes() Stmt {
	var args []Expr
	args = append(args, S("probe"))
	for i, f := range g.funcs {
		for _, p := range f.f.Params {
			args = append(args, &IsExpr{X: V(p), T: "unknown"})
		}
		args = append(args, &IsExpr{X: V(fmt.Sprintf("f%dl0", i)), T: "unknown"})
	}
	return Pr(args...)
}

var c08Library = func() []any {
	fact := &Func{Name: "fact", Params: []string{"n"}, Body: Blk(&If{C: Bin("<=", V("n"), N("1")), Then: &Return{X: N("1")}}, &Return{X: Bin("*", V("n"), CallE(V("fact"), Bin("-", V("n"), N("1"))))})}
	fib := &Func{Name: "fib", Params: []string{"n"}, Body: Blk(&If{C: Bin("<", V("n"), N("2")), Then: &Return{X: V("n")}}, &Return{X: Bin("+", CallE(V("fib"), Bin("-", V("n"), N("1"))), CallE(V("fib"), Bin("-", V("n"), N("2"))))})}
	ev := &Func{Name: "ev", Params: []string{"n"}, Body: Blk(&If{C: Bin("==", V("n"), N("0")), Then: &Return{X: &BoolLit{V: true}}}, &Return{X: CallE(V("od"), Bin("-", V("n"), N("1")))})}
	od := &Func{Name: "od", Params: []string{"n"}, Body: Blk(&If{C: Bin("==", V("n"), N("0")), Then: &Return{X: &BoolLit{V: false}}}, &Return{X: CallE(V("ev"), Bin("-", V("n"), N("1")))})}
	ack := &Func{Name: "ack", Params: []string{"m", "n"}, Body: Blk(
		&If{C: Bin("==", V("m"), N("0")), Then: &Return{X: Bin("+", V("n"), N("1"))}},
		&If{C: Bin("==", V("n"), N("0")), Then: &Return{X: CallE(V("ack"), Bin("-", V("m"), N("1")), N("1"))}},
		&Return{X: CallE(V("ack"), Bin("-", V("m"), N("1")), CallE(V("ack"), V("m"), Bin("-", V("n"), N("1"))))})}
	sum := &Func{Name: "sumto", Params: []string{"n"}, Body: Blk(&If{C: Bin("<=", V("n"), N("0")), Then: &Return{X: N("0")}}, &Return{X: Bin("+", V("n"), CallE(V("sumto"), Bin("-", V("n"), N("1"))))})}
	return []any{fact, fib, ev, od, ack, sum}
}()

func (g *funcGen) Program() (*Program, []byte) {
	nf := 1 + g.rng.IntN(4)
	for i := 0; i < nf; i++ {
		g.funcs = append(g.funcs, g.genFunc(i))
	}
	p := &Program{}
	for _, f := range g.funcs {
		p.Items = append(p.Items, f.f)
	}
	p.Items = append(p.Items, c08Library...)
	begin := Blk(ES(Asg(V("G0"), N("1"))), ES(Asg(V("G1"), N("2"))), ES(Asg(V("GA"), Arr(N("7"), N("8")))),
		ES(Asg(V("GO"), &ObjectLit{Keys: []string{"k"}, Quoted: []bool{false}, Vals: []Expr{N("9")}})), ES(Asg(V("L"), N("5"))))
	caller := []string{"G0", "G1", "L"}
	state := func() Stmt {
		return Pr(S("state"), V("G0"), V("G1"), V("L"), Idx(V("GA"), N("0")), Mem(V("GO"), "k"))
	}
	ncalls := 2 + g.rng.IntN(5)
	for k := 0; k < ncalls; k++ {
		fi := g.rng.IntN(nf)
		call := g.callExpr(fi, caller)
		switch g.rng.IntN(9) {
		case 0:
			begin.Stmts = append(begin.Stmts, Pr(S("r"), call))
		case 1:
			begin.Stmts = append(begin.Stmts, Pr(S("sum"), Bin("+", call, g.callExpr(g.rng.IntN(nf), caller))))
		case 2:
			begin.Stmts = append(begin.Stmts, &If{C: Bin(">", call, N("3")), Then: Blk(Pr(S("cond-true"))), Else: Blk(Pr(S("cond-false")))})
		case 3:
			begin.Stmts = append(begin.Stmts, Pr(S("idx"), Idx(Arr(N("10"), N("20"), N("30"), N("40")), Bin("%", Bin("*", call, call), N("4")))))
		case 4:
			begin.Stmts = append(begin.Stmts, Pr(S("match"), &MatchExpr{Subj: call, Cases: []*MatchCase{
				{Pats: []Expr{N("1"), N("2")}, Body: S("small")}, {Pats: []Expr{&NullLit{}}, Body: S("null")}, {Pats: []Expr{V("mv")}, Body: Bin("+", V("mv"), N("1"))}}}),
				Pr(S("probe-mv"), &IsExpr{X: V("mv"), T: "unknown"}))
		case 5:
			begin.Stmts = append(begin.Stmts, ES(Asg(V("L"), call)), Pr(S("L"), V("L")))
		case 6:
			lib := []Expr{CallE(V("fact"), N(strconv.Itoa(g.rng.IntN(11)))), CallE(V("fib"), N(strconv.Itoa(g.rng.IntN(12)))), CallE(V("ev"), N(strconv.Itoa(g.rng.IntN(30)))),
				CallE(V("ack"), N(strconv.Itoa(g.rng.IntN(3))), N(strconv.Itoa(g.rng.IntN(4)))), CallE(V("sumto"), N(strconv.Itoa(g.rng.IntN(900))))}
			begin.Stmts = append(begin.Stmts, Pr(S("lib"), lib[g.rng.IntN(len(lib))]))
			g.stats["recursion"]++
		case 7:
			// a call as an argument of another call
			begin.Stmts = append(begin.Stmts, Pr(S("nest"), CallE(V("fact"), Bin("%", call, N("6")))))
		default:
			begin.Stmts = append(begin.Stmts, ES(call))
		}
		begin.Stmts = append(begin.Stmts, state(), g.probes())
	}
	p.Items = append(p.Items, &Rule{Kind: "BEGIN", Body: begin})
	// a pattern rule calling functions per element, followed by a second rule
	pr := Blk(Pr(S("elem"), V("$")), ES(Asg(V("L"), g.callExpr(g.rng.IntN(nf), []string{"G0", "G1"}))), state(), g.probes())
	p.Items = append(p.Items, &Rule{Kind: "pattern", Body: pr}, &Rule{Kind: "END", Body: Blk(state(), g.probes())})
	return p, []byte("[1, 2, 3]")
}

func min(a, b int) int {
	if a < b {
		return a
	}
	return b
}

// ---- long histories: more completed calls / matches / nexts than the depth limit

type c08Long struct {
	name string
	prog string
	n    int // elements in the quick tier (0: 10000)
}

var c08LongProgs = []c08Long{
	{"match-expression-body", "{ s = s + match ($) { 0 => 1, x => x % 7 } } END { print s }", 0},
	{"match-block-body", "{ match ($) { 0 => { z = z + 1 }, x => { s = s + x % 5 } } } END { print s, z }", 0},
	{"next-inside-function", "function f(v) { if (v % 2 == 0) { next } return v } { s = s + f($) } END { print s }", 0},
	{"next-inside-match-inside-function", "function f(v) { match (v % 3) { 0 => { next }, r => { return r } } } { s = s + f($) } END { print s }", 0},
	{"call-per-element", "function f(v) { return v % 11 } { s = s + f($) } END { print s }", 0},
	{"match-in-call-in-match", "function f(v) { return match (v % 4) { 0 => 10, k => k } } { s = s + match (f($)) { 10 => 1, y => y } } END { print s }", 0},
	{"return-from-loop-in-function", "function f(v) { for (i = 0; i < 5; i++) { if (i == v % 5) { return i } } } { s = s + f($) } END { print s }", 0},
	{"match-array-pattern-expression-body", "{ s = s + match ([$ % 2, $]) { [0, a] => a % 3, [1, b] => b % 5 } } END { print s }", 0},
	// seventh round: more executed nexts than the evaluation-nesting limit (50000) has levels, so that bookkeeping which
	// loses a single level per next is noticed; and deep (legal) recursion after many nexts
	{"next-inside-function-long", "function f(v) { if (v % 2 == 0) { next } return v } { s = s + f($) } END { print s }", 130000},
	{"next-in-rule-then-recursion", "function sum(n) { if (n == 0) { return 0 } return n + sum(n - 1) } { if ($ % 4 != 0) { next } s = s + $ } END { print s, sum(900) }", 80000},
}

func c08LongRun(c *Case, lp c08Long, n int) {
	var sb bytes.Buffer
	sb.WriteByte('[')
	for i := 0; i < n; i++ {
		if i > 0 {
			sb.WriteByte(',')
		}
		sb.WriteString(strconv.Itoa(i))
	}
	sb.WriteByte(']')
	// the reference result is computed by the model on the parsed form of the same program
	p := c08ParseLong(lp.name)
	c.NonTrivial(fmt.Sprintf("long:%s:%d", lp.name, n))
	c.Count("long_history_runs")
	c.CountN("long_history_elements", n)
	r := m2(c, &M2Case{Prog: p, Text: lp.prog, Files: []InFile{{Name: "in.json", Data: sb.Bytes()}}, Budget: 60*n + 100000, CheckM4: true,
		Desc: fmt.Sprintf("long history %s over %d elements", lp.name, n), Replay: map[string]any{"elements": n}})
	if r.Lib != nil {
		c.Max("long_history_pushes", r.Lib.Pushes)
		c.Max("long_history_max_depth", r.Lib.MaxDepth)
	}
}

// c08ParseLong returns the harness AST of the fixed long-history programs.
func c08ParseLong(name string) *Program {
	s, x, z, v := V("s"), V("x"), V("z"), V("v")
	d := V("$")
	add := func(e Expr) Stmt { return ES(Asg(s, Bin("+", s, e))) }
	endS := &Rule{Kind: "END", Body: Blk(Pr(s))}
	switch name {
	case "match-expression-body":
		return &Program{Items: []any{&Rule{Kind: "pattern", Body: Blk(add(&MatchExpr{Subj: d, Cases: []*MatchCase{{Pats: []Expr{N("0")}, Body: N("1")}, {Pats: []Expr{x}, Body: Bin("%", x, N("7"))}}}))}, endS}}
	case "match-block-body":
		return &Program{Items: []any{&Rule{Kind: "pattern", Body: Blk(ES(&MatchExpr{Subj: d, Cases: []*MatchCase{
			{Pats: []Expr{N("0")}, Block: Blk(ES(Asg(z, Bin("+", z, N("1")))))},
			{Pats: []Expr{x}, Block: Blk(ES(Asg(s, Bin("+", s, Bin("%", x, N("5"))))))}}}))},
			&Rule{Kind: "END", Body: Blk(Pr(s, z))}}}
	case "next-in-rule-then-recursion":
		n := V("n")
		sum := &Func{Name: "sum", Params: []string{"n"}, Body: Blk(&If{C: Bin("==", n, N("0")), Then: Blk(&Return{X: N("0")})}, &Return{X: Bin("+", n, CallE(V("sum"), Bin("-", n, N("1"))))})}
		return &Program{Items: []any{sum, &Rule{Kind: "pattern", Body: Blk(&If{C: Bin("!=", Bin("%", d, N("4")), N("0")), Then: Blk(&Next{})}, add(d))},
			&Rule{Kind: "END", Body: Blk(Pr(s, CallE(V("sum"), N("900"))))}}}
	case "next-inside-function", "next-inside-function-long":
		f := &Func{Name: "f", Params: []string{"v"}, Body: Blk(&If{C: Bin("==", Bin("%", v, N("2")), N("0")), Then: Blk(&Next{})}, &Return{X: v})}
		return &Program{Items: []any{f, &Rule{Kind: "pattern", Body: Blk(add(CallE(V("f"), d)))}, endS}}
	case "next-inside-match-inside-function":
		f := &Func{Name: "f", Params: []string{"v"}, Body: Blk(ES(&MatchExpr{Subj: Bin("%", v, N("3")), Cases: []*MatchCase{
			{Pats: []Expr{N("0")}, Block: Blk(&Next{})}, {Pats: []Expr{V("r")}, Block: Blk(&Return{X: V("r")})}}}))}
		return &Program{Items: []any{f, &Rule{Kind: "pattern", Body: Blk(add(CallE(V("f"), d)))}, endS}}
	case "call-per-element":
		f := &Func{Name: "f", Params: []string{"v"}, Body: Blk(&Return{X: Bin("%", v, N("11"))})}
		return &Program{Items: []any{f, &Rule{Kind: "pattern", Body: Blk(add(CallE(V("f"), d)))}, endS}}
	case "match-in-call-in-match":
		f := &Func{Name: "f", Params: []string{"v"}, Body: Blk(&Return{X: &MatchExpr{Subj: Bin("%", v, N("4")), Cases: []*MatchCase{{Pats: []Expr{N("0")}, Body: N("10")}, {Pats: []Expr{V("k")}, Body: V("k")}}}})}
		return &Program{Items: []any{f, &Rule{Kind: "pattern", Body: Blk(add(&MatchExpr{Subj: CallE(V("f"), d), Cases: []*MatchCase{{Pats: []Expr{N("10")}, Body: N("1")}, {Pats: []Expr{V("y")}, Body: V("y")}}}))}, endS}}
	case "return-from-loop-in-function":
		i := V("i")
		f := &Func{Name: "f", Params: []string{"v"}, Body: Blk(&For{Pre: Asg(i, N("0")), C: Bin("<", i, N("5")), Post: &IncDec{Op: "++", X: i},
			Body: Blk(&If{C: Bin("==", i, Bin("%", v, N("5"))), Then: Blk(&Return{X: i})})})}
		return &Program{Items: []any{f, &Rule{Kind: "pattern", Body: Blk(add(CallE(V("f"), d)))}, endS}}
	case "match-array-pattern-expression-body":
		return &Program{Items: []any{&Rule{Kind: "pattern", Body: Blk(add(&MatchExpr{Subj: Arr(Bin("%", d, N("2")), d), Cases: []*MatchCase{
			{Pats: []Expr{Arr(N("0"), V("a"))}, Body: Bin("%", V("a"), N("3"))}, {Pats: []Expr{Arr(N("1"), V("b"))}, Body: Bin("%", V("b"), N("5"))}}}))}, endS}}
	}
	panic("unknown long program " + name)
}

// ---- argument names that coincide with the callee's parameter names, and match bindings read after a
// recursive call returned (laws on the implementation alone; results computed by hand)

var c08Bindings = []struct{ prog, want string }{
	{"function sw(a, b, n) { if (n == 0) { return [a, b] } return sw(b, a, 0) } BEGIN { print sw(1, 2, 1), sw(1, 2, 0) }", "[2, 1] [1, 2]\n"},
	{"function rot(a, b, c, n) { if (n <= 0) { return [a, b, c] } m = n - 1; return rot(b, c, a, m) } BEGIN { print rot(1, 2, 3, 1), rot(1, 2, 3, 2), rot(1, 2, 3, 3) }", "[2, 3, 1] [3, 1, 2] [1, 2, 3]\n"},
	{"function pair(a, b) { return [a, b] } function caller(a, b) { return pair(b, a) } BEGIN { print caller(1, 2), caller('x', [3]) }", "[2, 1] [[3], \"x\"]\n"},
	{"function pair(a, b) { return [a, b] } BEGIN { a = 1; b = 2; print pair(b, a), pair(a, b), pair(b, b) }", "[2, 1] [1, 2] [2, 2]\n"},
	{"function pair(a, b) { return [a, b] } BEGIN { print match ([1, 2]) { [a, b] => pair(b, a) } }", "[2, 1]\n"},
	{"function pair(a, b) { return [a, b] } { print pair($.b, $.a) } ", "[2, 1]\n"},
	{"function gcd(a, b) { if (b == 0) { return a } if (a < b) { return gcd(b, a) } r = a % b; return gcd(b, r) } BEGIN { print gcd(4, 6), gcd(6, 4), gcd(35, 14), gcd(14, 35) }", "2 2 7 7\n"},
	{"function f(a, b, c) { return a + '-' + b + '-' + c } function g(c, a, b) { return f(a, b, c) } BEGIN { print g(1, 2, 3), f(1, 2, 3) }", "2-3-1 1-2-3\n"},
	{"function f(a, b) { return a * 10 + b } function g(b, a) { return f(a, b) + f(b, a) } BEGIN { print g(1, 2) }", "33\n"},
	{"function f(a, b) { return a * 10 + b } function g(b, a) { for (i = 0; i < 3; i++) { t = t + f(b, a) } return t } BEGIN { print g(1, 2) }", "36\n"},
	{"function third(a, b, c) { return c } function g(c, b, a) { return third(c, b, a) + third(a, b, c) * 10 + third(b, c, a) * 100 } BEGIN { print g(1, 2, 3) }", "313\n"},
	{"function sumr(l) { return match (l) { [h, t] => sumr(t) + h, other => 0 } } BEGIN { print sumr([1, [2, [3, null]]]), sumr([5, null]), sumr(null) }", "6 5 0\n"},
	{"function suml(l) { return match (l) { [h, t] => h + suml(t), other => 0 } } BEGIN { print suml([1, [2, [3, null]]]) }", "6\n"},
	{"function walk(t) { match (t) { [l, v, r] => { walk(l); print v; walk(r) } } } BEGIN { walk([[null, 1, null], 2, [[null, 3, null], 4, null]]) }", "1\n2\n3\n4\n"},
	{"function show(l) { return match (l) { [h, t] => show(t) + '<' + h, other => '.' } } BEGIN { print show(['a', ['b', ['c', null]]]) }", ".<c<b<a\n"},
	{"function ev(l) { return match (l) { [h, t] => od(t) + h, other => 0 } } function od(l) { return match (l) { [h, t] => ev(t) - h, other => 0 } } BEGIN { print ev([1, [2, [3, [4, null]]]]) }", "-2\n"},
	{"function cnt(l) { return match (l) { [h, t] => { n = cnt(t); return n + h }, other => 0 } } BEGIN { print cnt([10, [20, [30, null]]]) }", "60\n"},
	{"function f(n) { return match (n) { 0 => 'z', k => f(k - 1) + k } } BEGIN { print f(4) }", "z1234\n"},
	{"function f(n, acc) { if (n == 0) { return acc } return f(n - 1, acc + n) } BEGIN { print f(4, 0), f(100, 0) }", "10 5050\n"},
	{"function each(l, k) { return match (l) { [h, t] => each(t, k) + h * k, other => 0 } } BEGIN { print each([1, [2, null]], 3), each([1, [2, null]], 5) }", "9 15\n"},
	{"function two(l) { return match (l) { [a, b] => match (a) { [c, d] => two(b) + c + d, other => two(b) + a }, other => 0 } } BEGIN { print two([[1, 2], [3, [[4, 5], null]]]) }", "15\n"},
	{"function last(l) { return match (l) { [h, t] => match (last(t)) { null => h, found => found }, other => null } } BEGIN { print last([1, [2, [3, null]]]), last([7, null]) }", "3 7\n"},
	{"function rev(l, acc) { return match (l) { [h, t] => rev(t, [h, acc]), other => acc } } BEGIN { print rev([1, [2, [3, null]]], null) }", "[3, [2, [1, null]]]\n"},
	{"function zip(p, q) { return match ([p, q]) { [[a, x], [b, y]] => [[a, b], zip(x, y)], other => null } } BEGIN { print zip([1, [2, null]], ['a', ['b', null]]) }", "[[1, \"a\"], [[2, \"b\"], null]]\n"},
	{"{ r = match ($.pair) { [a, b] => [b, a] } print r; print match (r) { [a, b] => a - b } }", "[2, 1]\n1\n"},
	// more than 65536 frames between two calls of one function (frame numbering that wraps must not confuse them)
	{"function pick(x) { return x } function nop(y) { return 0 } BEGIN { for (i = 0; i < 140000; i++) { if (i % 65536 == 0) { print pick(i) } else { nop(i) } } }", "0\n65536\n131072\n"},
	{"function pick(x) { return match (x) { v => v } } function nop(y) { return 0 } BEGIN { for (i = 0; i < 70000; i++) { if (i % 32768 == 0) { print pick(i) } else { nop(i) } } }", "0\n32768\n65536\n"},
	{"function pick(x) { t = x; return t } function nop(y) { t = 'stale'; return 0 } BEGIN { for (i = 0; i < 66000; i++) { if (i % 65535 == 0) { print pick(i) } else { nop(i) } } }", "0\n65535\n"},
	// a name first assigned inside a case body lives in that case's frame only: nothing is left for the next match
	{"function bump(n) { return match (n) { v => { t = t + v; return t } } } BEGIN { print bump(1), bump(2), bump(3) }", "1 2 3\n"},
	{"BEGIN { for (i in [1, 2, 3]) { match (i) { v => { cnt = cnt + 1; print cnt } } } }", "1\n1\n1\n"},
	{"BEGIN { total = 100; match (1) { v => { total = total + v } } print total; match (2) { w => { fresh = w } } fresh = 'global'; match (3) { u => { fresh = fresh + u } } print fresh }", "101\nglobal3\n"},
	{"BEGIN { match (1) { v => { for (e in [7, 8]) { last = e } print last } } match (2) { v => { print last is unknown, e is unknown } } }", "8\ntrue true\n"},
	// a parameter (or a name bound by a pattern) hides a global of the same name everywhere in the function, also inside match bodies
	{"function bump(n) { return match (1) { one => n + 10 } } BEGIN { n = 5; print bump(1), n }", "11 5\n"},
	{"function scale(k, v) { return match (v) { [a, b] => k * a + k * b } } BEGIN { k = 100; print scale(2, [3, 4]), k }", "14 100\n"},
	{"function setk(k) { match (1) { one => { k = k + 1 } } return k } BEGIN { k = 100; print setk(1), k }", "2 100\n"},
	{"function outer(v) { return match (v) { [k, rest] => match (rest) { [x] => k + x } } } BEGIN { k = 100; x = 50; print outer([1, [2]]), k, x }", "3 100 50\n"},
	// a pattern that binds a name and then fails leaves nothing behind for the alternatives and cases after it
	{"function label(kind, v) { return match (v) { [kind, 0] => 'flat', [a, b] => kind + ' ' + a + 'x' + b } } BEGIN { print label('shape', [3, 4]), label('shape', [3, 0]) }", "shape 3x4 flat\n"},
	{"BEGIN { total = 100; print match ([7, 8]) { [total, 9] => 'nine', [a, b] => total + a + b }, total }", "115 100\n"},
	{"BEGIN { w = 'outer'; print match ([1, 2, 3]) { [w, 2, 4], [w, 5, 3] => 'no', [p, q, r] => w + p } }", "outer1\n"},
	// parameters the caller left out are separate nulls
	{"function f(a, b, c) { b = 5; return [a, b, c] } BEGIN { print f(1), f() }", "[1, 5, null] [null, 5, null]\n"},
	{"function g(a, b, c, d) { c++; d = d + 'x'; return [b, c, d] } BEGIN { print g(), g(1) }", "[null, 1, \"x\"] [null, 1, \"x\"]\n"},
	{"function span(v, lo, hi) { if (lo is null) { lo = 1 } if (hi is null) { hi = 'top' } return [lo, hi] } BEGIN { print span(5), span(5, 2), span(5, 2, 3) }", "[1, \"top\"] [2, \"top\"] [2, 3]\n"},
}

func c08BindingRun(c *Case, k int) {
	b := c08Bindings[k]
	lib := RunLib(b.prog, []InFile{{Name: "in.json", Data: []byte(`{"a": 1, "b": 2, "pair": [1, 2]}`)}}, nil, RunOpts{Budget: 20000000})
	c.NonTrivial("binding:" + b.prog)
	c.Count("binding_programs")
	want := b.want
	if !strings.Contains(b.prog, "BEGIN") || strings.HasPrefix(b.prog, "{") {
		// pattern-rule programs run once for the one input value
	}
	if lib.Class == "ok" && string(lib.Stdout) == want {
		c.Held()
		return
	}
	c.Violation(fmt.Sprintf("positional binding / match bindings across recursion: want %q, got %s (%s) %q | program: %s", want, lib.Class, lib.Msg, clip(string(lib.Stdout), 80), b.prog), nil, map[string]any{"program": b.prog})
}

// ---- refusal depth of runaway recursion must not depend on completed history

var c08Runaway = []struct{ name, funcs, call string }{
	{"direct", "function r(n) { print n; return r(n + 1) }", "r(1)"},
	{"mutual", "function r(n) { print n; return q(n + 1) } function q(n) { print n; return r(n + 1) }", "r(1)"},
	{"through-argument", "function id(v) { return v } function r(n) { print n; return id(r(n + 1)) }", "r(1)"},
	{"through-match-expression-body", "function r(n) { print n; return match (n) { v => r(v + 1) } }", "r(1)"},
	{"through-match-block-body", "function r(n) { print n; match (n) { v => { return r(v + 1) } } }", "r(1)"},
}

func c08Refusal(c *Case, shape int) {
	sh := c08Runaway[shape]
	var depths []int
	hs := []int{0, 1, 10, 5000, -900}
	for _, h := range hs {
		prog := fmt.Sprintf("%s function w(v) { return match (v) { 0 => 0, t => t } }\nBEGIN { for (i = 0; i < %d; i++) { w(i) } print \"go\"; %s }", sh.funcs, h, sh.call)
		if h < 0 {
			// history: one completed recursion 900 deep - inside the depth every reading of the limit must allow (only calls that are still open may count)
			prog = fmt.Sprintf("%s function deep(n) { if (n == 0) { return 0 } return deep(n - 1) + 1 }\nBEGIN { print deep(%d); print \"go\"; %s }", sh.funcs, -h, sh.call)
		}
		lib := RunLib(prog, nil, nil, RunOpts{Budget: 400000})
		if lib.Class == "budget" {
			c.Inconclusive("budget")
			return
		}
		if lib.Class != "runtime" {
			c.Violation(fmt.Sprintf("runaway recursion (%s) after %d completed calls ended as %s (%s), expected a runtime error", sh.name, h, lib.Class, lib.Msg), nil, map[string]any{"program": prog})
			return
		}
		out := string(lib.Stdout)
		i := strings.Index(out, "go\n")
		if i < 0 {
			c.Violation(fmt.Sprintf("%d completed calls before the runaway recursion (%s) already ended the run: %s (%s)", h, sh.name, lib.Class, lib.Msg), nil, map[string]any{"program": prog})
			return
		}
		lines := strings.Split(strings.TrimSpace(out[i+3:]), "\n")
		last, _ := strconv.Atoi(lines[len(lines)-1])
		depths = append(depths, last)
	}
	c.NonTrivial("refusal:" + sh.name)
	c.Count("refusal_probes")
	c.Max("refusal_depth_"+sh.name, depths[0])
	for i, d := range depths {
		if d != depths[0] {
			c.Violation(fmt.Sprintf("refusal depth of runaway recursion (%s) depends on history: %d after 0 completed calls, %d after %d", sh.name, depths[0], d, hs[i]), nil, map[string]any{"depths": depths})
			return
		}
	}
	if depths[0] <= 1000/2 || depths[0] >= 10000 {
		c.Violation(fmt.Sprintf("runaway recursion (%s) refused at depth %d, outside the band (a few thousand frames; 1000 deep must work)", sh.name, depths[0]), nil, nil)
		return
	}
	c.Held()
}

// arguments are passed by value also when they read a location that does not exist: the callee
// assigning its parameter must leave the caller's containers alone
func c08MissingArgs(c *Case) {
	touch := &Func{Name: "touch", Params: []string{"p"}, Body: Blk(&If{C: Bin("==", V("p"), &NullLit{}), Then: Blk(asg(V("p"), N("7")))}, asg(Mem(V("q"), "inner"), N("1")), &Return{X: V("p")})}
	setp := &Func{Name: "setp", Params: []string{"p"}, Body: Blk(asg(V("p"), Arr(N("1"))), ES(Meth(V("p"), "length")), &Return{X: V("p")})}
	two := &Func{Name: "two", Params: []string{"x", "y"}, Body: Blk(asg(V("x"), Bin("+", V("y"), N("1"))), asg(V("y"), S("changed")), &Return{X: V("x")})}
	args := []Expr{Mem(V("$"), "nope"), Idx(Mem(V("$"), "list"), N("5")), Mem(Mem(V("$"), "a"), "deep"), Mem(V("o"), "k"), Idx(V("arr"), N("3")), Mem(Mem(V("fresh"), "x"), "y"), Mem(V("$"), "n"), Idx(V("arr"), N("0"))}
	for i, a := range args {
		for _, fn := range []string{"touch", "setp"} {
			body := Blk(asg(V("o"), obj1("z", N("1"))), asg(V("arr"), Arr(N("1"), N("2"))),
				Pr(S("r"), jsonOf(CallE(V(fn), a))), Pr(S("after"), jsonOf(V("$")), jsonOf(V("o")), jsonOf(V("arr")), &IsExpr{X: V("p"), T: "unknown"}, &IsExpr{X: V("q"), T: "unknown"}),
				Pr(S("two"), jsonOf(CallE(V("two"), a, Mem(V("$"), "n"))), jsonOf(V("$"))))
			p := &Program{Items: []any{touch, setp, two, &Rule{Kind: "pattern", Body: body}}}
			c.NonTrivial(fmt.Sprintf("missing-arg:%d:%s", i, fn))
			c.Count("missing_location_arguments")
			m2(c, &M2Case{Prog: p, Files: []InFile{{Name: "in.json", Data: []byte(`{"a": {"b": 1}, "list": [1, 2], "n": 5}`)}}, WantRoot: true, CheckM4: true, Desc: "argument reads a missing location, callee assigns the parameter"})
		}
	}
}

func c08Cases(tier string) int {
	base := len(c08LongProgs) + len(c08Runaway) + len(c08Bindings)
	if tier == "thorough" {
		return base + len(c08LongProgs)*4 + 1500000
	}
	return base + 30000
}

func c08Run(c *Case) {
	i := c.Idx
	if i == 0 {
		round8Hand(c, "C08")
	}
	nl := len(c08LongProgs)
	switch {
	case i < nl:
		n := c08LongProgs[i].n
		if n == 0 {
			n = 10000
		}
		c08LongRun(c, c08LongProgs[i], n) // more completed calls / matches / nexts (>= 5000 of each) than the depth limit
	case i < nl+len(c08Runaway):
		c08Refusal(c, i-nl)
		if i == nl {
			c08MissingArgs(c)
		}
	case i < nl+len(c08Runaway)+len(c08Bindings):
		c08BindingRun(c, i-nl-len(c08Runaway))
	case c.Tier == "thorough" && i < nl+len(c08Runaway)+len(c08Bindings)+nl*4:
		j := i - nl - len(c08Runaway) - len(c08Bindings)
		c08LongRun(c, c08LongProgs[j%nl], []int{4097, 9000, 20000, 50000}[j/nl])
	default:
		g := &funcGen{rng: c.Rng, stats: map[string]int{}}
		p, doc := g.Program()
		rd := RenderProgram(p, ParenMinimal, nil)
		text, _ := rd.Layout(nil)
		if rd.LeadBad {
			c.Inconclusive("generator-discipline")
			return
		}
		r := m2(c, &M2Case{Prog: p, Text: text, Files: []InFile{{Name: "in.json", Data: doc}}, CheckM4: true, Desc: "functions"})
		for k, v := range g.stats {
			c.CountN("generated:"+k, v)
		}
		if r.Mod != nil && r.Mod.Calls >= 3 && (g.stats["call-too-few"]+g.stats["call-too-many"]+g.stats["recursion"] > 0) {
			c.NonTrivial(text)
		}
		if r.Lib != nil {
			c.CountN("impl_frame_pushes", r.Lib.Pushes)
			c.CountN("impl_frame_pops", r.Lib.Pops)
			c.CountN("impl_rule_starts_checked_by_M4", r.Lib.RuleStarts["pattern"]+r.Lib.RuleStarts["BEGIN"]+r.Lib.RuleStarts["END"])
		}
		if i == nl+len(c08Runaway)+len(c08Bindings)+nl*4 || (c.Tier == "quick" && i == nl+len(c08Runaway)+len(c08Bindings)) {
			c.Sample(map[string]any{"program": text})
		}
	}
}

func init() {
	register(&Prop{
		ID: "C08", Level: "exploration",
		Rule:          "sampled: programs with 1-4 generated functions (arity 0-4, called with too few / exact / too many arguments in every expression position, parameter reassignment, callee locals, global updates, container parameters with element stores, returns from loops and match blocks, nested calls) plus a recursion library (fact, fib, mutual even/odd, ackermann, sumto up to depth 900); after every call the caller prints its own state and probes every callee name with `is unknown`; trace vs reference model, plus the frame automaton M4 (depth at each rule start equals the baseline). Enumerated: 8 long-history programs over 10000 elements (thorough: up to 50000) whose result is compared with the model, 2 more with 65000 / 60000 executed nexts (130000 / 80000 elements, the second followed by a recursion 900 deep), and 5 runaway-recursion shapes whose refusal depth must be identical after 0/1/10/5000 completed calls and after one completed recursion 900 deep. 42 programs (results computed by hand) in which argument names coincide with the callee's parameter names in another order (swap, rotate, through match bindings, globals, document fields) or match bindings are read after a recursive call through the same match returned (sums, tree walks, mutual recursion, nested matches), two calls of one function separated by more than 65536 other frames, names created inside a case body (gone when the case ends), several omitted parameters (separate nulls). Non-trivial = >= 3 calls and an arity mismatch or recursion; long runs and probes count as non-trivial.",
		NumCases:      c08Cases,
		Run:           c08Run,
		MinConclusive: func(tier string) int { return 3000 },
		Exhaustive:    func(tier string) string { return "" },
		Assumptions:   []string{"call semantics of DESIGN.md section 3.8; dynamic visibility of caller locals is [P] and avoided by disjoint name pools", "length-changing operations on shared arrays are excluded here (known finding K-ALIAS, property C09)"},
	})
}
