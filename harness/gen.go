package main

// Generator of structured programs (DESIGN §4 C07) with an input document.
// Every statement position gets a `print "t<n>", vars...` so the stdout is the
// executed-statement trace. Programs are terminating by construction (loops are
// bounded by dedicated counters the body cannot touch) and stay inside the
// stated ([S]) part of the semantics.

import (
	"encoding/json"
	"fmt"
	"math/rand/v2"
	"strconv"
)

type sgOpts struct {
	MaxDepth  int
	Funcs     bool
	Signals   bool // break/continue/return/next/exit under guards
	Exit      bool
	MultiRule bool
	NonASCII  bool
}

type sgFunc struct {
	f       *Func
	hasNext bool
}

type structGen struct {
	rng     *rand.Rand
	opts    sgOpts
	tag     int
	kctr    int
	numVars []string // global numeric variables
	funcs   []*sgFunc
	doc     []any // root array of element objects
	stats   map[string]int
}

type sgCtx struct {
	depth     int
	inLoop    bool
	inFunc    bool
	inPattern bool // `next` is meaningful here
	canExit   bool
	nums      []string // readable numeric variables (globals, params, loop vars)
	strs      []string // readable string variables
	fn        *sgFunc
}

func (c sgCtx) deeper() sgCtx { c.depth++; return c }

func newStructGen(rng *rand.Rand, opts sgOpts) *structGen {
	return &structGen{rng: rng, opts: opts, numVars: []string{"a", "b", "c"}, stats: map[string]int{}}
}

func (g *structGen) pick(ss []string) string { return ss[g.rng.IntN(len(ss))] }

func (g *structGen) numConst() Expr {
	return N(strconv.Itoa(g.rng.IntN(6)))
}

func (g *structGen) numExpr(c sgCtx, depth int) Expr {
	k := g.rng.IntN(10)
	switch {
	case k < 3 || depth <= 0:
		if len(c.nums) > 0 && g.rng.IntN(3) > 0 {
			return V(g.pick(c.nums))
		}
		return g.numConst()
	case k < 5:
		return Bin([]string{"+", "-", "*"}[g.rng.IntN(3)], g.numExpr(c, depth-1), g.numExpr(c, depth-1))
	case k < 6:
		return Bin("%", g.numExpr(c, depth-1), N(strconv.Itoa(2+g.rng.IntN(3))))
	case k < 7 && c.inPattern && !c.inFunc:
		return Mem(V("$"), "n")
	case k < 8 && len(c.strs) > 0:
		return Meth(V(g.pick(c.strs)), "length")
	case k < 9 && c.inPattern && !c.inFunc:
		return V("$index")
	}
	return g.numConst()
}

func (g *structGen) cond(c sgCtx, depth int) Expr {
	k := g.rng.IntN(10)
	switch {
	case k < 5 || depth <= 0:
		return Bin([]string{"<", "<=", ">", ">=", "==", "!="}[g.rng.IntN(6)], g.numExpr(c, 1), g.numExpr(c, 1))
	case k < 6 && len(c.strs) > 0:
		return Bin([]string{"==", "!=", "<"}[g.rng.IntN(3)], V(g.pick(c.strs)), S([]string{"a", "b", "l", "é", "x"}[g.rng.IntN(5)]))
	case k < 7:
		return &Unary{Op: "!", X: &Paren{X: g.cond(c, depth-1)}}
	case k < 8:
		return Bin("&&", g.cond(c, depth-1), g.cond(c, depth-1))
	case k < 9:
		return Bin("||", g.cond(c, depth-1), g.cond(c, depth-1))
	}
	return Bin("==", Bin("%", g.numExpr(c, 1), N("2")), N(strconv.Itoa(g.rng.IntN(2))))
}

func (g *structGen) trace(c sgCtx) Stmt {
	g.tag++
	args := []Expr{S("t" + strconv.Itoa(g.tag))}
	n := g.rng.IntN(3)
	for i := 0; i < n && len(c.nums) > 0; i++ {
		args = append(args, V(g.pick(c.nums)))
	}
	if len(c.strs) > 0 && g.rng.IntN(2) == 0 {
		args = append(args, V(g.pick(c.strs)))
	}
	return Pr(args...)
}

func (g *structGen) newCounter() string {
	g.kctr++
	return "k" + strconv.Itoa(g.kctr)
}

// simple: a statement that may stand without braces as a branch or loop body
func (g *structGen) simple(c sgCtx) Stmt {
	if c.inPattern && !c.inFunc && g.rng.IntN(12) == 0 {
		g.stats["bare-print"]++
		return Pr() // bare print: prints $
	}
	switch g.rng.IntN(3) {
	case 0:
		return g.trace(c)
	case 1:
		return ES(Asg(V(g.pick(g.numVars)), g.numExpr(c, 2)))
	}
	if g.rng.IntN(3) == 0 {
		// value of prefix / postfix forms, written so that no location is both read and written
		x, y := g.numVars[0], g.numVars[1]
		if g.rng.IntN(2) == 0 {
			x, y = g.numVars[2], g.numVars[0]
		}
		return ES(Asg(V(x), &IncDec{Op: []string{"++", "--"}[g.rng.IntN(2)], Prefix: g.rng.IntN(2) == 0, X: V(y)}))
	}
	return ES(&IncDec{Op: []string{"++", "--"}[g.rng.IntN(2)], X: V(g.pick(g.numVars))})
}

func (g *structGen) signal(c sgCtx) Stmt {
	var opts []Stmt
	if c.inLoop {
		opts = append(opts, &Break{}, &Continue{}, &Break{}, &Continue{})
	}
	if c.inFunc {
		opts = append(opts, &Return{X: g.numExpr(c, 1)}, &Return{})
	}
	if c.inPattern {
		opts = append(opts, &Next{})
	}
	if c.canExit && g.opts.Exit && g.rng.IntN(6) == 0 {
		opts = append(opts, &Exit{})
	}
	if len(opts) == 0 {
		return nil
	}
	s := opts[g.rng.IntN(len(opts))]
	if _, ok := s.(*Next); ok && c.fn != nil {
		c.fn.hasNext = true
	}
	g.stats["signal-planted"]++
	return s
}

func (g *structGen) body(c sgCtx, n int) *Block {
	b := &Block{}
	for i := 0; i < n; i++ {
		b.Stmts = append(b.Stmts, g.stmt(c))
	}
	b.Stmts = append(b.Stmts, g.trace(c))
	return b
}

func (g *structGen) maybeBraceless(c sgCtx) Stmt {
	if g.rng.IntN(4) == 0 {
		s := g.simple(c)
		if p, ok := s.(*Print); ok && len(p.Args) == 0 {
			return Blk(s) // `if (c) print else ...` would read `else` as an argument
		}
		return s
	}
	return g.body(c.deeper(), 1+g.rng.IntN(2))
}

func (g *structGen) stmt(c sgCtx) Stmt {
	if c.depth >= g.opts.MaxDepth {
		return g.simple(c)
	}
	k := g.rng.IntN(20)
	switch {
	case k < 4:
		return g.simple(c)
	case k < 6 && g.opts.Signals:
		if s := g.signal(c); s != nil {
			// always under a data-dependent guard, followed by more statements
			return &If{C: g.cond(c, 1), Then: s}
		}
		return g.trace(c)
	case k < 9:
		st := &If{C: g.cond(c, 2), Then: g.maybeBraceless(c)}
		if g.rng.IntN(2) == 0 {
			st.Else = g.maybeBraceless(c)
			if g.rng.IntN(4) == 0 {
				// else-if chain
				st.Else = &If{C: g.cond(c, 1), Then: g.maybeBraceless(c), Else: g.maybeBraceless(c)}
			}
		} else if g.rng.IntN(5) == 0 {
			// nested brace-less if with an else: the else belongs to the inner if
			st.Then = &If{C: g.cond(c, 1), Then: g.trace(c), Else: g.simple(c)}
			g.stats["dangling-else"]++
		}
		return st
	case k < 11:
		// while bounded by a dedicated counter; the counter is advanced first so that continue is safe
		kc := g.newCounter()
		lc := c.deeper()
		lc.inLoop = true
		lc.nums = append(append([]string{}, c.nums...), kc)
		b := g.body(lc, 1+g.rng.IntN(3))
		b.Stmts = append([]Stmt{ES(&IncDec{Op: "++", X: V(kc)})}, b.Stmts...)
		var cnd Expr = Bin("<", V(kc), N(strconv.Itoa(1+g.rng.IntN(4))))
		if g.rng.IntN(3) == 0 {
			cnd = Bin("&&", cnd, g.cond(c, 1))
		}
		g.stats["while"]++
		return Blk(ES(Asg(V(kc), N("0"))), &While{C: cnd, Body: b})
	case k < 13:
		kc := g.newCounter()
		lc := c.deeper()
		lc.inLoop = true
		lc.nums = append(append([]string{}, c.nums...), kc)
		var post Expr = &IncDec{Op: "++", X: V(kc)}
		if g.rng.IntN(3) == 0 {
			post = &Assign{Op: "+=", L: V(kc), R: N(strconv.Itoa(1 + g.rng.IntN(2)))}
		}
		var body Stmt
		if g.rng.IntN(5) == 0 {
			body = g.trace(lc)
		} else {
			body = g.body(lc, 1+g.rng.IntN(3))
		}
		g.stats["for"]++
		return &For{Pre: Asg(V(kc), N("0")), C: Bin("<", V(kc), N(strconv.Itoa(1+g.rng.IntN(4)))), Post: post, Body: body}
	case k < 17:
		return g.forIn(c)
	case k < 19 && g.opts.Funcs && len(g.funcs) > 0 && !c.inFunc:
		f := g.funcs[g.rng.IntN(len(g.funcs))]
		if f.hasNext && !c.inPattern {
			return g.trace(c)
		}
		var args []Expr
		for i := 0; i < len(f.f.Params); i++ {
			args = append(args, g.numExpr(c, 1))
		}
		g.stats["call"]++
		return ES(Asg(V(g.pick(g.numVars)), CallE(V(f.f.Name), args...)))
	}
	return g.trace(c)
}

var sgStrings = []string{"", "a", "ab", "lol", "b a", "x,y"}
var sgStringsU = []string{"é", "aé", "日本", "a日b", "éé", "😀", "a😀b", "😀é日", "𝄞x", "x😀"}

func (g *structGen) forIn(c sgCtx) Stmt {
	g.kctr++
	v1 := "e" + strconv.Itoa(g.kctr)
	v2 := ""
	if g.rng.IntN(2) == 0 {
		v2 = "i" + strconv.Itoa(g.kctr)
	}
	lc := c.deeper()
	lc.inLoop = true
	lc.nums = append([]string{}, c.nums...)
	lc.strs = append([]string{}, c.strs...)
	var it Expr
	switch kind := g.rng.IntN(10); {
	case kind < 3: // array of numbers
		n := g.rng.IntN(4)
		var items []Expr
		for i := 0; i < n; i++ {
			items = append(items, g.numConst())
		}
		it = Arr(items...)
		lc.nums = append(lc.nums, v1)
		if v2 != "" {
			lc.nums = append(lc.nums, v2)
		}
		g.stats["forin-array"]++
	case kind < 4 && c.inPattern && !c.inFunc: // array from the document
		it = Mem(V("$"), "l")
		lc.nums = append(lc.nums, v1)
		if v2 != "" {
			lc.nums = append(lc.nums, v2)
		}
		g.stats["forin-docarray"]++
	case kind < 5: // array of strings
		n := g.rng.IntN(4)
		var items []Expr
		for i := 0; i < n; i++ {
			items = append(items, S(g.pick(sgStrings)))
		}
		it = Arr(items...)
		lc.strs = append(lc.strs, v1)
		if v2 != "" {
			lc.nums = append(lc.nums, v2)
		}
		g.stats["forin-array"]++
	case kind < 8: // string: characters and byte offsets
		pool := sgStrings
		if g.opts.NonASCII && g.rng.IntN(2) == 0 {
			pool = sgStringsU
		}
		if c.inPattern && !c.inFunc && g.rng.IntN(3) == 0 {
			it = Mem(V("$"), "s")
		} else {
			it = S(g.pick(pool))
		}
		lc.strs = append(lc.strs, v1)
		if v2 != "" {
			lc.nums = append(lc.nums, v2)
		}
		g.stats["forin-string"]++
	default: // object with 0 or 1 key
		if g.rng.IntN(3) == 0 {
			it = &ObjectLit{}
		} else {
			it = &ObjectLit{Keys: []string{g.pick([]string{"k", "key", "z9"})}, Quoted: []bool{g.rng.IntN(2) == 0}, Vals: []Expr{g.numConst()}}
		}
		lc.strs = append(lc.strs, v1)
		if v2 != "" {
			lc.nums = append(lc.nums, v2)
		}
		g.stats["forin-object"]++
	}
	var body Stmt
	if g.rng.IntN(6) == 0 {
		body = g.trace(lc)
	} else {
		body = g.body(lc, 1+g.rng.IntN(2))
	}
	return &ForIn{V: v1, V2: v2, It: it, Body: body}
}

func (g *structGen) genFunc(i int) *sgFunc {
	nparams := g.rng.IntN(3)
	var params []string
	for j := 0; j < nparams; j++ {
		params = append(params, fmt.Sprintf("p%d_%d", i, j))
	}
	sf := &sgFunc{f: &Func{Name: fmt.Sprintf("fn%d", i), Params: params}}
	c := sgCtx{depth: 1, inFunc: true, nums: append(append([]string{}, g.numVars...), params...), fn: sf, canExit: true,
		inPattern: g.opts.Signals && g.rng.IntN(4) == 0}
	b := g.body(c, 1+g.rng.IntN(3))
	if g.rng.IntN(2) == 0 {
		b.Stmts = append(b.Stmts, &Return{X: g.numExpr(c, 2)})
	}
	sf.f.Body = b
	return sf
}

func (g *structGen) genDoc() []byte {
	n := g.rng.IntN(4)
	var arr []any
	for i := 0; i < n; i++ {
		var l []any
		for j := g.rng.IntN(4); j > 0; j-- {
			l = append(l, float64(g.rng.IntN(5)))
		}
		if l == nil {
			l = []any{}
		}
		s := g.pick(sgStrings)
		if g.opts.NonASCII && g.rng.IntN(3) == 0 {
			s = g.pick(sgStringsU)
		}
		arr = append(arr, map[string]any{"n": float64(g.rng.IntN(5)), "s": s, "l": l})
	}
	if arr == nil {
		arr = []any{}
	}
	g.doc = arr
	b, _ := json.Marshal(arr)
	return b
}

// Program generates a whole program and its input document.
func (g *structGen) Program() (*Program, []byte) {
	doc := g.genDoc()
	p := &Program{}
	if g.opts.Funcs {
		nf := 1 + g.rng.IntN(2)
		for i := 0; i < nf; i++ {
			g.funcs = append(g.funcs, g.genFunc(i))
		}
	}
	begin := &Block{}
	for _, v := range g.numVars {
		begin.Stmts = append(begin.Stmts, ES(Asg(V(v), g.numConst())))
	}
	bc := sgCtx{depth: 1, nums: g.numVars, canExit: true}
	for i := g.rng.IntN(3); i > 0; i-- {
		begin.Stmts = append(begin.Stmts, g.stmt(bc))
	}
	begin.Stmts = append(begin.Stmts, g.trace(bc))
	p.Items = append(p.Items, &Rule{Kind: "BEGIN", Body: begin})
	nrules := 1
	if g.opts.MultiRule {
		nrules += g.rng.IntN(2)
	}
	for r := 0; r < nrules; r++ {
		pc := sgCtx{depth: 1, nums: g.numVars, inPattern: true, canExit: true}
		rule := &Rule{Kind: "pattern", Body: g.body(pc, 1+g.rng.IntN(3))}
		if g.rng.IntN(3) == 0 {
			rule.Pattern = g.cond(pc, 1)
		}
		p.Items = append(p.Items, rule)
	}
	if g.opts.MultiRule && g.rng.IntN(3) == 0 {
		// per-value rules: exit from BEGINFILE / ENDFILE ends the whole run too
		fc := sgCtx{depth: 1, nums: g.numVars, canExit: true}
		kind := []string{"BEGINFILE", "ENDFILE"}[g.rng.IntN(2)]
		b := g.body(fc, g.rng.IntN(2))
		if g.opts.Exit && g.rng.IntN(2) == 0 {
			b.Stmts = append(b.Stmts, &If{C: g.cond(fc, 1), Then: &Exit{}}, g.trace(fc))
			g.stats["exit-in-"+kind]++
		}
		p.Items = append(p.Items, &Rule{Kind: kind, Body: b})
	}
	ec := sgCtx{depth: 1, nums: g.numVars, canExit: true}
	end := g.body(ec, g.rng.IntN(2))
	p.Items = append(p.Items, &Rule{Kind: "END", Body: end})
	// functions are placed at a random top-level position
	for _, f := range g.funcs {
		pos := g.rng.IntN(len(p.Items) + 1)
		p.Items = append(p.Items[:pos], append([]any{f.f}, p.Items[pos:]...)...)
	}
	return p, doc
}
