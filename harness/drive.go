package main

// Drivers: the library in-process (with hooks, panic recovery, step budget,
// frame automaton M4) and the product binary as a subprocess.

import (
	"bytes"
	"context"
	"errors"
	"fmt"
	"io"
	"os"
	"os/exec"
	"runtime/debug"
	"strings"
	"sync/atomic"
	"syscall"
	"time"

	lang "github.com/alligator/jqawk/src"
)

type InFile struct {
	Name   string
	Data   []byte
	Reader io.Reader // if non-nil used instead of Data
}

type RunOpts struct {
	Fuzzing    bool
	Budget     int  // interpreter steps; 0 = default 200000
	WantRoot   bool // call GetRootJson after a successful run
	TrackRules bool
	TrackNodes bool
	Stdout     io.Writer // if non-nil, output is also written here (ledger)
}

type Outcome struct {
	Class    string // ok syntax runtime json sentinel(x) other-error panic budget
	Msg      string
	Line     int
	Col      int
	SrcLine  string
	FileName string
	Stdout   []byte
	RootJSON string
	RootErr  string
	HasRoot  bool
	Steps    int
	// frame automaton (M4)
	Pushes, Pops int
	MaxDepth     int
	FrameFault   string // non-empty: M4 saw an inconsistency
	RuleStarts   map[string]int
	RuleSeq      []string
	NodeKinds    map[string]int
	PanicVal     string
	Stack        string
}

type runState struct {
	steps      int
	budget     int
	tripped    bool
	depth      int
	pushes     int
	pops       int
	maxDepth   int
	fault      string
	baseline   map[string]int
	ruleStarts map[string]int
	ruleSeq    []string
	trackRules bool
	nodeKinds  map[string]int
}

var cur *runState
var hooksInstalled bool

func nodeKind(n any) string {
	switch n.(type) {
	case *lang.ExprLiteral:
		return "lit"
	case *lang.ExprIdentifier:
		return "ident"
	case *lang.ExprArray:
		return "array"
	case *lang.ExprObject:
		return "object"
	case *lang.ExprUnary:
		return "unary"
	case *lang.ExprBinary:
		return "binary"
	case *lang.ExprCall:
		return "call"
	case *lang.ExprMatch:
		return "match"
	case *lang.StatementBlock:
		return "block"
	case *lang.StatementPrint:
		return "print"
	case *lang.StatementExpr:
		return "exprstmt"
	case *lang.StatementReturn:
		return "return"
	case *lang.StatementBreak:
		return "break"
	case *lang.StatementContinue:
		return "continue"
	case *lang.StatementNext:
		return "next"
	case *lang.StatementExit:
		return "exit"
	case *lang.StatementIf:
		return "if"
	case *lang.StatementWhile:
		return "while"
	case *lang.StatementFor:
		return "for"
	case *lang.StatementForIn:
		return "forin"
	}
	return "other"
}

func installHooks() {
	if hooksInstalled {
		return
	}
	hooksInstalled = true
	lang.VerifSetHooks(lang.VerifHooks{
		Step: func(node any) error {
			s := cur
			if s == nil {
				return nil
			}
			s.steps++
			if s.nodeKinds != nil {
				s.nodeKinds[nodeKind(node)]++
			}
			if s.steps > s.budget {
				s.tripped = true
				return lang.ErrVerifBudget
			}
			return nil
		},
		Frame: func(push bool, name string, depth int) {
			s := cur
			if s == nil {
				return
			}
			if push {
				s.pushes++
				if depth > s.maxDepth {
					s.maxDepth = depth
				}
			} else {
				s.pops++
			}
		},
		Rule: func(kind string, depth int) {
			s := cur
			if s == nil {
				return
			}
			s.ruleStarts[kind]++
			if s.trackRules && len(s.ruleSeq) < 100000 {
				s.ruleSeq = append(s.ruleSeq, kind)
			}
			if b, ok := s.baseline[kind]; !ok {
				s.baseline[kind] = depth
			} else if b != depth && s.fault == "" {
				s.fault = fmt.Sprintf("frame depth %d at start of %s rule, baseline %d (after %d pushes, %d pops)", depth, kind, b, s.pushes, s.pops)
			}
		},
	})
}

func classifyErr(err error) (string, string) {
	if err == nil {
		return "ok", ""
	}
	switch e := err.(type) {
	case lang.SyntaxError:
		return "syntax", e.Message
	case lang.RuntimeError:
		return "runtime", e.Message
	case lang.JsonError:
		return "json", e.Message
	}
	if errors.Is(err, lang.ErrVerifBudget) {
		return "budget", err.Error()
	}
	m := err.Error()
	switch m {
	case "next", "exit", "break", "continue", "return":
		return "sentinel(" + m + ")", m
	}
	return "other-error", m
}

func mkReaders(files []InFile) []lang.InputFile {
	ifs := make([]lang.InputFile, 0, len(files))
	for _, f := range files {
		r := f.Reader
		if r == nil {
			r = bytes.NewReader(f.Data)
		}
		ifs = append(ifs, lang.InputFile{Name: f.Name, Reader: r})
	}
	return ifs
}

// RunLib executes one program through lang.EvalProgram under the monitors.
func RunLib(prog string, files []InFile, selectors []string, opts RunOpts) (o *Outcome) {
	installHooks()
	heartbeat()
	budget := opts.Budget
	if budget == 0 {
		budget = 200000
	}
	st := &runState{budget: budget, baseline: map[string]int{}, ruleStarts: map[string]int{}, trackRules: opts.TrackRules}
	if opts.TrackNodes {
		st.nodeKinds = map[string]int{}
	}
	var buf bytes.Buffer
	var w io.Writer = &buf
	if opts.Stdout != nil {
		w = io.MultiWriter(&buf, opts.Stdout)
	}
	o = &Outcome{}
	cur = st
	defer func() {
		cur = nil
		if r := recover(); r != nil {
			o.Class = "panic"
			o.PanicVal = fmt.Sprint(r)
			o.Stack = string(debug.Stack())
		}
		o.Stdout = buf.Bytes()
		o.Steps = st.steps
		o.Pushes, o.Pops, o.MaxDepth = st.pushes, st.pops, st.maxDepth
		o.FrameFault = st.fault
		o.RuleStarts = st.ruleStarts
		o.RuleSeq = st.ruleSeq
		o.NodeKinds = st.nodeKinds
		if st.tripped && o.Class != "panic" {
			o.Class = "budget"
		}
	}()
	ev, err := lang.EvalProgram(prog, mkReaders(files), selectors, w, opts.Fuzzing)
	o.Class, o.Msg = classifyErr(err)
	switch e := err.(type) {
	case lang.SyntaxError:
		o.Line, o.Col, o.SrcLine = e.Line, e.Col, e.SrcLine
	case lang.RuntimeError:
		o.Line, o.Col, o.SrcLine = e.Line, e.Col, e.SrcLine
	case lang.JsonError:
		o.FileName = e.FileName
	}
	if opts.WantRoot && err == nil && ev != nil && !st.tripped {
		cur = nil // serialisation is not an interpreter step
		func() {
			defer func() {
				if r := recover(); r != nil {
					o.RootErr = "panic: " + fmt.Sprint(r)
				}
			}()
			if !ev.VerifHasRoot() {
				return
			}
			j, jerr := ev.GetRootJson()
			o.HasRoot = true
			if jerr != nil {
				o.RootErr = jerr.Error()
			} else {
				o.RootJSON = j
			}
		}()
	}
	return o
}

// RunExpr drives lang.EvalExpression directly (the -r path).
func RunExpr(src string, root any, budget int) (o *Outcome, cell *lang.Cell) {
	installHooks()
	heartbeat()
	if budget == 0 {
		budget = 200000
	}
	st := &runState{budget: budget, baseline: map[string]int{}, ruleStarts: map[string]int{}}
	var buf bytes.Buffer
	o = &Outcome{}
	cur = st
	defer func() {
		cur = nil
		if r := recover(); r != nil {
			o.Class = "panic"
			o.PanicVal = fmt.Sprint(r)
			o.Stack = string(debug.Stack())
		}
		o.Stdout = buf.Bytes()
		o.Steps = st.steps
		if st.tripped && o.Class != "panic" {
			o.Class = "budget"
		}
	}()
	c, err := lang.EvalExpression(src, root, &buf)
	o.Class, o.Msg = classifyErr(err)
	switch e := err.(type) {
	case lang.SyntaxError:
		o.Line, o.Col, o.SrcLine = e.Line, e.Col, e.SrcLine
	case lang.RuntimeError:
		o.Line, o.Col, o.SrcLine = e.Line, e.Col, e.SrcLine
	}
	return o, c
}

// ---------------------------------------------------------------------------
// product binary

type CliResult struct {
	Exit     int
	Signal   string // non-empty if killed by a signal
	Stdout   []byte
	Stderr   []byte
	TimedOut bool
	StartErr string
}

func RunCli(bin string, args []string, stdin []byte, dir string, timeout time.Duration) *CliResult {
	heartbeat()
	if timeout == 0 {
		timeout = 60 * time.Second
	}
	ctx, cancel := context.WithTimeout(context.Background(), timeout)
	defer cancel()
	cmd := exec.CommandContext(ctx, bin, args...)
	cmd.Dir = dir
	if stdin != nil {
		cmd.Stdin = bytes.NewReader(stdin)
	} else {
		// an empty pipe, never a tty and never inherited
		cmd.Stdin = bytes.NewReader(nil)
	}
	var so, se bytes.Buffer
	cmd.Stdout = &so
	cmd.Stderr = &se
	cmd.Env = append(os.Environ(), "GOTRACEBACK=single")
	err := cmd.Run()
	r := &CliResult{Stdout: so.Bytes(), Stderr: se.Bytes()}
	if ctx.Err() == context.DeadlineExceeded {
		r.TimedOut = true
		return r
	}
	if err != nil {
		var ee *exec.ExitError
		if errors.As(err, &ee) {
			if ws, ok := ee.Sys().(syscall.WaitStatus); ok && ws.Signaled() {
				r.Signal = ws.Signal().String()
			}
			r.Exit = ee.ExitCode()
		} else {
			r.StartErr = err.Error()
		}
	}
	return r
}

// goTrace reports whether stderr carries the signature of a Go runtime crash.
func goTrace(stderr []byte) bool {
	s := string(stderr)
	return strings.Contains(s, "goroutine ") && (strings.Contains(s, "panic:") || strings.Contains(s, "fatal error:") || strings.Contains(s, "[running]")) ||
		strings.Contains(s, "runtime error:") && strings.Contains(s, "goroutine ") ||
		strings.Contains(s, "fatal error: stack overflow")
}

// cliFault applies monitor M1 to a binary run; "" means the outcome is legal.
func cliFault(r *CliResult) string {
	switch {
	case r.StartErr != "":
		return "could not start: " + r.StartErr
	case r.Signal != "":
		return "killed by signal " + r.Signal
	case goTrace(r.Stderr):
		return "Go stack trace on stderr (exit " + fmt.Sprint(r.Exit) + ")"
	case r.Exit != 0 && len(bytes.TrimSpace(r.Stderr)) == 0:
		return fmt.Sprintf("exit status %d without a diagnostic", r.Exit)
	}
	return ""
}

// ---------------------------------------------------------------------------
// watchdog: a single case that takes more than the limit of wall time ends the
// worker; the orchestrator counts that case as inconclusive (never a violation).

var beat atomic.Int64

func heartbeat() { beat.Store(time.Now().UnixNano()) }

func installWatchdog() {
	heartbeat()
	limit := 180 * time.Second
	go func() {
		for {
			time.Sleep(2 * time.Second)
			if time.Since(time.Unix(0, beat.Load())) > limit {
				fmt.Fprintln(os.Stderr, "watchdog: case exceeded wall-clock limit")
				os.Exit(3)
			}
		}
	}()
}
