package main

// Whole-grammar random programs, token / byte mutations and hostile inputs for the
// model-free checks (C01, C10, C14): anything may appear anywhere.

import (
	"bytes"
	"fmt"
	"math/rand/v2"
	"os"
	"path/filepath"
	"strconv"
	"strings"
)

type wildGen struct {
	rng   *rand.Rand
	depth int
}

var wildNames = []string{"a", "b", "c", "x", "y", "o", "arr", "s", "n", "f", "g", "printf", "json", "num", "$", "$index", "$file", "$nope", "_", "length", "push"}
var wildMethods = []string{"length", "push", "pop", "popfirst", "contains", "sort", "pluck", "split", "lower", "upper", "floor", "ceil", "round", "nosuch"}
var wildBin = []string{"+", "-", "*", "/", "%", "==", "!=", "<", "<=", ">", ">=", "~", "!~", "&&", "||"}

func (g *wildGen) lit() Expr {
	switch g.rng.IntN(10) {
	case 0:
		return N(strconv.Itoa(g.rng.IntN(5)))
	case 1:
		return N([]string{"0", "1", "2.5", "1000000", "1048577", "99999999999", "0.0001", "007"}[g.rng.IntN(8)])
	case 2:
		return S([]string{"", "a", "abc", "1", "(", "a,b", "%s %f %v %", "\\n", "\\q", "é", "[", "^a+$"}[g.rng.IntN(12)])
	case 3:
		return &BoolLit{V: g.rng.IntN(2) == 0}
	case 4:
		return &NullLit{}
	case 5:
		return &RegexLit{Pat: []string{"a", "(", "^b", "[a-z]+", ""}[g.rng.IntN(5)]}
	case 6:
		return Arr()
	case 7:
		return &ObjectLit{}
	}
	return V(wildNames[g.rng.IntN(len(wildNames))])
}

func (g *wildGen) expr(d int) Expr {
	if d <= 0 || g.rng.IntN(6) == 0 {
		return g.lit()
	}
	switch g.rng.IntN(16) {
	case 0, 1, 2:
		return Bin(wildBin[g.rng.IntN(len(wildBin))], g.expr(d-1), g.expr(d-1))
	case 3:
		return &Unary{Op: []string{"!", "-", "+"}[g.rng.IntN(3)], X: g.expr(d - 1)}
	case 4:
		return &IncDec{Op: []string{"++", "--"}[g.rng.IntN(2)], Prefix: g.rng.IntN(2) == 0, X: g.lvalue(d - 1)}
	case 5:
		return &IsExpr{X: g.expr(d - 1), T: []string{"string", "number", "array", "object", "null", "function", "unknown", "regex", "bool", "zzz"}[g.rng.IntN(10)]}
	case 6, 7:
		return &Assign{Op: []string{"=", "=", "+=", "-=", "*=", "/="}[g.rng.IntN(6)], L: g.lvalue(d - 1), R: g.expr(d - 1)}
	case 8:
		return Mem(g.expr(d-1), []string{"a", "b", "k", "length", "push", "x"}[g.rng.IntN(6)])
	case 9:
		return Idx(g.expr(d-1), g.expr(d-1))
	case 10:
		var args []Expr
		for i := g.rng.IntN(4); i > 0; i-- {
			args = append(args, g.expr(d-1))
		}
		return CallE(g.expr(d-1), args...)
	case 11:
		var args []Expr
		for i := g.rng.IntN(3); i > 0; i-- {
			args = append(args, g.expr(d-1))
		}
		return Meth(g.expr(d-1), wildMethods[g.rng.IntN(len(wildMethods))], args...)
	case 12:
		var items []Expr
		for i := g.rng.IntN(4); i > 0; i-- {
			items = append(items, g.expr(d-1))
		}
		return Arr(items...)
	case 13:
		o := &ObjectLit{}
		for i := g.rng.IntN(3); i > 0; i-- {
			o.Keys = append(o.Keys, []string{"a", "b", "k", "length", "q r"}[g.rng.IntN(5)])
			o.Quoted = append(o.Quoted, g.rng.IntN(2) == 0 || strings.Contains(o.Keys[len(o.Keys)-1], " "))
			o.Vals = append(o.Vals, g.expr(d-1))
		}
		return o
	case 14:
		return g.match(d - 1)
	}
	return &Paren{X: g.expr(d - 1)}
}

func (g *wildGen) lvalue(d int) Expr {
	switch g.rng.IntN(6) {
	case 0, 1:
		return V(wildNames[g.rng.IntN(len(wildNames))])
	case 2:
		return Mem(g.lvalue(d-1), []string{"a", "b", "k", "length"}[g.rng.IntN(4)])
	case 3:
		if d > 0 {
			return Idx(g.lvalue(d-1), g.expr(d-1))
		}
		return V("arr")
	case 4:
		if d > 0 {
			return g.expr(d - 1) // not necessarily assignable
		}
	}
	return V("x")
}

func (g *wildGen) pattern(d int) Expr {
	switch g.rng.IntN(6) {
	case 0:
		return N(strconv.Itoa(g.rng.IntN(3)))
	case 1:
		return S("a")
	case 2:
		return V([]string{"p", "q", "_", "x"}[g.rng.IntN(4)])
	case 3:
		var items []Expr
		for i := g.rng.IntN(3); i > 0 && d > 0; i-- {
			items = append(items, g.pattern(d-1))
		}
		return Arr(items...)
	case 4:
		return &NullLit{}
	}
	return g.expr(1) // unsupported pattern kinds are runtime errors
}

func (g *wildGen) match(d int) Expr {
	m := &MatchExpr{Subj: g.expr(d)}
	for i := g.rng.IntN(4); i > 0; i-- {
		c := &MatchCase{}
		for j := 1 + g.rng.IntN(3); j > 0; j-- {
			c.Pats = append(c.Pats, g.pattern(2))
		}
		if g.rng.IntN(2) == 0 {
			c.Block = g.block(d, 2)
		} else {
			c.Body = g.expr(d)
		}
		m.Cases = append(m.Cases, c)
	}
	return m
}

func (g *wildGen) block(d, n int) *Block {
	b := &Block{}
	for i := g.rng.IntN(n + 1); i > 0; i-- {
		b.Stmts = append(b.Stmts, g.stmt(d))
	}
	return b
}

// stmt: any statement anywhere (break outside loops etc. are syntax errors: a legal outcome)
func (g *wildGen) stmt(d int) Stmt {
	if d <= 0 {
		return ES(g.expr(1))
	}
	switch g.rng.IntN(22) {
	case 0, 1, 2:
		return ES(g.expr(d))
	case 3, 4:
		var args []Expr
		for i := g.rng.IntN(3); i > 0; i-- {
			args = append(args, g.expr(d-1))
		}
		return Pr(args...)
	case 5, 6:
		st := &If{C: g.expr(d - 1), Then: g.body(d - 1)}
		if g.rng.IntN(2) == 0 {
			st.Else = g.body(d - 1)
		}
		return st
	case 7:
		return &While{C: g.expr(d - 1), Body: g.body(d - 1)}
	case 8:
		return &For{Pre: g.expr(d - 1), C: g.expr(d - 1), Post: g.expr(d - 1), Body: g.body(d - 1)}
	case 9, 10:
		v2 := ""
		if g.rng.IntN(2) == 0 {
			v2 = "i"
		}
		return &ForIn{V: []string{"x", "e", "a"}[g.rng.IntN(3)], V2: v2, It: g.expr(d - 1), Body: g.body(d - 1)}
	case 11:
		return &Break{}
	case 12:
		return &Continue{}
	case 13, 14:
		return &Next{}
	case 15, 16:
		return &Exit{}
	case 17, 18:
		if g.rng.IntN(2) == 0 {
			return &Return{}
		}
		return &Return{X: g.expr(d - 1)}
	case 19:
		return g.block(d-1, 3)
	}
	return ES(g.match(d - 1))
}

func (g *wildGen) body(d int) Stmt {
	if g.rng.IntN(3) == 0 {
		return g.stmt(d)
	}
	return g.block(d, 3)
}

func (g *wildGen) Program() *Program {
	p := &Program{}
	n := 1 + g.rng.IntN(5)
	for i := 0; i < n; i++ {
		switch g.rng.IntN(8) {
		case 0:
			p.Items = append(p.Items, &Func{Name: []string{"f", "g", "printf", "h"}[g.rng.IntN(4)], Params: []string{"p", "q"}[:g.rng.IntN(3)], Body: g.block(3, 3)})
		case 1:
			p.Items = append(p.Items, &Rule{Kind: "BEGIN", Body: g.block(3, 3)})
		case 2:
			p.Items = append(p.Items, &Rule{Kind: "END", Body: g.block(3, 3)})
		case 3:
			p.Items = append(p.Items, &Rule{Kind: "BEGINFILE", Body: g.block(3, 3)})
		case 4:
			p.Items = append(p.Items, &Rule{Kind: "ENDFILE", Body: g.block(3, 3)})
		case 5:
			p.Items = append(p.Items, &Rule{Kind: "pattern", Pattern: g.expr(2)})
		default:
			r := &Rule{Kind: "pattern", Body: g.block(3, 4)}
			if g.rng.IntN(2) == 0 {
				r.Pattern = g.expr(2)
			}
			p.Items = append(p.Items, r)
		}
	}
	return p
}

// ---------------------------------------------------------------------------
// mutations

var mutTokens = []string{"BEGIN", "END", "BEGINFILE", "ENDFILE", "print", "function", "return", "if", "else", "for", "while", "in", "match", "true", "false", "break", "continue", "next", "exit", "null", "is",
	"{", "}", "[", "]", "(", ")", ",", ".", ";", ":", "=>", "=", "==", "+", "-", "*", "/", "%", "++", "--", "+=", "!", "~", "&&", "||", "$", "$index", "x", "f", "1", "'s'", "/re/", "\n", "#c\n", "@", "\"", "'"}

func mutateTokens(rng *rand.Rand, toks []Tok) string {
	parts := make([]string, 0, len(toks)+4)
	for i := range toks {
		parts = append(parts, tokText(&toks[i], '\''))
	}
	for k := 1 + rng.IntN(3); k > 0 && len(parts) > 0; k-- {
		i := rng.IntN(len(parts))
		switch rng.IntN(6) {
		case 0:
			parts = append(parts[:i], parts[i+1:]...)
		case 1:
			parts = append(parts[:i], append([]string{parts[i]}, parts[i:]...)...)
		case 2:
			j := rng.IntN(len(parts))
			parts[i], parts[j] = parts[j], parts[i]
		case 3:
			parts[i] = mutTokens[rng.IntN(len(mutTokens))]
		case 4:
			parts = append(parts[:i], append([]string{mutTokens[rng.IntN(len(mutTokens))]}, parts[i:]...)...)
		default:
			// splice a run of tokens from elsewhere in the program
			j := rng.IntN(len(parts))
			l := 1 + rng.IntN(4)
			if j+l > len(parts) {
				l = len(parts) - j
			}
			run := append([]string{}, parts[j:j+l]...)
			parts = append(parts[:i], append(run, parts[i:]...)...)
		}
	}
	sep := []string{" ", " ", "\n", ""}
	var sb strings.Builder
	for i, p := range parts {
		if i > 0 {
			sb.WriteString(sep[rng.IntN(len(sep))])
		}
		sb.WriteString(p)
	}
	return sb.String()
}

func mutateBytes(rng *rand.Rand, b []byte) []byte {
	out := append([]byte{}, b...)
	for k := 1 + rng.IntN(4); k > 0; k-- {
		if len(out) == 0 {
			out = append(out, byte(rng.IntN(256)))
			continue
		}
		i := rng.IntN(len(out))
		switch rng.IntN(5) {
		case 0:
			out = append(out[:i], out[i+1:]...)
		case 1:
			out[i] = byte(rng.IntN(256))
		case 2:
			out = append(out[:i], append([]byte{byte(rng.IntN(256))}, out[i:]...)...)
		case 3:
			out[i] ^= 1 << uint(rng.IntN(8))
		default:
			j := rng.IntN(len(out))
			if i > j {
				i, j = j, i
			}
			out = append(out, out[i:j]...)
		}
	}
	if len(out) > 65536 {
		out = out[:65536]
	}
	return out
}

func randomBytes(rng *rand.Rand) []byte {
	n := rng.IntN(200)
	al := []byte("{}[]()'\"/\\$#;:,.+-*%=!<>&|~ \n\t\x00\xff\xc3\x80abcxyz0123456789")
	b := make([]byte, n)
	for i := range b {
		if rng.IntN(4) == 0 {
			b[i] = byte(rng.IntN(256))
		} else {
			b[i] = al[rng.IntN(len(al))]
		}
	}
	return b
}

// ---- inputs

func hostileInput(rng *rand.Rand) []byte {
	switch rng.IntN(14) {
	case 0:
		return nil
	case 1:
		return []byte("[1, 2, 3]")
	case 2:
		return []byte(`[{"a": 1, "b": [1, 2], "s": "x"}, {"a": null}, 3, "str", [4, [5]], null]`)
	case 3:
		return []byte("{\"a\": {\"b\": {\"c\": [1, 2, {\"d\": null}]}}, \"length\": 3, \"list\": []}")
	case 4:
		return []byte("1\n\"two\"\n[3]\n{\"four\": 4}\nnull\ntrue\n")
	case 5:
		return []byte("[1, 2")
	case 6:
		return []byte("[1] ] [2]")
	case 7:
		return []byte("{\"a\": }")
	case 8:
		return []byte("nul")
	case 9:
		return bytes.Repeat([]byte("["), 200+rng.IntN(20000))
	case 10:
		return append(bytes.Repeat([]byte("["), 500), bytes.Repeat([]byte("]"), 500)...)
	case 11:
		return randomBytes(rng)
	case 12:
		return mutateBytes(rng, []byte(`[{"a": 1, "b": [1, 2]}, {"a": "x"}]`))
	}
	return []byte("  \n\t ")
}

// ---- the repository's fuzz seeds (read once)

var fuzzSeeds [][]string

func loadFuzzSeeds(repo string) [][]string {
	if fuzzSeeds != nil {
		return fuzzSeeds
	}
	fuzzSeeds = [][]string{}
	for _, dir := range []string{"FuzzJqawk", "FuzzJqawkWithJson"} {
		files, _ := filepath.Glob(filepath.Join(repo, "testdata", "fuzz", dir, "*"))
		for _, f := range files {
			b, err := os.ReadFile(f)
			if err != nil {
				continue
			}
			var vals []string
			for _, line := range strings.Split(string(b), "\n") {
				line = strings.TrimSpace(line)
				if strings.HasPrefix(line, "string(") && strings.HasSuffix(line, ")") {
					if s, err := strconv.Unquote(line[7 : len(line)-1]); err == nil {
						vals = append(vals, s)
					}
				}
			}
			if len(vals) > 0 {
				fuzzSeeds = append(fuzzSeeds, vals)
			}
		}
	}
	return fuzzSeeds
}

func describeBytes(b []byte) string {
	if len(b) > 120 {
		return fmt.Sprintf("%q… (%d bytes)", b[:120], len(b))
	}
	return fmt.Sprintf("%q", b)
}
