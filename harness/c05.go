package main

// C05 — operators × operand kinds (DESIGN §4 C05). Enumerated grid in both tiers;
// thorough adds random doubles / strings / patterns.

import (
	"encoding/json"
	"fmt"
	"math"
	"math/rand/v2"
	"strconv"
	"strings"
)

type opnd struct {
	kind string
	name string
	lit  func() Expr // literal form
	doc  any         // JSON form (nil + !hasDoc: not expressible)
	has  bool
	nov  bool // cannot be stored in a variable
}

func numOpnd(f float64) opnd {
	text := strconv.FormatFloat(math.Abs(f), 'f', -1, 64)
	neg := math.Signbit(f)
	return opnd{kind: "number", name: strconv.FormatFloat(f, 'g', -1, 64), has: true, doc: f, lit: func() Expr {
		if neg {
			return &Unary{Op: "-", X: N(text)}
		}
		return N(text)
	}}
}

func strOpnd(s string) opnd {
	return opnd{kind: "string", name: strconv.Quote(s), has: true, doc: s, lit: func() Expr { return S(s) }}
}

var c05Grid = func() []opnd {
	var g []opnd
	for _, f := range []float64{0, math.Copysign(0, -1), 1, -1, 0.5, 2.5, -7, 1e15, 1e-7, 9007199254740992, 9223372036854775808, 1e19, 18446744073709551616} {
		g = append(g, numOpnd(f))
	}
	for _, s := range []string{"", " ", "0", "10", "9", "-3", "1e3", "abc", "a(", "^b",
		// seventh round: digit strings of 19 digits just beyond the largest int64 (a conversion through int64 wraps around)
		"9999999999999999999", "9223372036854775808"} {
		g = append(g, strOpnd(s))
	}
	g = append(g,
		opnd{kind: "bool", name: "true", has: true, doc: true, lit: func() Expr { return &BoolLit{V: true} }},
		opnd{kind: "bool", name: "false", has: true, doc: false, lit: func() Expr { return &BoolLit{V: false} }},
		opnd{kind: "null", name: "null", has: true, doc: nil, lit: func() Expr { return &NullLit{} }},
		opnd{kind: "null", name: "missing-member", nov: true, lit: func() Expr { return Mem(V("$"), "zz") }},
		opnd{kind: "null", name: "index-past-end", nov: true, lit: func() Expr { return Idx(Mem(V("$"), "arr9"), N("3")) }},
		opnd{kind: "null", name: "missing-deep", nov: true, lit: func() Expr { return Mem(Mem(Mem(V("$"), "zz"), "y"), "x") }},
		opnd{kind: "unset", name: "unset", nov: true, lit: func() Expr { return V("u") }},
		opnd{kind: "array", name: "[]", has: true, doc: []any{}, lit: func() Expr { return Arr() }},
		opnd{kind: "array", name: "[1]", has: true, doc: []any{1.0}, lit: func() Expr { return Arr(N("1")) }},
		opnd{kind: "object", name: "{}", has: true, doc: map[string]any{}, lit: func() Expr { return &ObjectLit{} }},
		opnd{kind: "object", name: "{a:1}", has: true, doc: map[string]any{"a": 1.0}, lit: func() Expr {
			return &ObjectLit{Keys: []string{"a"}, Quoted: []bool{false}, Vals: []Expr{N("1")}}
		}},
		opnd{kind: "regex", name: "/b/", lit: func() Expr { return &RegexLit{Pat: "b"} }},
		opnd{kind: "regex", name: "/(/", lit: func() Expr { return &RegexLit{Pat: "("} }},
		opnd{kind: "regex", name: "/^1/", lit: func() Expr { return &RegexLit{Pat: "^1"} }},
		opnd{kind: "regex", name: "/[a-c]+$/", lit: func() Expr { return &RegexLit{Pat: "[a-c]+$"} }},
		opnd{kind: "function", name: "f", nov: true, lit: func() Expr { return V("f") }},
		opnd{kind: "native", name: "printf", nov: true, lit: func() Expr { return V("printf") }},
	)
	return g
}()

var c05BinOps = []string{"+", "-", "*", "/", "%", "==", "!=", "<", "<=", ">", ">=", "~", "!~", "&&", "||"}
var c05IsTypes = []string{"string", "bool", "number", "array", "object", "regex", "null", "unknown", "function", "blah"}

// one expression under test
type c05Expr struct {
	id    string
	setup []Stmt // assignments for variable mode
	e     Expr
	doc   map[string]any
	key   string
}

func c05Fn() *Func {
	return &Func{Name: "f", Params: nil, Body: Blk(&Return{X: N("1")})}
}

// c05OpFuncs: opf<i>(l, r) applies binary operator i at ONE expression site, so that a batch
// evaluates the same site with many different operand pairs (per-site caches would show).
func c05OpFuncs() []any {
	var out []any
	for i, op := range c05BinOps {
		out = append(out, &Func{Name: fmt.Sprintf("opf%d", i), Params: []string{"l", "r"}, Body: Blk(&Return{X: Bin(op, V("l"), V("r"))})})
	}
	return out
}

func c05Items(body []Stmt) []any {
	items := append([]any{c05Fn()}, c05OpFuncs()...)
	return append(items, &Rule{Kind: "pattern", Body: &Block{Stmts: body}})
}

// supply builds the operand expression in the given mode (0 literal, 1 variable, 2 field).
func supply(o opnd, mode int, vname string, setup *[]Stmt, doc map[string]any) (Expr, bool) {
	switch mode {
	case 0:
		return o.lit(), true
	case 1:
		if o.nov {
			return nil, false
		}
		*setup = append(*setup, ES(Asg(V(vname), o.lit())))
		return V(vname), true
	default:
		if !o.has {
			return nil, false
		}
		doc[vname] = o.doc
		return Mem(V("$"), vname), true
	}
}

func docBytes(doc map[string]any) []byte {
	b, _ := json.Marshal(doc)
	return b
}

// runExprs evaluates every expression in the model alone to find predicted errors,
// batches the rest and runs everything through m2.
func c05RunExprs(c *Case, exprs []c05Expr) {
	doc := map[string]any{"arr9": []any{7.0, 8.0}}
	var batch []Stmt
	var members [][]Stmt
	var ids []string
	flush := func() {
		if len(batch) == 0 {
			return
		}
		p := &Program{Items: c05Items(batch)}
		r := m2(c, &M2Case{Prog: p, Files: []InFile{{Name: "in.json", Data: docBytes(doc)}}, Budget: 50000, Desc: "operator batch", Quiet: true})
		if r.Verdict == "held" {
			for range members {
				c.Held()
			}
		} else {
			// some expression of the batch disagrees: give each its own verdict
			anyBad := false
			for k, stm := range members {
				p := &Program{Items: c05Items(stm)}
				if rr := m2(c, &M2Case{Prog: p, Files: []InFile{{Name: "in.json", Data: docBytes(doc)}}, Budget: 50000, Desc: "operator " + ids[k]}); rr.Verdict != "held" {
					anyBad = true
				}
			}
			if !anyBad {
				// every expression is right on its own but the sequence is not: the result of one
				// evaluation depends on an earlier one (e.g. something cached per expression site)
				m2(c, &M2Case{Prog: &Program{Items: c05Items(batch)}, Files: []InFile{{Name: "in.json", Data: docBytes(doc)}}, Budget: 50000, Desc: "operator batch (each expression alone agrees, the sequence does not)"})
			}
		}
		batch, members, ids = nil, nil, nil
	}
	for _, x := range exprs {
		for k, v := range x.doc {
			doc[k] = v
		}
	}
	for _, x := range exprs {
		c.NonTrivial(x.key)
		c.Count("expressions")
		stm := append(append([]Stmt{}, x.setup...), Pr(S("#"+x.id), &Paren{X: x.e}))
		solo := &Program{Items: c05Items(stm)}
		mo := RunModel(solo, []MInput{{Name: "in.json", Values: []any{anyDoc(doc)}}}, nil, ModelOpts{})
		if mo.Class != "ok" || mo.Pinned() {
			// predicted error (or pinned): run alone, preceded by a print so the prefix rule is armed
			p := &Program{Items: c05Items(append([]Stmt{Pr(S("pre"))}, stm...))}
			c.Count("predicted_" + mo.Class)
			m2(c, &M2Case{Prog: p, Files: []InFile{{Name: "in.json", Data: docBytes(doc)}}, Budget: 50000, Desc: "operator " + x.id})
			continue
		}
		batch = append(batch, stm...)
		members = append(members, stm)
		ids = append(ids, x.id)
		if len(batch) >= 100 {
			flush()
		}
	}
	flush()
}

func anyDoc(doc map[string]any) any {
	v, _, _ := decodeOne(docBytes(doc))
	return v
}

// c05Chains: runs of three operands of one operator, first operand of every kind (a one-pass evaluation of a run must
// treat the first operand exactly as the pairwise rule does)
func c05Chains(c *Case) []c05Expr {
	var exprs []c05Expr
	mids := []opnd{strOpnd("s"), strOpnd(""), strOpnd("7"), numOpnd(2), numOpnd(-0.5)}
	lasts := []opnd{strOpnd("t"), numOpnd(1), numOpnd(2.5)}
	for _, op := range []string{"+", "-", "*"} {
		for li, l := range c05Grid {
			for mi, m := range mids {
				for ri, r := range lasts {
					for mode := 0; mode < 2; mode++ {
						x := c05Expr{doc: map[string]any{}}
						le, ok := supply(l, mode, fmt.Sprintf("cl%d_%d_%d_%d", li, mi, ri, mode), &x.setup, x.doc)
						if !ok {
							continue
						}
						x.e = Bin(op, Bin(op, le, m.lit()), r.lit())
						x.id = fmt.Sprintf("chain %s %s %s %s %s|m%d", l.name, op, m.name, op, r.name, mode)
						x.key = x.id
						c.Count("chains_of_three:" + op)
						exprs = append(exprs, x)
					}
				}
			}
		}
	}
	// subjects with line breaks against patterns whose '.' / '^' / '$' / classes behave differently under regex flags
	subj := []string{"a\\nb", "\\n", "x\\ny\\nz", "A\\nb", "a\\tb", "ab", "BEGIN\\nxx\\nEND", "line1\\nline2"}
	pats := []string{"a.b", ".", "^a.*b$", "a.*b", "^b", "a$", "^.$", "x.y.z", "[^a]b", "\\\\s", "(?i)a.B", "BEGIN.*END", "^line2", "line1$", "\\\\n", "a\\nb"}
	for si, sv := range subj {
		for pi, pv := range pats {
			for _, op := range []string{"~", "!~"} {
				for form := 0; form < 2; form++ {
					x := c05Expr{doc: map[string]any{}}
					var r Expr = &RegexLit{Pat: pv}
					if form == 1 {
						r = S(pv)
					}
					if form == 0 && strings.Contains(pv, "\\n") {
						continue // a regex literal has no escape processing of its own
					}
					x.e = Bin(op, S(sv), r)
					x.id = fmt.Sprintf("lines %d %s %d f%d", si, op, pi, form)
					x.key = x.id
					c.Count("line_break_subjects")
					exprs = append(exprs, x)
				}
			}
		}
	}
	return exprs
}

// c05Reentrant: one operator site is re-entered through recursion while its other operand is
// still pending (per-site scratch state would show).
func c05Reentrant(c *Case) {
	arith := []string{"+", "-", "*", "/", "%"}
	outer := []string{"+", "-", "*", "/", "%", "==", "!=", "<", "<=", ">", ">=", "&&", "||"}
	n := V("n")
	rec := func(d string) Expr { return CallE(V("r"), Bin("-", n, N(d))) }
	run := func(name string, body Expr, base Expr) {
		f := &Func{Name: "r", Params: []string{"n"}, Body: Blk(&If{C: Bin("<=", n, N("0")), Then: Blk(&Return{X: base})}, &Return{X: body})}
		p := &Program{Items: []any{f, &Rule{Kind: "BEGIN", Body: Blk(Pr(S("#"), CallE(V("r"), N("1")), CallE(V("r"), N("4")), CallE(V("r"), N("7"))))}}}
		c.NonTrivial("reentrant:" + name)
		c.Count("reentrant_sites")
		m2(c, &M2Case{Prog: p, Budget: 200000, Desc: "operator site re-entered through recursion: " + name})
	}
	for _, o1 := range arith {
		for _, o2 := range outer {
			for _, k := range []string{"2", "3"} {
				inner := &Paren{X: Bin(o1, n, N(k))}
				run("(n"+o1+k+")"+o2+"r(n-1)", Bin(o2, inner, rec("1")), N("1"))
				run("r(n-1)"+o2+"(n"+o1+k+")", Bin(o2, rec("1"), inner), N("1"))
			}
			run("(r(n-1)"+o1+"1)"+o2+"r(n-2)", Bin(o2, &Paren{X: Bin(o1, rec("1"), N("1"))}, rec("2")), N("2"))
			run("(r(n-2)"+o1+"n)"+o2+"(r(n-1)"+o1+"2)", Bin(o2, &Paren{X: Bin(o1, rec("2"), n)}, &Paren{X: Bin(o1, rec("1"), N("2"))}), N("3"))
		}
	}
	// string building
	run("('/'+n)+r(n-1)", Bin("+", &Paren{X: Bin("+", S("/"), n)}, rec("1")), S("."))
	run("r(n-1)+(n+'/')", Bin("+", rec("1"), &Paren{X: Bin("+", n, S("/"))}), S("."))
	run("(n+'')<r(n-1)", Bin("<", &Paren{X: Bin("+", n, S(""))}, rec("1")), S("3"))
	run("('a'+n)~r(n-1)", Bin("~", &Paren{X: Bin("+", S("a"), n)}, rec("1")), S("a"))
	run("-(n*2)+r(n-1)", Bin("+", &Unary{Op: "-", X: &Paren{X: Bin("*", n, N("2"))}}, rec("1")), N("0"))
	run("!(n%2)==r(n-1)", Bin("==", &Unary{Op: "!", X: &Paren{X: Bin("%", n, N("2"))}}, rec("1")), &BoolLit{V: true})
}

func c05Cases(tier string) int {
	n := len(c05BinOps)*len(c05Grid) + (3+len(c05IsTypes))*1 + len(c05BinOps) + 1 + len(c05BinOps) + 1
	if tier == "thorough" {
		n += 4000
	} else {
		n += 1500
	}
	return n
}

func randDouble(rng *rand.Rand) float64 {
	switch rng.IntN(6) {
	case 0:
		return float64(rng.IntN(2001) - 1000)
	case 1:
		return float64(rng.IntN(2001)-1000) / 8
	case 2:
		return math.Ldexp(float64(rng.Int64N(1<<53)), rng.IntN(60)-80)
	case 3:
		return -math.Ldexp(float64(rng.Int64N(1<<53)), rng.IntN(40)-50)
	case 4:
		return float64(rng.Int64N(1 << 40))
	}
	return rng.Float64()*200 - 100
}

var c05StrPool = []string{"a\\nb", "\\n", "a.b", ".", "^a.*b$", "a\\tb", "x\\ny\\nz", "", " ", "0", "00", "1", "10", "9", "-3", "+4", "1e3", "1E-2", ".5", "5.", "1.5", "abc", "ABC", "a b", "é", "日本", "x1", "1x", " 1", "1 ", "--1", "1e", "e1", "a(", "^b", "b$", "[a-c]+", "a|b", "(a", "a{2}", "\\\\d"}

func randStrRaw(rng *rand.Rand) string {
	if rng.IntN(3) > 0 {
		return c05StrPool[rng.IntN(len(c05StrPool))]
	}
	n := rng.IntN(6)
	al := "ab01 .-e+xyz9"
	var sb strings.Builder
	for i := 0; i < n; i++ {
		sb.WriteByte(al[rng.IntN(len(al))])
	}
	return sb.String()
}

func c05Run(c *Case) {
	i := c.Idx
	nb := len(c05BinOps) * len(c05Grid)
	var exprs []c05Expr
	switch {
	case i < nb:
		op := c05BinOps[i/len(c05Grid)]
		l := c05Grid[i%len(c05Grid)]
		for ri, r := range c05Grid {
			for mode := 0; mode < 4; mode++ {
				x := c05Expr{doc: map[string]any{}}
				ln, rn := fmt.Sprintf("l%d_%d", ri, mode), fmt.Sprintf("r%d_%d", ri, mode)
				sm := mode
				if mode == 3 {
					sm = 0
					if l.kind == "function" || l.kind == "native" || l.kind == "unset" || r.kind == "function" || r.kind == "native" || r.kind == "unset" {
						continue // cannot be passed as arguments
					}
				}
				le, ok1 := supply(l, sm, ln, &x.setup, x.doc)
				re, ok2 := supply(r, sm, rn, &x.setup, x.doc)
				if !ok1 || !ok2 {
					continue
				}
				x.e = Bin(op, le, re)
				if mode == 3 {
					x.e = CallE(V(fmt.Sprintf("opf%d", i/len(c05Grid))), le, re)
				}
				x.id = fmt.Sprintf("%s|%s|%s|m%d", l.name, op, r.name, mode)
				x.key = x.id
				c.Count("op:" + op)
				c.Count("kinds:" + l.kind + "," + r.kind)
				exprs = append(exprs, x)
			}
		}
	case i < nb+3+len(c05IsTypes):
		j := i - nb
		for vi, o := range c05Grid {
			for mode := 0; mode < 3; mode++ {
				x := c05Expr{doc: map[string]any{}}
				e, ok := supply(o, mode, fmt.Sprintf("v%d_%d", vi, mode), &x.setup, x.doc)
				if !ok {
					continue
				}
				if j < 3 {
					op := []string{"!", "-", "+"}[j]
					x.e = &Unary{Op: op, X: e}
					x.id = fmt.Sprintf("%s%s|m%d", op, o.name, mode)
					c.Count("op:unary" + op)
				} else {
					t := c05IsTypes[j-3]
					x.e = &IsExpr{X: e, T: t}
					x.id = fmt.Sprintf("%s is %s|m%d", o.name, t, mode)
					c.Count("op:is")
				}
				x.key = x.id
				exprs = append(exprs, x)
			}
		}
	case i < nb+3+len(c05IsTypes)+len(c05BinOps):
		// same variable on both sides: x op x
		op := c05BinOps[i-nb-3-len(c05IsTypes)]
		for vi, o := range c05Grid {
			if o.nov && o.kind != "unset" {
				continue
			}
			x := c05Expr{doc: map[string]any{}}
			vn := fmt.Sprintf("s%d", vi)
			if o.kind != "unset" {
				x.setup = append(x.setup, ES(Asg(V(vn), o.lit())))
			} else {
				vn = "u"
			}
			x.e = Bin(op, V(vn), V(vn))
			x.id = fmt.Sprintf("samevar %s %s", o.name, op)
			x.key = x.id
			c.Count("op:" + op)
			c.Count("samevar")
			exprs = append(exprs, x)
			if o.kind != "unset" {
				// the same value under a second name, inside a container and as a member
				y := c05Expr{doc: map[string]any{}}
				an := fmt.Sprintf("al%d", vi)
				y.setup = append(y.setup, ES(Asg(V(vn), o.lit())), ES(Asg(V(an), V(vn))), ES(Asg(V(an+"h"), &ObjectLit{Keys: []string{"m"}, Quoted: []bool{false}, Vals: []Expr{V(vn)}})))
				y.e = Arr(Bin(op, V(vn), V(an)), Bin(op, V(an), V(vn)), Bin(op, Mem(V(an+"h"), "m"), V(vn)))
				y.id = fmt.Sprintf("aliased %s %s", o.name, op)
				y.key = y.id
				c.Count("aliased-operands")
				exprs = append(exprs, y)
			}
		}
	case i == nb+3+len(c05IsTypes)+len(c05BinOps):
		// short circuit: the right operand has a visible effect
		var stm []Stmt
		n := 0
		for _, op := range []string{"&&", "||"} {
			for _, o := range c05Grid {
				cn := fmt.Sprintf("c%d", n)
				n++
				stm = append(stm, ES(Asg(V(cn), N("0"))),
					Pr(S("#sc"+op+o.name), Bin(op, o.lit(), &Paren{X: Asg(V(cn), Bin("+", V(cn), N("1")))}), V(cn)))
				c.NonTrivial("sc" + op + o.name)
				c.Count("shortcircuit")
			}
		}
		p := &Program{Items: []any{c05Fn(), &Rule{Kind: "BEGIN", Body: &Block{Stmts: stm}}}}
		m2(c, &M2Case{Prog: p, Budget: 50000, Desc: "short circuit"})
		return
	case i < nb+3+len(c05IsTypes)+len(c05BinOps)+1+len(c05BinOps):
		// a prefix operator directly on a parenthesised binary expression: !(l op r), -(l op r)
		op := c05BinOps[i-(nb+3+len(c05IsTypes)+len(c05BinOps)+1)]
		for li, l := range c05Grid {
			for ri, r := range c05Grid {
				for mode := 0; mode < 2; mode++ {
					x := c05Expr{doc: map[string]any{}}
					le, ok1 := supply(l, mode, fmt.Sprintf("l%d_%d_%d", li, ri, mode), &x.setup, x.doc)
					re, ok2 := supply(r, mode, fmt.Sprintf("r%d_%d_%d", li, ri, mode), &x.setup, x.doc)
					if !ok1 || !ok2 {
						continue
					}
					pre := "!"
					if (li+ri)%3 == 0 {
						pre = "-"
					}
					x.e = &Unary{Op: pre, X: &Paren{X: Bin(op, le, re)}}
					x.id = fmt.Sprintf("%s(%s|%s|%s)|m%d", pre, l.name, op, r.name, mode)
					x.key = x.id
					c.Count("prefix_on_parenthesised:" + pre + op)
					exprs = append(exprs, x)
				}
			}
		}
	case i == nb+3+len(c05IsTypes)+len(c05BinOps)+1+len(c05BinOps):
		c05Reentrant(c)
		exprs = c05Chains(c)
	default:
		// sampled: random doubles and strings through every arithmetic / comparison / match operator
		rng := c.Rng
		for k := 0; k < 40; k++ {
			op := c05BinOps[rng.IntN(len(c05BinOps))]
			mk := func() opnd {
				switch rng.IntN(5) {
				case 0, 1:
					return numOpnd(randDouble(rng))
				case 2, 3:
					return strOpnd(randStrRaw(rng))
				}
				return c05Grid[rng.IntN(len(c05Grid))]
			}
			l, r := mk(), mk()
			if rng.IntN(4) == 0 {
				// two doubles a few units in the last place apart (exact comparison, no tolerance), also built by arithmetic
				base := []float64{0.3, 1, 9007199254740992, 0.1, 1e15, 123456.789, 5e-324, 1e-7, 2.5, 1e19}[rng.IntN(10)]
				if rng.IntN(3) == 0 {
					base = randDouble(rng)
				}
				near := base
				for k := 1 + rng.IntN(8); k > 0; k-- {
					near = math.Nextafter(near, math.Inf(1))
				}
				if rng.IntN(2) == 0 {
					base, near = near, base
				}
				l, r = numOpnd(base), numOpnd(near)
				op = []string{"==", "!=", "<", "<=", ">", ">=", "-"}[rng.IntN(7)]
				c.Count("near_pairs")
			}
			if op == "%" {
				// keep operands far below 2^63 (conversion of larger values is [P])
				if l.kind == "number" {
					l = numOpnd(float64(rng.IntN(4001)-2000) / 4)
				}
			}
			mode := rng.IntN(3)
			x := c05Expr{doc: map[string]any{}}
			le, ok1 := supply(l, mode, fmt.Sprintf("l%d", k), &x.setup, x.doc)
			re, ok2 := supply(r, mode, fmt.Sprintf("r%d", k), &x.setup, x.doc)
			if !ok1 || !ok2 {
				continue
			}
			x.e = Bin(op, le, re)
			x.id = fmt.Sprintf("%s|%s|%s|m%d", l.name, op, r.name, mode)
			x.key = x.id
			c.Count("op:" + op)
			c.Count("sampled")
			exprs = append(exprs, x)
		}
	}
	if c.Idx == 0 && len(exprs) > 2 {
		c.Sample(map[string]any{"expression": CanonExpr(exprs[1].e), "id": exprs[1].id})
		c.Sample(map[string]any{"expression": CanonExpr(exprs[len(exprs)-1].e), "id": exprs[len(exprs)-1].id})
	}
	c05RunExprs(c, exprs)
}

func init() {
	register(&Prop{
		ID: "C05", Level: "exploration",
		Rule:          "enumerated: every binary operator x every ordered pair of grid values (13 numbers incl. 2^53, 2^63, 1e19, 2^64 written as digit strings, 12 strings (two of them 19-digit numerals beyond the largest int64), both bools, null, unset, 2 arrays, 2 objects, 2 regexes, user function, native) x supply mode (literal, variable, document field); every unary operator and every `is` form x every grid value x mode; x op x on one variable and on two names / a member holding the same value; short-circuit with a counting right operand; `!` / `-` written directly on a parenthesised binary expression for every operator x ordered pair of grid values (literal and variable); runs of three operands of + - * whose first operand is every grid value (literal and variable); 400 recursive functions whose return expression re-enters one operator site while its other operand is pending ((n o1 k) o2 r(n-1), mirrored, two recursive calls, string building); sampled: random doubles/strings, a quarter of the numeric pairs 1-8 units in the last place apart. A case is one (operator, left value) row; distinct_nontrivial counts distinct (operator, left value, right value, mode) points, every point of the table being non-trivial.",
		NumCases:      c05Cases,
		Run:           c05Run,
		MinConclusive: func(tier string) int { return 400 },
		Exhaustive: func(tier string) string {
			return "operator x value-pair grid x supply mode (the enumerated part; the sampled part is not exhaustive)"
		},
		Assumptions: []string{"reference semantics of DESIGN.md section 3.1-3.2 ([S] rules only decide)", "Go strconv/math/regexp are the trusted base for number formatting, IEEE arithmetic and RE2"},
	})
}
