package main

// C19 — match selects the first matching case, binds pattern names, yields its value.

import (
	"fmt"
	"math/rand/v2"
	"strconv"
)

type matchGen struct {
	rng   *rand.Rand
	nname int
	stats map[string]int
}

func (g *matchGen) name() string {
	g.nname++
	if g.rng.IntN(8) == 0 {
		return "_"
	}
	return "b" + strconv.Itoa(g.nname)
}

func (g *matchGen) subject(depth int) any {
	k := g.rng.IntN(12)
	if depth <= 0 && k >= 8 {
		k = g.rng.IntN(8)
	}
	switch {
	case k < 3:
		return float64(g.rng.IntN(5))
	case k < 4:
		return []float64{0.5, 10, 2.5}[g.rng.IntN(3)]
	case k < 6:
		return []string{"1", "a", "b", "", "2", "x y"}[g.rng.IntN(6)]
	case k < 7:
		return g.rng.IntN(2) == 0
	case k < 8:
		return nil
	}
	n := g.rng.IntN(5)
	arr := make([]any, 0, n)
	for i := 0; i < n; i++ {
		arr = append(arr, g.subject(depth-1))
	}
	return arr
}

func litOf(v any) Expr {
	switch x := v.(type) {
	case float64:
		return N(fmtNum(x))
	case string:
		return S(x)
	case bool:
		return &BoolLit{V: x}
	case nil:
		return &NullLit{}
	}
	panic("litOf")
}

// matching returns a pattern that matches v, binding fresh names (recorded in *names).
func (g *matchGen) matching(v any, names *[]string) Expr {
	if arr, ok := v.([]any); ok {
		if g.rng.IntN(4) == 0 {
			n := g.name()
			*names = append(*names, n)
			return V(n)
		}
		var items []Expr
		for _, e := range arr {
			items = append(items, g.matching(e, names))
		}
		g.stats["array-pattern"]++
		return Arr(items...)
	}
	switch g.rng.IntN(5) {
	case 0, 1:
		n := g.name()
		*names = append(*names, n)
		return V(n)
	case 2:
		// equal by coercion
		switch x := v.(type) {
		case float64:
			if x == float64(int(x)) && x >= 0 {
				g.stats["coercion-literal"]++
				return S(fmtNum(x))
			}
		case bool:
			g.stats["coercion-literal"]++
			if x {
				return N("1")
			}
			return N("0")
		}
	}
	return litOf(v)
}

// nonMatching returns a pattern that does not match v (no runtime error when tried).
func (g *matchGen) nonMatching(v any) Expr {
	if arr, ok := v.([]any); ok {
		switch g.rng.IntN(4) {
		case 0: // one element too many
			var names []string
			items := []Expr{}
			for _, e := range arr {
				items = append(items, g.matching(e, &names))
			}
			g.stats["failing-array-length"]++
			return Arr(append(items, V(g.name()))...)
		case 1: // one element short
			if len(arr) > 0 {
				var names []string
				items := []Expr{}
				for _, e := range arr[:len(arr)-1] {
					items = append(items, g.matching(e, &names))
				}
				g.stats["failing-array-length"]++
				return Arr(items...)
			}
		case 2: // right length, one scalar element differs
			for i, e := range arr {
				if _, isArr := e.([]any); !isArr {
					var names []string
					items := []Expr{}
					for j, f := range arr {
						if j == i {
							items = append(items, S("¬"))
						} else {
							items = append(items, g.matching(f, &names))
						}
					}
					g.stats["failing-array-element"]++
					return Arr(items...)
				}
			}
		}
		return &NullLit{} // null never equals a container and is not an error
	}
	switch g.rng.IntN(3) {
	case 0:
		g.stats["failing-array-on-scalar"]++
		return Arr(V(g.name()))
	case 1:
		if v != nil {
			return &NullLit{}
		}
	}
	return S("¬nope")
}

func (g *matchGen) body(names []string, tag string, block bool) *MatchCase {
	c := &MatchCase{}
	var uses []Expr
	for _, n := range names {
		if n != "_" {
			uses = append(uses, V(n))
		}
	}
	if block && g.rng.IntN(6) == 0 {
		c.Block = Blk() // an empty block body: the match yields null
		g.stats["empty-block-body"]++
		return c
	}
	if block && g.rng.IntN(4) == 0 {
		// a block of exactly one expression statement is still a block: the match yields null, not the expression
		var e Expr = Asg(V("seen"), Arr(append([]Expr{S(tag)}, uses...)...))
		switch g.rng.IntN(3) {
		case 0:
			e = Asg(V("seen"), S(tag))
		case 1:
			if len(uses) > 0 {
				e = uses[0] // a bare name as the only statement
			}
		}
		c.Block = Blk(ES(e))
		g.stats["single-expression-block-body"]++
		return c
	}
	if block {
		args := append([]Expr{S(tag)}, uses...)
		for i := 1; i < len(args); i++ {
			args[i] = jsonOf(args[i])
		}
		c.Block = Blk(Pr(args...))
		g.stats["block-body"]++
	} else {
		c.Body = Arr(append([]Expr{S(tag)}, uses...)...)
		g.stats["expression-body"]++
	}
	return c
}

// cases builds a case list in which (ci, ai) is the first alternative matching target.
func (g *matchGen) cases(target any, tripwires bool) ([]*MatchCase, int, int) {
	ncases := 1 + g.rng.IntN(5)
	if g.rng.IntN(8) == 0 {
		ncases = 8 + g.rng.IntN(8) // long case lists (whatever an implementation does to speed those up)
		g.stats["long-case-list"]++
	}
	ci := g.rng.IntN(ncases + 1) // == ncases: nothing matches
	var out []*MatchCase
	selAlt := -1
	for i := 0; i < ncases; i++ {
		nalt := 1 + g.rng.IntN(4)
		var pats []Expr
		var names []string
		tag := "case" + strconv.Itoa(i)
		switch {
		case i < ci:
			for a := 0; a < nalt; a++ {
				pats = append(pats, g.nonMatching(target))
			}
		case i == ci:
			ai := g.rng.IntN(nalt)
			selAlt = ai
			for a := 0; a < nalt; a++ {
				switch {
				case a < ai:
					pats = append(pats, g.nonMatching(target))
				case a == ai:
					pats = append(pats, g.matching(target, &names))
				default:
					switch k := g.rng.IntN(4); {
					case tripwires && k == 0:
						pats = append(pats, S("\\q")) // evaluated only if reached: bad escape
					case k == 1:
						// an alternative that would match as well (a catch-all name, or another matching pattern):
						// the first matching alternative still decides the bindings
						if g.rng.IntN(2) == 0 {
							pats = append(pats, V(g.name()))
						} else {
							var other []string
							pats = append(pats, g.matching(target, &other))
						}
						g.stats["later-alternative-also-matches"]++
					default:
						pats = append(pats, g.nonMatching(target))
					}
				}
			}
			// only names bound by every alternative may be used; alternatives bind different names, so use those of the selected one
		default:
			for a := 0; a < nalt; a++ {
				if tripwires && g.rng.IntN(3) == 0 {
					pats = append(pats, S("\\q"))
				} else if g.rng.IntN(2) == 0 {
					var nn []string
					pats = append(pats, g.matching(target, &nn))
				} else {
					pats = append(pats, g.nonMatching(target))
				}
			}
			tag = "LATER" + strconv.Itoa(i)
		}
		mc := g.body(names, tag, g.rng.IntN(3) == 0)
		mc.Pats = pats
		out = append(out, mc)
	}
	return out, ci, selAlt
}

func c19Random(c *Case) {
	g := &matchGen{rng: c.Rng, stats: map[string]int{}}
	target := g.subject(2)
	cases, ci, ai := g.cases(target, true)
	subjects := []any{target}
	for i := c.Rng.IntN(4); i > 0; i-- {
		subjects = append(subjects, g.subject(2))
	}
	// the model must not see a bad-escape tripwire for the target; other subjects may legitimately hit it
	var me Expr = &MatchExpr{Subj: V("$"), Cases: cases}
	var body []Stmt
	inFunc := c.Rng.IntN(4) == 0
	if inFunc {
		me = &MatchExpr{Subj: V("v"), Cases: cases}
	}
	if c.Rng.IntN(5) == 0 {
		// nested: the whole match is the body of an outer catch-all case
		me = &MatchExpr{Subj: N("7"), Cases: []*MatchCase{{Pats: []Expr{N("8")}, Body: S("never")}, {Pats: []Expr{V("outer")}, Body: me}}}
		g.stats["nested-match"]++
	}
	var items []any
	if inFunc {
		items = append(items, &Func{Name: "mf", Params: []string{"v"}, Body: Blk(&Return{X: me})})
		body = []Stmt{Pr(S("subject"), jsonOf(V("$"))), Pr(S("value"), jsonOf(CallE(V("mf"), V("$"))))}
		g.stats["match-in-function"]++
	} else {
		body = []Stmt{Pr(S("subject"), jsonOf(V("$"))), Pr(S("value"), jsonOf(me))}
	}
	items = append(items, &Rule{Kind: "pattern", Body: &Block{Stmts: body}})
	p := &Program{Items: items}
	rd := RenderProgram(p, ParenMinimal, nil)
	text, _ := rd.Layout(nil)
	if rd.LeadBad {
		c.Inconclusive("generator-discipline")
		return
	}
	m2(c, &M2Case{Prog: p, Text: text, Files: []InFile{{Name: "in.json", Data: jsonBytes(subjects)}}, Desc: "match"})
	for k, v := range g.stats {
		c.CountN("generated:"+k, v)
	}
	if ci < len(cases) {
		c.Count(fmt.Sprintf("selected_case_position:%d", min(ci, 3)))
		c.Count(fmt.Sprintf("selected_alternative_position:%d", min(ai, 3)))
	} else {
		c.Count("no_case_matches")
	}
	nalts := 0
	for _, mc := range cases {
		nalts += len(mc.Pats)
	}
	if (len(cases) >= 2 || nalts >= 2) && (ci > 0 || ai > 0) {
		c.NonTrivial(text + string(jsonBytes(subjects)))
	}
	if c.Idx%3000 == 50 {
		c.Sample(map[string]any{"program": text, "subjects": string(jsonBytes(subjects))})
	}
}

// ---- enumerated forms

var c19Fixed = []struct{ name, prog, input string }{}

func c19Enumerated(c *Case) {
	type form struct {
		name string
		subj Expr
		cs   []*MatchCase
	}
	pres := map[string][]Stmt{} // statements run before the match of the form of that name
	x, y := V("x"), V("y")
	ex := func(e Expr) *MatchCase { return &MatchCase{Body: e} }
	with := func(mc *MatchCase, pats ...Expr) *MatchCase { mc.Pats = pats; return mc }
	forms := []form{
		{"failing array pattern then matching array pattern", Arr(N("2"), N("5")), []*MatchCase{with(ex(x), Arr(N("1"), x), Arr(N("2"), x))}},
		{"failing array length then matching", Arr(N("2"), N("5")), []*MatchCase{with(ex(x), Arr(x), Arr(N("2"), x))}},
		{"failing array (longer) then identifier", Arr(N("2"), N("5")), []*MatchCase{with(ex(x), Arr(N("2"), N("5"), y), x)}},
		{"failing literal then array pattern", Arr(N("2"), N("5")), []*MatchCase{with(ex(x), &NullLit{}, Arr(N("2"), x))}},
		{"failing array on scalar then literal", N("3"), []*MatchCase{with(ex(S("lit")), Arr(x), N("3"))}},
		{"failing nested array then matching nested", Arr(Arr(N("1"), N("2")), N("3")), []*MatchCase{with(ex(Arr(x, y)), Arr(Arr(N("9"), x), y), Arr(Arr(N("1"), x), y))}},
		{"first of two matching cases", N("1"), []*MatchCase{with(ex(S("first")), N("1")), with(ex(S("second")), N("1"), x)}},
		{"no case matches", N("4"), []*MatchCase{with(ex(S("a")), N("1")), with(ex(S("b")), S("x"), Arr(x))}},
		{"length mismatch +1", Arr(N("1"), N("2"), N("3")), []*MatchCase{with(ex(S("two")), Arr(x, y)), with(ex(S("three")), Arr(x, y, V("z")))}},
		{"length mismatch -1", Arr(N("1")), []*MatchCase{with(ex(S("two")), Arr(x, y)), with(ex(S("one")), Arr(x))}},
		{"empty array pattern", Arr(), []*MatchCase{with(ex(S("nonempty")), Arr(x)), with(ex(S("empty")), Arr())}},
		{"literal equal by coercion: '1' vs 1", S("1"), []*MatchCase{with(ex(S("num")), N("1")), with(ex(S("other")), x)}},
		{"literal equal by coercion: true vs 1", &BoolLit{V: true}, []*MatchCase{with(ex(S("one")), N("1")), with(ex(S("other")), x)}},
		{"null matches null only", &NullLit{}, []*MatchCase{with(ex(S("zero")), N("0")), with(ex(S("empty")), S("")), with(ex(S("null")), &NullLit{})}},
		{"block body yields null", N("1"), []*MatchCase{{Pats: []Expr{N("1")}, Block: Blk(Pr(S("in block")))}}},
		{"later case body not evaluated", N("1"), []*MatchCase{with(ex(S("hit")), N("1")), {Pats: []Expr{x}, Block: Blk(Pr(S("MUST NOT PRINT")))}}},
		{"later pattern not evaluated", N("1"), []*MatchCase{with(ex(S("hit")), N("1")), with(ex(S("bad")), S("\\q"))}},
		{"later alternative not evaluated", N("1"), []*MatchCase{with(ex(S("hit")), N("1"), S("\\q"))}},
		{"wildcard", S("anything"), []*MatchCase{with(ex(S("wild")), V("_"))}},
		{"binding used in body", Arr(N("3"), Arr(N("4"), S("s"))), []*MatchCase{with(ex(Arr(y, x, V("z"))), Arr(x, Arr(y, V("z"))))}},
	}
	// a match directly inside the body of another match's case: each case has its own bindings
	rest := V("rest")
	inner := func(subj Expr, body Expr, pats ...Expr) Expr {
		return &MatchExpr{Subj: subj, Cases: []*MatchCase{with(ex(body), pats...)}}
	}
	forms = append(forms,
		form{"nested match binding the same name: outer value afterwards", Arr(N("1"), Arr(N("2"), N("3"))), []*MatchCase{with(ex(Bin("+", &Paren{X: inner(rest, Bin("+", Bin("*", x, N("10")), y), Arr(x, y))}, x)), Arr(x, rest))}},
		form{"nested match binding the same name: outer value before and after", Arr(N("1"), Arr(N("2"), N("3"))), []*MatchCase{with(ex(Arr(x, inner(rest, Arr(x, y), Arr(x, y)), x)), Arr(x, rest))}},
		form{"nested match: inner-only names are gone afterwards", Arr(N("1"), N("2")), []*MatchCase{with(ex(Arr(inner(y, V("q"), V("q")), &IsExpr{X: V("q"), T: "unknown"}, x)), Arr(x, y))}},
		form{"three levels binding one name", Arr(N("1"), Arr(N("2"), Arr(N("3"), N("4")))), []*MatchCase{with(ex(Arr(x, inner(rest, Arr(x, inner(rest, x, Arr(x, V("w"))), x), Arr(x, rest)), x)), Arr(x, rest))}},
		form{"nested match in a block body", Arr(N("1"), Arr(N("2"), N("3"))), []*MatchCase{{Pats: []Expr{Arr(x, rest)}, Block: Blk(Pr(S("outer"), x), ES(&MatchExpr{Subj: rest, Cases: []*MatchCase{{Pats: []Expr{Arr(x, y)}, Block: Blk(Pr(S("inner"), x, y))}}}), Pr(S("outer again"), x, &IsExpr{X: y, T: "unknown"}))}}},
		form{"nested match as the subject of the outer body's match", Arr(N("5"), N("6")), []*MatchCase{with(ex(inner(inner(x, Bin("+", x, N("1")), x), Arr(x, y), x)), Arr(x, y))}},
	)
	us := V("_")
	forms = append(forms,
		form{"the name _ binds the value", N("7"), []*MatchCase{with(ex(S("one")), N("1")), with(ex(Bin("+", us, N("1"))), us)}},
		form{"the name _ inside an array pattern binds the element", Arr(N("4"), N("9")), []*MatchCase{with(ex(Bin("+", Bin("*", us, N("10")), y)), Arr(us, y))}},
		form{"array pattern with several literals: an early mismatch decides", Arr(N("3"), N("2")), []*MatchCase{with(ex(S("wrong")), Arr(N("1"), N("2"))), with(ex(S("right")), Arr(N("3"), N("2")))}},
		form{"array pattern with literals and a nested pattern: an early mismatch decides", Arr(S("mul"), N("4"), Arr(N("0"))), []*MatchCase{with(ex(S("add")), Arr(S("add"), x, Arr(N("0")))), with(ex(Arr(S("mul"), x)), Arr(S("mul"), x, Arr(N("0"))))}},
		form{"array pattern: first and last literal match, middle differs", Arr(N("1"), N("5"), N("3")), []*MatchCase{with(ex(S("wrong")), Arr(N("1"), N("2"), N("3"))), with(ex(S("other")), x)}},
	)
	// a subject that was never assigned: v == literal is false for every literal, so only a name matches
	un := V("neverset")
	for _, lit := range []struct {
		name string
		e    Expr
	}{{"0", N("0")}, {"the empty string", S("")}, {"false", &BoolLit{V: false}}, {"null", &NullLit{}}, {"1", N("1")}} {
		forms = append(forms,
			form{"unset subject against the literal " + lit.name + " then a name", un, []*MatchCase{with(ex(S("literal")), lit.e), with(ex(S("name")), x)}},
			form{"unset subject against the literal " + lit.name + " only", un, []*MatchCase{with(ex(S("literal")), lit.e)}},
			form{"unset element against the literal " + lit.name + " inside an array pattern", Arr(un, N("2")), []*MatchCase{with(ex(S("literal")), Arr(lit.e, N("2"))), with(ex(S("name")), Arr(x, N("2")))}},
		)
	}
	// names bound by an alternative that then fails are not bound in the body of the alternative that matches
	isUn := func(n string) Expr { return &IsExpr{X: V(n), T: "unknown"} }
	forms = append(forms,
		form{name: "failed alternative bound a global's name", subj: Arr(N("7"), N("2")), cs: []*MatchCase{with(ex(Arr(x, y)), Arr(x, N("1")), Arr(y, N("2")))}},
		form{name: "failed alternative bound a name the body tests", subj: Arr(N("7"), N("2")), cs: []*MatchCase{with(ex(Arr(isUn("p"), V("q"))), Arr(V("p"), N("1")), Arr(V("q"), N("2")))}},
		form{name: "failed nested alternative bound two names", subj: Arr(Arr(N("1"), N("2")), N("3")), cs: []*MatchCase{with(ex(Arr(isUn("a"), isUn("b"), V("c"))), Arr(Arr(V("a"), N("9")), V("b")), Arr(V("c"), N("3")))}},
		form{name: "failed alternative then a catch-all name", subj: Arr(N("5"), N("6")), cs: []*MatchCase{with(ex(Arr(isUn("p"), V("q"))), Arr(V("p"), N("0")), V("q"))}},
		form{name: "two failed alternatives then a literal", subj: Arr(N("5"), N("6")), cs: []*MatchCase{with(ex(S("no")), Arr(V("p"), N("0"))), with(ex(Arr(isUn("p"), isUn("r"), V("s"))), Arr(V("r"), V("p"), N("1")), Arr(N("5"), V("s")))}},
		form{name: "failed alternative of an earlier case bound a name a later case's body reads", subj: Arr(N("5"), N("6")), cs: []*MatchCase{with(ex(S("no")), Arr(V("early"), N("0")), Arr(V("early"), V("early2"), N("1"))), with(ex(Arr(isUn("early"), isUn("early2"), V("z"))), V("z"))}},
	)
	pres["failed alternative bound a global's name"] = []Stmt{asg(x, S("outer"))}
	// many cases: the first matching case wins and literals match by ==, whatever the number of cases
	lits := func(vals ...Expr) []*MatchCase {
		var cs []*MatchCase
		for i, v := range vals {
			cs = append(cs, with(ex(S("case"+strconv.Itoa(i))), v))
		}
		return cs
	}
	nums := func(from, to int) []Expr {
		var out []Expr
		for i := from; i <= to; i++ {
			out = append(out, N(strconv.Itoa(i)))
		}
		return out
	}
	forms = append(forms,
		form{name: "nine number cases, string subject equal by coercion", subj: S("07"), cs: append(lits(nums(1, 9)...), with(ex(S("other")), V("o")))},
		form{name: "ten number cases, subject '1.0'", subj: S("1.0"), cs: lits(nums(0, 9)...)},
		form{name: "string case last of ten, a number case equal by coercion first", subj: S("x"), cs: lits(append(nums(0, 8), S("x"))...)},
		form{name: "twelve string cases, number subject", subj: N("7"), cs: append(lits(S("a"), S("b"), S("c"), S("d"), S("e"), S("f"), S("07"), S("7"), S("g"), S("h"), S("i"), S("j")), with(ex(S("other")), V("o")))},
		form{name: "eight number cases, boolean subject", subj: &BoolLit{V: true}, cs: lits(nums(2, 9)...)},
		form{name: "nine cases, true subject, 1 among them", subj: &BoolLit{V: true}, cs: lits(append(nums(3, 9), N("1"), S("true"))...)},
		form{name: "sixteen cases with an array pattern in the middle", subj: Arr(N("4")), cs: append(append(lits(nums(0, 7)...)[:0:0], with(ex(x), Arr(x))), lits(nums(0, 14)...)...)},
		form{name: "ten cases, duplicate literal: the first wins", subj: N("3"), cs: lits(N("1"), N("2"), S("3"), N("3"), N("4"), N("5"), N("6"), N("7"), N("8"), N("3"))},
		form{name: "ten cases, nothing matches", subj: S("zz9"), cs: lits(nums(1, 10)...)},
		form{name: "ten cases, empty string subject against 0", subj: S(""), cs: lits(append(nums(1, 9), N("0"))...)},
	)
	for _, f := range forms {
		p := &Program{Items: []any{&Rule{Kind: "BEGIN", Body: &Block{Stmts: append(append([]Stmt{}, pres[f.name]...), Pr(S("value"), jsonOf(&MatchExpr{Subj: f.subj, Cases: f.cs})), Pr(S("after")))}}}}
		c.NonTrivial("form:" + f.name)
		c.Count("enumerated_forms")
		m2(c, &M2Case{Prog: p, Desc: f.name})
	}
}

func c19Cases(tier string) int {
	if tier == "thorough" {
		return 1 + 3000000
	}
	return 1 + 60000
}

func init() {
	register(&Prop{
		ID: "C19", Level: "exploration",
		Rule:     "sampled: a target subject (scalar of every kind, arrays to length 4 nested to depth 3) and a case list of 1-5 cases x 1-4 alternatives built so that a chosen (case, alternative) is the FIRST that matches: earlier alternatives are non-matching by construction (other literal, array pattern of wrong length, right length with one differing element, array pattern on a scalar), the chosen one is derived from the subject (literals incl. equal-by-coercion, identifiers, _ , nested array patterns), later ones carry tripwires (bodies that print, the bad-escape literal '\\q' that errs only if evaluated); expression and block bodies use the bindings; match nested in match and in functions; applied to 1-5 subjects per run. 46 enumerated forms (incl. 15 with an unset subject or element: only a name matches it) (failing alternative kind x following kind, first of two matching, none matching, length +-1, coercion). Non-trivial = >= 2 cases or alternatives and the selected alternative is not the first; distinct by program+input. One in eight sampled case lists has 8-15 cases; 10 enumerated forms with 8-16 literal cases; 6 forms with names bound by an alternative that then fails.",
		NumCases: c19Cases,
		Run: func(c *Case) {
			if c.Idx == 0 {
				c19Enumerated(c)
				round8Hand(c, "C19")
			} else {
				c19Random(c)
			}
		},
		MinConclusive: func(tier string) int { return 5000 },
		Assumptions:   []string{"match semantics of DESIGN.md section 3.9; literal pattern against a container subject (error vs no match), repeated names are [P] and not generated"},
	})
}
