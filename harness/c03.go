package main

// C03 — input is a JSON value stream: incremental, chunking-independent, faults reported.
// Monitor M5 (reader/writer ledger, in-process) and M8 (syscall-level, binary).

import (
	"bytes"
	"encoding/json"
	"errors"
	"fmt"
	"io"
	"math/rand/v2"
	"os"
	"os/exec"
	"path/filepath"
	"strconv"
	"strings"
	"syscall"
	"time"
)

const c03Prog = "BEGINFILE { n = n + 1; print 'BF', n } { c = c + 1; s = s + 1; print 'R', c, $ } ENDFILE { print 'EF', n, s }"

func c03Program() *Program {
	n, cc, s := V("n"), V("c"), V("s")
	return &Program{Items: []any{
		&Rule{Kind: "BEGINFILE", Body: Blk(asg(n, Bin("+", n, N("1"))), Pr(S("BF"), n))},
		&Rule{Kind: "pattern", Body: Blk(asg(cc, Bin("+", cc, N("1"))), asg(s, Bin("+", s, N("1"))), Pr(S("R"), cc, V("$")))},
		&Rule{Kind: "ENDFILE", Body: Blk(Pr(S("EF"), n, s))},
	}}
}

// ---- the ledger: an instrumented reader and writer sharing one view

type readStep struct {
	n   int   // bytes to hand out (0 allowed)
	err error // error returned together with these bytes (nil, io.EOF or a fault)
}

type ledger struct {
	data     []byte
	plan     []readStep
	step     int
	handed   int
	out      bytes.Buffer
	ends     []int // end offsets of the complete values
	needLen  []int // expected output length once value i has been processed
	calls    int
	maxPend  int
	fault    string
	lagHist  map[int]int
	doneFlag bool
}

func (l *ledger) Write(p []byte) (int, error) { return l.out.Write(p) }

func (l *ledger) Read(p []byte) (int, error) {
	l.calls++
	// invariant at every Read call: every value that, together with one further byte, has
	// been handed out already has its complete output written
	pend := 0
	for i, e := range l.ends {
		if e+1 <= l.handed && l.out.Len() < l.needLen[i] {
			pend++
			if l.fault == "" {
				l.fault = fmt.Sprintf("Read call #%d issued after %d bytes were handed out, but the output of value %d (ends at byte %d) is not written yet (%d of %d output bytes)", l.calls, l.handed, i+1, e, l.out.Len(), l.needLen[i])
			}
		}
	}
	if pend > l.maxPend {
		l.maxPend = pend
	}
	if l.step >= len(l.plan) {
		return 0, io.EOF
	}
	st := l.plan[l.step]
	l.step++
	n := st.n
	if n > len(p) {
		// the caller's buffer is smaller than the planned chunk: split the step
		l.plan = append(l.plan[:l.step], append([]readStep{{n: n - len(p), err: st.err}}, l.plan[l.step:]...)...)
		n = len(p)
		st.err = nil
	}
	copy(p, l.data[l.handed:l.handed+n])
	l.handed += n
	return n, st.err
}

var errInjected = errors.New("injected read fault EIO")

// plans for delivering data[:upto] followed by end (io.EOF or a fault)
func chunkPlan(rng *rand.Rand, total int, kind int, end error) []readStep {
	var plan []readStep
	add := func(n int) { plan = append(plan, readStep{n: n}) }
	switch kind {
	case 0:
		for i := 0; i < total; i++ {
			add(1)
		}
	case 1:
		for i := 0; i < total; i += 2 {
			add(min(2, total-i))
		}
	case 2:
		for i := 0; i < total; i += 7 {
			add(min(7, total-i))
		}
	case 3:
		add(total)
	default:
		for i := 0; i < total; {
			n := 1 + rng.IntN(min(24, total-i))
			add(n)
			i += n
			if rng.IntN(6) == 0 {
				add(0) // a read that returns (0, nil)
			}
		}
	}
	switch {
	case end == io.EOF && rng.IntN(2) == 0 && len(plan) > 0:
		plan[len(plan)-1].err = io.EOF // final (n, io.EOF)
	case end == io.EOF:
		plan = append(plan, readStep{0, io.EOF})
	case rng.IntN(2) == 0 && len(plan) > 0:
		plan[len(plan)-1].err = end // fault delivered together with the last bytes: (n>0, err)
	default:
		plan = append(plan, readStep{0, end}) // (0, err)
	}
	return plan
}

// ---- expected outputs

type c03Expect struct {
	outs map[string][]int // cache: key of value list -> cumulative output lengths
	full map[string]string
}

func c03Outputs(vals [][]byte) ([]int, string) {
	l, o, _ := c03OutputsE(vals)
	return l, o
}

func c03OutputsE(vals [][]byte) ([]int, string, bool) {
	var decoded []any
	lens := make([]int, 0, len(vals))
	p := c03Program()
	out := ""
	for _, v := range vals {
		g, _, err := decodeOne(v)
		if err != nil {
			// syntactically valid but not representable (1e312): unspecified, the caller skips the case
			return nil, "", false
		}
		decoded = append(decoded, g)
		mo := RunModel(p, []MInput{{Name: "stream.json", Values: decoded}}, nil, ModelOpts{Budget: 100000000})
		out = mo.Stdout
		lens = append(lens, len(out))
	}
	return lens, out, true
}

// ---- streams

var c03Scalars = []string{"1", "0", "-2.5", "1e3", "12", "true", "false", "null", "\"s\"", "\"a b\"", "\"\\u00e9\\n\"", "\"\"", "3.25E-2"}

func c03Value(rng *rand.Rand, depth int) string {
	if depth <= 0 || rng.IntN(3) == 0 {
		return c03Scalars[rng.IntN(len(c03Scalars))]
	}
	if rng.IntN(2) == 0 {
		n := rng.IntN(4)
		parts := make([]string, n)
		for i := range parts {
			parts[i] = c03Value(rng, depth-1)
		}
		return "[" + strings.Join(parts, []string{",", ", ", " ,\n"}[rng.IntN(3)]) + "]"
	}
	n := rng.IntN(3)
	parts := make([]string, n)
	for i := range parts {
		parts[i] = fmt.Sprintf("\"k%d\":%s%s", i, []string{"", " "}[rng.IntN(2)], c03Value(rng, depth-1))
	}
	return "{" + strings.Join(parts, ",") + "}"
}

func c03Stream(rng *rand.Rand) []byte {
	var sb strings.Builder
	n := 1 + rng.IntN(6)
	sb.WriteString([]string{"", " ", "\n"}[rng.IntN(3)])
	prevScalar := false
	for i := 0; i < n; i++ {
		v := c03Value(rng, 2)
		scalar := v[0] != '[' && v[0] != '{'
		sep := []string{"", " ", "\n", "\r\n", "\t", "  \n "}[rng.IntN(6)]
		if i > 0 && sep == "" && prevScalar && scalar {
			sep = " " // two scalars need a separator to stay two values (12 34); everything else may touch
		}
		if i > 0 {
			sb.WriteString(sep)
		}
		sb.WriteString(v)
		prevScalar = scalar
	}
	sb.WriteString([]string{"", "\n", " ", "\n\n"}[rng.IntN(4)])
	return []byte(sb.String())
}

type c03Stats struct {
	runs, readCalls, maxPending int
}

// c03RunOne runs data[:len(data)] through plan and checks (a) the ledger invariant, (c)/(d) outcome and output.
// endsWithFault: the reader ends with an injected error instead of EOF.
func c03RunOne(c *Case, data []byte, plan []readStep, fault bool, desc string) (string, string, bool) {
	sp := splitStream(data)
	var vals [][]byte
	var ends []int
	for _, v := range sp.values {
		vals = append(vals, data[v.start:v.end])
		ends = append(ends, v.end)
		if !json.Valid(data[v.start:v.end]) {
			c.Violation("internal: splitter accepted a value that encoding/json rejects: "+string(data[v.start:v.end]), []string{"pinned:internal"}, nil)
			return "", "", false
		}
	}
	lens, full, representable := c03OutputsE(vals)
	if !representable {
		c.Inconclusive("number-not-representable")
		return "", "", true
	}
	lg := &ledger{data: data, plan: plan, ends: ends, needLen: lens}
	lib := RunLib(c03Prog, []InFile{{Name: "stream.json", Reader: lg}}, nil, RunOpts{Stdout: lg, Budget: 2000000})
	c.Count("runs")
	c.CountN("read_calls", lg.calls)
	c.Max("max_pending_values_at_a_read_call", lg.maxPend)
	c.Max("max_read_calls_in_one_run", lg.calls)
	rp := map[string]any{"stream": string(data), "plan": fmt.Sprint(plan), "program": c03Prog, "observed_stdout": string(lib.Stdout), "observed_class": lib.Class, "observed_msg": lib.Msg, "expected_stdout": full}
	if lib.Class == "panic" || lib.Class == "budget" || strings.HasPrefix(lib.Class, "sentinel") || lib.Class == "other-error" {
		c.Violation(fmt.Sprintf("%s: run ended as %s (%s %s)", desc, lib.Class, lib.Msg, lib.PanicVal), nil, rp)
		return "", "", false
	}
	if lg.fault != "" {
		c.Violation(desc+": not incremental: "+lg.fault+" | stream "+describeBytes(data), nil, rp)
		return "", "", false
	}
	// expected outcome
	wantErr := fault || sp.status != "clean"
	got := string(lib.Stdout)
	okOut := got == full || sameLinesOrderFree(full, got) // the order in which object keys are printed is unspecified
	if fault && !okOut && len(vals) > 0 && sp.status == "clean" {
		// a reader error directly after a scalar: the scalar may or may not count as complete
		last := vals[len(vals)-1]
		if last[0] != '[' && last[0] != '{' && sp.lastEnd == len(data) {
			_, alt := c03Outputs(vals[:len(vals)-1])
			okOut = got == alt || sameLinesOrderFree(alt, got)
		}
	}
	switch {
	case wantErr && lib.Class != "json":
		c.Violation(fmt.Sprintf("%s: the stream is %s but the run ended as %s: not reported as a JSON input error | stream %s", desc, c03Status(sp, fault), lib.Class, describeBytes(data)), nil, rp)
		return "", "", false
	case wantErr && lib.FileName != "stream.json":
		c.Violation(fmt.Sprintf("%s: JSON error does not name the file (got %q)", desc, lib.FileName), nil, rp)
		return "", "", false
	case !wantErr && lib.Class != "ok":
		c.Violation(fmt.Sprintf("%s: clean stream ended as %s (%s) | stream %s", desc, lib.Class, lib.Msg, describeBytes(data)), nil, rp)
		return "", "", false
	case !okOut:
		c.Violation(fmt.Sprintf("%s: output is not the output of the %d complete values: %s | stream %s", desc, len(vals), diffAt(full, got), describeBytes(data)), nil, rp)
		return "", "", false
	}
	c.Held()
	return lib.Class, got, true
}

func c03Status(sp splitResult, fault bool) string {
	if sp.status != "clean" {
		return fmt.Sprintf("%s at byte %d", sp.status, sp.at)
	}
	if fault {
		return "cut by a read error"
	}
	return "clean"
}

func c03InProcess(c *Case) {
	rng := c.Rng
	data := c03Stream(rng)
	sp := splitStream(data)
	if sp.status != "clean" {
		c.Violation("internal: generated stream is not clean: "+string(data), []string{"pinned:internal"}, nil)
		return
	}
	nv := len(sp.values)
	c.Count("streams")
	c.CountN("stream_values", nv)
	if c.Idx%300 == 1 {
		c.Sample(map[string]any{"stream": string(data), "values": nv, "program": c03Prog})
	}
	mark := func(kind string, pos int) {
		if nv >= 2 {
			c.NonTrivial(fmt.Sprintf("%s|%d|%s", kind, pos, data))
		}
	}
	// (b) chunking independence on the intact stream: every plan must agree with the first
	var refClass, refOut string
	for k := 0; k < 12; k++ {
		kind := k
		if k > 3 {
			kind = 4
		}
		cl, out, ok := c03RunOne(c, data, chunkPlan(rng, len(data), kind, io.EOF), false, fmt.Sprintf("chunk plan %d", k))
		if !ok {
			return
		}
		mark("chunk", k)
		if k == 0 {
			refClass, refOut = cl, out
		} else if cl != refClass || (out != refOut && !sameLinesOrderFree(refOut, out)) {
			c.Violation(fmt.Sprintf("chunk plan %d gives a different result than one byte per read: %s vs %s | stream %s", k, cl, refClass, describeBytes(data)), nil, map[string]any{"stream": string(data)})
			return
		}
	}
	// every truncation point
	for cut := 0; cut < len(data); cut++ {
		if _, _, ok := c03RunOne(c, data[:cut], chunkPlan(rng, cut, 2+rng.IntN(3), io.EOF), false, fmt.Sprintf("truncated after %d bytes", cut)); !ok {
			return
		}
		mark("trunc", cut)
	}
	// a reader error at every offset, delivered as (0, err) or as (n>0, err)
	for cut := 0; cut <= len(data); cut++ {
		for rep := 0; rep < 2; rep++ {
			if _, _, ok := c03RunOne(c, data[:cut], chunkPlan(rng, cut, rng.IntN(5), errInjected), true, fmt.Sprintf("read error after %d bytes", cut)); !ok {
				return
			}
		}
		mark("fault", cut)
	}
	// single-byte corruptions: every deletion, sampled substitutions / insertions (structural bytes favoured)
	structural := []byte("[]{},:\"] }x0-\\ \x1e\x00\x0c\x1f\x7f\x0b\x85\xa0\x1c\x1d")
	for i := 0; i < len(data); i++ {
		del := append(append([]byte{}, data[:i]...), data[i+1:]...)
		if _, _, ok := c03RunOne(c, del, chunkPlan(rng, len(del), 3+rng.IntN(2), io.EOF), false, fmt.Sprintf("byte %d deleted", i)); !ok {
			return
		}
		mark("del", i)
		if rng.IntN(3) == 0 {
			sub := append([]byte{}, data...)
			sub[i] = structural[rng.IntN(len(structural))]
			if _, _, ok := c03RunOne(c, sub, chunkPlan(rng, len(sub), 4, io.EOF), false, fmt.Sprintf("byte %d replaced by %q", i, sub[i])); !ok {
				return
			}
			mark("sub", i)
		}
		if rng.IntN(4) == 0 {
			b := structural[rng.IntN(len(structural))]
			ins := append(append(append([]byte{}, data[:i]...), b), data[i:]...)
			if _, _, ok := c03RunOne(c, ins, chunkPlan(rng, len(ins), 4, io.EOF), false, fmt.Sprintf("%q inserted at %d", b, i)); !ok {
				return
			}
			mark("ins", i)
		}
	}
}

// fixed streams named in the property
func c03Fixed(c *Case) {
	rng := c.Rng
	for _, s := range []string{"[1] ] [2]", "[1] } [2]", "[1] [2] ]", "1 2 ]", "{\"a\":1} , {\"b\":2}", "[1]x[2]", "12x", "1[2]", "01", "\"a\"\"b\"", "truefalse", "[1][2]{}{}", "[1]\x0c[2]", "\xef\xbb\xbf[1]", "", "   ", "nul", "[1,]", "[1 2]", "{\"a\" 1}", "[1]]", "1.5.5", "-", "\"unterminated", "[\"a\\x\"]", "1e5 2e", "[[[[[1]]]]] [", "{}{}{", "[1]\n[2]\n[3"} {
		for k := 0; k < 4; k++ {
			c.NonTrivial("fixed:" + s)
			c.Count("fixed_streams")
			if _, _, ok := c03RunOne(c, []byte(s), chunkPlan(rng, len(s), k, io.EOF), false, fmt.Sprintf("fixed stream %q", s)); !ok {
				break
			}
		}
	}
}

// the outcome of a damaged stream does not depend on the shape of the program: whatever rules it has (or none), the
// input is read to its end and the damage is reported
func c03Shapes(c *Case) {
	progs := []string{"", "BEGIN { print 'b' }", "END { print 'e' }", "BEGIN { print 'b' } END { print 'e' }", "BEGINFILE { print 'bf' }", "ENDFILE { print 'ef' }", "{ }", "0 { print 'never' }",
		"function f() { return 1 }", "BEGIN { x = 1 }", "BEGIN { print 'b' } BEGIN { print 'b2' }", "BEGIN { exit }", "1", "{ print }"}
	streams := []struct {
		data string
		bad  bool
	}{{"[1] [2", true}, {"{\"a\": ", true}, {"[1] ] [2]", true}, {"1 x 2", true}, {"[1]\x1e[2]", true}, {"{\"k\":\"a\x1eb\"}", true}, {"7\x1e8", true}, {"nul", true}, {"[1,]", true}, {"\"abc", true},
		{"[1] [2]", false}, {"", false}, {" \n ", false}, {"{\"a\": [1, {\"b\": null}]} 3 \"s\"", false}}
	for _, p := range progs {
		for _, st := range streams {
			if p == "BEGIN { exit }" {
				continue // exit in BEGIN ends the run before any input is wanted
			}
			lib := RunLib(p, []InFile{{Name: "stream.json", Data: []byte(st.data)}}, nil, RunOpts{Budget: 100000})
			c.NonTrivial("shape:" + p + "|" + st.data)
			c.Count("program_shapes_x_streams")
			switch {
			case st.bad && lib.Class != "json":
				c.Violation(fmt.Sprintf("program %q on the damaged stream %q ended as %s (%s): the damage is not reported as a JSON input error", p, st.data, lib.Class, lib.Msg), nil, map[string]any{"program": p, "stream": st.data})
			case !st.bad && lib.Class != "ok":
				c.Violation(fmt.Sprintf("program %q on the clean stream %q ended as %s (%s)", p, st.data, lib.Class, lib.Msg), nil, map[string]any{"program": p, "stream": st.data})
			default:
				c.Held()
			}
		}
	}
}

// a value kept by the program stays what it was when later values of the same input are read (a stream is the values
// one after another): roots of every kind retained in BEGINFILE / rules / ENDFILE and printed at END
func c03Retention(c *Case) {
	progs := []*Program{
		{Items: []any{&Rule{Kind: "BEGINFILE", Body: Blk(asg(Idx(V("kept"), V("n")), V("$")), asg(V("n"), Bin("+", V("n"), N("1"))))}, &Rule{Kind: "END", Body: Blk(Pr(V("n"), jsonOf(V("kept"))))}}},
		{Items: []any{&Rule{Kind: "BEGINFILE", Body: Blk(&If{C: Bin("==", &Paren{X: &IncDec{Op: "++", X: V("n")}}, N("0")), Then: Blk(asg(V("first"), V("$")))})}, &Rule{Kind: "ENDFILE", Body: Blk(asg(V("last"), V("$")))}, &Rule{Kind: "END", Body: Blk(Pr(jsonOf(V("first")), jsonOf(V("last"))))}}},
		{Items: []any{&Rule{Kind: "pattern", Body: Blk(ES(Meth(V("elems"), "push", V("$"))))}, &Rule{Kind: "BEGIN", Body: Blk(asg(V("elems"), Arr()))}, &Rule{Kind: "END", Body: Blk(Pr(jsonOf(V("elems"))))}}},
	}
	streams := []string{"[1,2,3] [7,8] [9]", "[1,2,3]\n[4,5,6]\n[7,8,9]\n", "[[1,2],[3]] [[4]] []", "[1] [2,3] [4,5,6] [7]", "{\"a\":[1,2]} {\"a\":[3]} {\"a\":[]}", "[\"x\",\"y\"] [\"z\"] 5 [null,null,null]", "[[1,[2,[3]]]] [[4,[5]]] [[6]]", "[] [] [1] []"}
	for pi, p := range progs {
		for _, st := range streams {
			c.NonTrivial(fmt.Sprintf("retention:%d:%s", pi, st))
			c.Count("retained_root_programs")
			m2(c, &M2Case{Prog: p, Files: []InFile{{Name: "stream.json", Data: []byte(st)}}, Desc: "roots retained across the values of one input"})
		}
	}
}

// streams with one very large value (beyond any internal buffer size) followed by small ones
func c03Big(c *Case) {
	rng := c.Rng
	bigs := []func(n int) string{
		func(n int) string { return "[\"" + strings.Repeat("x", n) + "\"]" },
		func(n int) string { return "\"" + strings.Repeat("é", n/2) + "\"" },
		func(n int) string {
			var sb strings.Builder
			sb.WriteByte('[')
			for i := 0; sb.Len() < n; i++ {
				if i > 0 {
					sb.WriteByte(',')
				}
				sb.WriteString(strconv.Itoa(i))
			}
			sb.WriteByte(']')
			return sb.String()
		},
		func(n int) string {
			var sb strings.Builder
			sb.WriteByte('{')
			for i := 0; sb.Len() < n; i++ {
				if i > 0 {
					sb.WriteByte(',')
				}
				fmt.Fprintf(&sb, "\"k%06d\":[%d]", i, i)
			}
			sb.WriteByte('}')
			return sb.String()
		},
	}
	for _, size := range []int{4090, 4097, 65530, 65537, 70000, 200000, 1 << 20} {
		for bi, mk := range bigs {
			if size > 250000 && bi != 0 {
				continue
			}
			for _, where := range []string{"first", "middle", "last"} {
				small := []string{"[1]", "{\"a\":2}", "3", "\"t\"", "[4,5]"}
				big := mk(size)
				var parts []string
				switch where {
				case "first":
					parts = append([]string{big}, small...)
				case "middle":
					parts = append(append(append([]string{}, small[:2]...), big), small[2:]...)
				default:
					parts = append(append([]string{}, small...), big)
				}
				data := []byte(strings.Join(parts, []string{"\n", " ", ""}[rng.IntN(3)]) + "\n")
				sp := splitStream(data)
				// plans: everything at once; one value per read; 64 KiB blocks; 4 KiB blocks; big blocks of random size
				var plans [][]readStep
				plans = append(plans, []readStep{{n: len(data)}, {0, io.EOF}})
				var per []readStep
				prev := 0
				for _, v := range sp.values {
					per = append(per, readStep{n: v.end - prev})
					prev = v.end
				}
				per = append(per, readStep{n: len(data) - prev}, readStep{0, io.EOF})
				plans = append(plans, per)
				for _, blk := range []int{65536, 4096, 512 + rng.IntN(30000)} {
					var pl []readStep
					for i := 0; i < len(data); i += blk {
						pl = append(pl, readStep{n: min(blk, len(data)-i)})
					}
					plans = append(plans, append(pl, readStep{0, io.EOF}))
				}
				c.NonTrivial(fmt.Sprintf("big:%d:%d:%s", size, bi, where))
				c.Count("big_value_streams")
				var ref string
				for k, pl := range plans {
					_, out, ok := c03RunOne(c, data, pl, false, fmt.Sprintf("stream with a %d-byte value (%s), plan %d", len(big), where, k))
					if !ok {
						return
					}
					if k == 0 {
						ref = out
					} else if out != ref && !sameLinesOrderFree(ref, out) {
						c.Violation(fmt.Sprintf("stream with a %d-byte value (%s): read plan %d gives different output than a single read: %s", len(big), where, k, diffAt(ref, out)), nil, map[string]any{"value_bytes": len(big), "position": where, "plan": k})
						return
					}
				}
			}
		}
	}
}

// ---- binary level

func c03Cli(c *Case) {
	rng := c.Rng
	data := c03Stream(rng)
	sp := splitStream(data)
	nv := len(sp.values)
	var vals [][]byte
	for _, v := range sp.values {
		vals = append(vals, data[v.start:v.end])
	}
	lens, full := c03Outputs(vals)
	c.Count("cli_streams")
	// feed chunk by chunk through a pipe; after each chunk wait until the process is blocked in read(0)
	// two ways in: the standard input, or a named pipe given as a file argument (every third case)
	fifo := ""
	if c.Idx%3 == 0 {
		fifo = filepath.Join(c.env.Scratch, fmt.Sprintf("in-%d.fifo", c.Idx))
		os.Remove(fifo)
		if err := syscall.Mkfifo(fifo, 0o600); err != nil {
			fifo = ""
		} else {
			defer os.Remove(fifo)
		}
	}
	var cmd *exec.Cmd
	var stdin io.WriteCloser
	if fifo != "" {
		cmd = exec.Command(c.env.Jqawk, "--", c03Prog, fifo)
		cmd.Stdin = bytes.NewReader(nil)
		c.Count("cli_streams_through_a_named_pipe")
	} else {
		cmd = exec.Command(c.env.Jqawk, "--", c03Prog)
		stdin, _ = cmd.StdinPipe()
	}
	var out lockedBuf
	cmd.Stdout = &out
	outLen, outString := out.Len, out.String
	if c.Idx%4 == 1 {
		// standard output redirected to a regular file (as in `jqawk ... > out.txt`): what is written is what the file holds
		path := filepath.Join(c.env.Scratch, fmt.Sprintf("out-%d.txt", c.Idx))
		if f, err := os.Create(path); err == nil {
			defer os.Remove(path)
			defer f.Close()
			cmd.Stdout = f
			outLen = func() int {
				if st, err := os.Stat(path); err == nil {
					return int(st.Size())
				}
				return 0
			}
			outString = func() string { b, _ := os.ReadFile(path); return string(b) }
			c.Count("cli_streams_with_stdout_in_a_regular_file")
		}
	}
	var errb bytes.Buffer
	cmd.Stderr = &errb
	if err := cmd.Start(); err != nil {
		c.Inconclusive("cli-start-failed")
		return
	}
	heartbeat()
	pid := cmd.Process.Pid
	if fifo != "" {
		// opening the write side returns once the program has opened the pipe for reading
		opened := make(chan *os.File, 1)
		go func() {
			f, err := os.OpenFile(fifo, os.O_WRONLY, 0)
			if err != nil {
				f = nil
			}
			opened <- f
		}()
		select {
		case f := <-opened:
			if f == nil {
				cmd.Process.Kill()
				cmd.Wait()
				c.Inconclusive("cli-fifo-open-failed")
				return
			}
			stdin = f
		case <-time.After(20 * time.Second):
			cmd.Process.Kill()
			cmd.Wait()
			if f, err := os.OpenFile(fifo, os.O_RDONLY|syscall.O_NONBLOCK, 0); err == nil { // release our blocked opener
				f.Close()
			}
			c.Inconclusive("cli-fifo-never-opened")
			return
		}
	}
	fed := 0
	bad := ""
	for fed < len(data) {
		n := 1 + rng.IntN(min(16, len(data)-fed))
		stdin.Write(data[fed : fed+n])
		fed += n
		quiet := false
		if fifo != "" {
			quiet = waitIdle(pid, 5*time.Second)
		} else {
			quiet = waitBlockedInRead(pid, 5*time.Second)
		}
		if !quiet && procEnded(pid) && fed < len(data) && len(bytes.TrimSpace(data[fed:])) > 0 {
			// a state, not a deadline: the process has ended although its input is still open and more of the (clean) stream is to come
			bad = fmt.Sprintf("the process ended after %d of %d input bytes had been delivered, although the writer had not closed the input (%s)", fed, len(data),
				map[bool]string{true: "a named pipe given as a file", false: "standard input"}[fifo != ""])
			c.Count("cli_ended_before_end_of_input")
			break
		}
		if !quiet {
			c.Inconclusive("cli-not-quiescent")
			bad = "skip"
			break
		}
		// which values are complete with one further byte delivered?
		need := 0
		for i, v := range sp.values {
			if v.end+1 <= fed {
				need = lens[i]
			}
		}
		got := outLen()
		if got < need {
			time.Sleep(300 * time.Millisecond) // the writes are in the pipe; give our collector a moment
			got = outLen()
		}
		c.Count("cli_quiescent_points_checked")
		if got < need {
			bad = fmt.Sprintf("after %d bytes the process is waiting for input (%s) but only %d of the %d output bytes due for the complete values so far are written", fed, map[bool]string{true: "all threads asleep, no CPU time used between two observations; input is a named pipe given as a file", false: "blocked in read(0)"}[fifo != ""], got, need)
			break
		}
	}
	stdin.Close()
	done := make(chan error, 1)
	go func() { done <- cmd.Wait() }()
	select {
	case <-done:
	case <-time.After(20 * time.Second):
		cmd.Process.Kill()
		c.Inconclusive("cli-timeout")
		return
	}
	if bad == "skip" {
		return
	}
	if nv >= 2 {
		c.NonTrivial("cli:" + string(data))
	}
	if bad != "" {
		c.Violation("binary, stdin fed chunk by chunk: "+bad+" | stream "+describeBytes(data), nil, map[string]any{"stream": string(data)})
		return
	}
	if (outString() != full && !sameLinesOrderFree(full, outString())) || cmd.ProcessState.ExitCode() != 0 {
		c.Violation(fmt.Sprintf("binary on a clean stream: exit %d, stdout differs from the expected output of %d values: %s", cmd.ProcessState.ExitCode(), nv, diffAt(full, outString())), nil, map[string]any{"stream": string(data), "stderr": errb.String()})
		return
	}
	c.Held()
}

// c03LaterPipe: two file operands, a regular file holding a complete stream and then a named pipe that has no
// writer yet. The values of the first file are processed, and their output written, without waiting for the second
// input to become available; when the pipe is then fed, its values follow.
func c03LaterPipe(c *Case) {
	for k := 0; k < 6; k++ {
		rng := caseRng(c.Seed, "C03-later-pipe", k)
		d1, d2 := c03Stream(rng), c03Stream(rng)
		var vals [][]byte
		n1 := 0
		for i, data := range [][]byte{d1, d2} {
			for _, v := range splitStream(data).values {
				vals = append(vals, data[v.start:v.end])
			}
			if i == 0 {
				n1 = len(vals)
			}
		}
		lens, full := c03Outputs(vals)
		full1, full2 := "", full
		if n1 > 0 {
			full1, full2 = full[:lens[n1-1]], full[lens[n1-1]:]
		}
		first := filepath.Join(c.env.Scratch, fmt.Sprintf("first-%d.json", k))
		fifo := filepath.Join(c.env.Scratch, fmt.Sprintf("later-%d.fifo", k))
		os.Remove(fifo)
		if os.WriteFile(first, d1, 0o644) != nil || syscall.Mkfifo(fifo, 0o600) != nil {
			c.Inconclusive("cli-fifo-setup-failed")
			continue
		}
		cmd := exec.Command(c.env.Jqawk, "--", c03Prog, first, fifo)
		cmd.Stdin = bytes.NewReader(nil)
		var out lockedBuf
		var errb bytes.Buffer
		cmd.Stdout, cmd.Stderr = &out, &errb
		if err := cmd.Start(); err != nil {
			c.Inconclusive("cli-start-failed")
			os.Remove(fifo)
			continue
		}
		heartbeat()
		quiet := waitIdle(cmd.Process.Pid, 5*time.Second)
		got := out.Len()
		if quiet && got < len(full1) {
			time.Sleep(300 * time.Millisecond)
			got = out.Len()
		}
		// now give the pipe its writer and its values
		fed := make(chan bool, 1)
		go func() {
			f, err := os.OpenFile(fifo, os.O_WRONLY, 0)
			if err != nil {
				fed <- false
				return
			}
			f.Write(d2)
			f.Close()
			fed <- true
		}()
		done := make(chan error, 1)
		go func() { done <- cmd.Wait() }()
		timedOut := false
		select {
		case <-done:
		case <-time.After(20 * time.Second):
			cmd.Process.Kill()
			timedOut = true
		}
		if f, err := os.OpenFile(fifo, os.O_RDONLY|syscall.O_NONBLOCK, 0); err == nil { // release a writer that is still blocked
			f.Close()
		}
		select {
		case <-fed:
		case <-time.After(5 * time.Second):
		}
		os.Remove(fifo)
		os.Remove(first)
		c.Count("cli_streams_with_a_later_named_pipe")
		switch {
		case timedOut:
			c.Inconclusive("cli-timeout")
		case !quiet && ((out.String() != full1+full2 && !sameLinesOrderFree(full1+full2, out.String())) || cmd.ProcessState.ExitCode() != 0):
			// the waiting state was not observed, but the process has ended by itself and what it wrote is wrong: decisive all the same
			c.NonTrivial("later-pipe:" + string(d1))
			c.Violation(fmt.Sprintf("binary, a file followed by a named pipe: exit %d, stdout differs from the expected output: %s", cmd.ProcessState.ExitCode(), diffAt(full1+full2, out.String())), nil, map[string]any{"first": string(d1), "second": string(d2), "stderr": errb.String()})
		case !quiet:
			c.Inconclusive("cli-not-quiescent")
		case got < len(full1):
			c.NonTrivial("later-pipe:" + string(d1))
			c.Violation(fmt.Sprintf("binary, a file followed by a named pipe without a writer: the process is waiting (all threads asleep) but only %d of the %d output bytes of the first file's values are written | first file %s", got, len(full1), describeBytes(d1)), nil, map[string]any{"first": string(d1), "second": string(d2)})
		case (out.String() != full1+full2 && !sameLinesOrderFree(full1+full2, out.String())) || cmd.ProcessState.ExitCode() != 0:
			c.NonTrivial("later-pipe:" + string(d1))
			c.Violation(fmt.Sprintf("binary, a file followed by a named pipe: exit %d, stdout differs from the expected output: %s", cmd.ProcessState.ExitCode(), diffAt(full1+full2, out.String())), nil, map[string]any{"first": string(d1), "second": string(d2), "stderr": errb.String()})
		default:
			c.NonTrivial("later-pipe:" + string(d1))
			c.Held()
		}
	}
}

type lockedBuf struct {
	mu chan struct{}
	b  bytes.Buffer
}

func (l *lockedBuf) lock() {
	if l.mu == nil {
		l.mu = make(chan struct{}, 1)
	}
	l.mu <- struct{}{}
}
func (l *lockedBuf) unlock()                     { <-l.mu }
func (l *lockedBuf) Write(p []byte) (int, error) { l.lock(); defer l.unlock(); return l.b.Write(p) }
func (l *lockedBuf) Len() int                    { l.lock(); defer l.unlock(); return l.b.Len() }
func (l *lockedBuf) String() string              { l.lock(); defer l.unlock(); return l.b.String() }

// waitIdle: every thread of pid sleeps in the kernel and the process used no CPU time between two
// observations 30 ms apart (a state, not a deadline: the timeout only makes the case inconclusive).
// Used where the input is polled by the runtime rather than read with a blocking read(2).
// procEnded: the process is a zombie (it has exited and we have not yet waited for it) or is gone.
func procEnded(pid int) bool {
	b, err := os.ReadFile(fmt.Sprintf("/proc/%d/stat", pid))
	if err != nil {
		return true
	}
	s := string(b)
	i := strings.LastIndexByte(s, ')')
	f := strings.Fields(s[i+1:])
	return len(f) > 0 && (f[0] == "Z" || f[0] == "X")
}

func waitIdle(pid int, max time.Duration) bool {
	deadline := time.Now().Add(max)
	snap := func() (string, bool) {
		tasks, _ := filepath.Glob(fmt.Sprintf("/proc/%d/task/*/stat", pid))
		if len(tasks) == 0 {
			return "", false
		}
		var sb strings.Builder
		for _, t := range tasks {
			b, err := os.ReadFile(t)
			if err != nil {
				return "", false
			}
			s := string(b)
			i := strings.LastIndexByte(s, ')')
			f := strings.Fields(s[i+1:])
			if len(f) < 14 || f[0] != "S" {
				return "", false
			}
			sb.WriteString(t + ":" + f[11] + "," + f[12] + ";") // utime, stime
		}
		return sb.String(), true
	}
	for time.Now().Before(deadline) {
		a, ok := snap()
		if ok {
			time.Sleep(30 * time.Millisecond)
			if b, ok2 := snap(); ok2 && a == b {
				return true
			}
			continue
		}
		time.Sleep(2 * time.Millisecond)
	}
	return false
}

// waitBlockedInRead: some thread of pid is inside read(2) on fd 0 (a state, not a deadline: the
// timeout only makes the case inconclusive).
func waitBlockedInRead(pid int, max time.Duration) bool {
	deadline := time.Now().Add(max)
	for time.Now().Before(deadline) {
		tasks, _ := filepath.Glob(fmt.Sprintf("/proc/%d/task/*/syscall", pid))
		for _, t := range tasks {
			b, err := os.ReadFile(t)
			if err != nil {
				continue
			}
			f := strings.Fields(string(b))
			if len(f) >= 2 && f[0] == "0" && f[1] == "0x0" {
				return true
			}
		}
		time.Sleep(2 * time.Millisecond)
	}
	return false
}

func c03CliFaults(c *Case) {
	dir := c.env.Scratch
	// unreadable inputs: a directory, /proc/self/mem
	for _, in := range []string{dir, "/proc/self/mem"} {
		r := RunCli(c.env.Jqawk, []string{"--", c03Prog, in}, nil, dir, 120*time.Second)
		if r.TimedOut {
			c.Inconclusive("binary-watchdog")
			continue
		}
		c.NonTrivial("unreadable:" + in)
		c.Count("cli_unreadable_inputs")
		if f := cliFault(r); f != "" {
			c.Violation("binary on unreadable input "+in+": "+f, nil, nil)
			continue
		}
		if r.Exit == 0 || !strings.Contains(string(r.Stderr), "could not parse") {
			c.Violation(fmt.Sprintf("binary on unreadable input %s: exit %d, stderr %q; expected a JSON input error naming the file", in, r.Exit, clip(string(r.Stderr), 100)), nil, map[string]any{"input": in})
			continue
		}
		c.Held()
	}
	// EIO injected by strace on the Nth read of a file larger than the decoder's buffer
	if _, err := exec.LookPath("strace"); err != nil {
		c.Inconclusive("strace-missing")
		return
	}
	var sb strings.Builder
	for i := 0; i < 400; i++ {
		fmt.Fprintf(&sb, "[%d, %d]\n", i, i*2)
	}
	path := filepath.Join(dir, "big.json")
	os.WriteFile(path, []byte(sb.String()), 0o644)
	defer os.Remove(path)
	for _, n := range []int{1, 2, 3} {
		heartbeat()
		logf := filepath.Join(dir, fmt.Sprintf("strace.%d.log", n))
		cmd := exec.Command("strace", "-f", "-o", logf, "-P", path, "-e", "trace=read", "-e", fmt.Sprintf("inject=read:error=EIO:when=%d", n), c.env.Jqawk, "--", c03Prog, path)
		var so, se bytes.Buffer
		cmd.Stdout, cmd.Stderr = &so, &se
		err := cmd.Run()
		c.Count("cli_strace_injections")
		exit := 0
		if ee, ok := err.(*exec.ExitError); ok {
			exit = ee.ExitCode()
		} else if err != nil {
			c.Inconclusive("strace-failed")
			continue
		}
		if strings.Contains(se.String(), "ptrace") && exit != 0 && so.Len() == 0 && !strings.Contains(se.String(), "could not parse") {
			c.Inconclusive("strace-not-permitted")
			continue
		}
		slog, _ := os.ReadFile(logf)
		os.Remove(logf)
		if !bytes.Contains(slog, []byte("(INJECTED)")) {
			// the Nth read is counted per thread; the fault was not delivered in this run
			c.Inconclusive("strace-fault-not-delivered")
			continue
		}
		c.NonTrivial(fmt.Sprintf("strace:%d", n))
		lines := strings.Count(so.String(), "\n")
		if exit == 0 || !strings.Contains(se.String(), "could not parse "+path) {
			c.Violation(fmt.Sprintf("EIO injected on read #%d of the input file: exit %d after %d output lines, stderr %q; expected a JSON input error naming the file", n, exit, lines, clip(se.String(), 120)), nil, map[string]any{"read": n})
			continue
		}
		c.Held()
	}
}

func c03Cases(tier string) int {
	if tier == "thorough" {
		return 3 + 400 + 6000
	}
	return 3 + 40 + 600
}

func c03Run(c *Case) {
	ncli := 40
	if c.Tier == "thorough" {
		ncli = 400
	}
	switch {
	case c.Idx == 0:
		c03Fixed(c)
	case c.Idx == 1:
		c03CliFaults(c)
	case c.Idx == 2:
		c03Big(c)
		c03Shapes(c)
		c03Retention(c)
		c03LaterPipe(c)
	case c.Idx < 3+ncli:
		c03Cli(c)
	default:
		c03InProcess(c)
	}
}

func init() {
	register(&Prop{
		ID: "C03", Level: "fault_enumeration",
		Rule:          "fault enumeration per generated value stream (1-6 values: arrays, objects, scalars, separators none/space/newline/CRLF/tab): 12 chunk plans on the intact stream (1 byte per read, 2, 7, whole, random partitions with (0,nil) reads, final (n,EOF) or (0,EOF)) which must all agree; EVERY truncation point; a reader error injected at EVERY offset twice, as (0,err) and as (n>0,err); EVERY single-byte deletion plus sampled substitutions and insertions of structural and control bytes (0x00, 0x0B, 0x0C, 0x1C-0x1F, 0x7F, 0x85, 0xA0); 29 fixed streams from the property (stray closers, garbage between values, touching values, BOM, form feed). Oracle: a hand-written stream splitter gives the complete values and whether the rest is clean/truncated/damaged; expected output = reference model on those values; outcome must be ok for a clean stream and a JSON error naming the file otherwise; the reader/writer ledger checks at every Read call that every value handed out together with one further byte already has its output written. Streams with one value of 4 KiB - 1 MiB (string, array, object; first / in the middle / last) among small ones under 5 read plans (all at once, one value per read, 64 KiB / 4 KiB / random blocks). 3 programs that keep every root (BEGINFILE / rules / ENDFILE) x 8 streams of several top-level arrays and objects: a kept value is not disturbed by later values; 14 program shapes (no rules, BEGIN only, END only, function only, body-less pattern, ...) x 14 streams: a damaged stream is a JSON error whatever the program looks like. Binary level: the stream fed chunk by chunk on stdin or (every third case) through a named pipe given as a file argument; after each chunk the process is observed waiting for input via /proc (blocked in read(0), or for the named pipe: all threads asleep and no CPU time used between two observations) and the output due so far must be on the pipe; a regular file followed by a named pipe without a writer (the first file's output must be written while the process sleeps waiting for the pipe; the pipe's values follow when it is fed); directory and /proc/self/mem as input; EIO injected with strace on read 1, 2, 3 of a file. Non-trivial = stream with >= 2 values; distinct by (stream, damage kind, position). In a quarter of the binary cases standard output is a regular file.",
		NumCases:      c03Cases,
		Run:           c03Run,
		MinConclusive: func(tier string) int { return 50000 },
		Chunk:         func(tier string) int { return 8 },
		Assumptions:   []string{"a scalar is complete when one further byte or EOF has been read, a container at its closing bracket; any byte may follow a complete value", "a reader error directly after a scalar may or may not complete it (both accepted); the error must always be reported", "strace-based injection is skipped (inconclusive) where ptrace is not permitted"},
	})
}
