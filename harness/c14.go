package main

// C14 — the command line is a faithful wrapper: -f, stdin, -r, -o, file order, exit code.

import (
	"bytes"
	"fmt"
	"math/rand/v2"
	"os"
	"os/exec"
	"path/filepath"
	"strings"
	"syscall"
	"time"
)

type cliCase struct {
	prog    string
	inputs  [][]byte
	sels    []string
	noFile  bool // program does not mention $file
	kind    string
	roSel   bool
	failing bool
}

var c14SelPool = []string{"$", "$.a", "$.a.b", "$.zz", "$.list", "$.list[0]", "$.list[-1]", "$.list[7]", "$.a.b.length()", "$.list.length()", "[$.a, 1]", "{ k: $.list }", "$.n + 1", "$.s.upper()", "$.list.sort()", "$.o.pluck('x', 'nope')"}

func c14Doc(rng *rand.Rand) []byte {
	docs := []string{
		`{"a": {"b": [1, 2, 3]}, "list": [3, 1, 2], "n": 4, "s": "str", "o": {"x": 1, "y": 2}}`,
		`{"a": {"b": "text"}, "list": [{"k": 1}, {"k": 2}], "n": -1.5, "s": "", "o": {}}`,
		`{"a": null, "list": [], "n": 0, "s": "é", "o": {"x": null}}`,
		`{"list": [[1], [2, 3]], "n": 10, "s": "a,b", "o": {"x": [1]}}`,
		`{"a": {"b": "100%"}, "list": ["%d items", "%s", "%!", "50%%"], "n": 1, "s": "%v", "o": {"x%": "%"}}`,
	}
	return []byte(docs[rng.IntN(len(docs))])
}

func c14Case(rng *rand.Rand) cliCase {
	switch rng.IntN(10) {
	case 0, 1:
		g := newStructGen(rng, sgOpts{MaxDepth: 2, Funcs: rng.IntN(2) == 0, Signals: true, Exit: rng.IntN(3) == 0, MultiRule: true})
		p, doc := g.Program()
		return cliCase{prog: Canon(p), inputs: [][]byte{doc}, noFile: true, kind: "structured"}
	case 2:
		cfg, _, _ := c02Random(rng)
		cc := cliCase{prog: Canon(cfg.program()), kind: "schedule"}
		for _, f := range cfg.files {
			cc.inputs = append(cc.inputs, f.Data)
		}
		for _, s := range cfg.selectors {
			cc.sels = append(cc.sels, CanonExpr(s))
		}
		return cc
	case 3:
		g := &asgGen{rng: rng, assigned: map[string]bool{}, stats: map[string]int{}, allowTag: noPinned}
		doc := map[string]any{"a": g.genDocVal(2), "list": g.genDocVal(2), "b": g.genDocVal(2)}
		body := g.history(3+rng.IntN(6), doc)
		return cliCase{prog: Canon(c09Program(body)), inputs: [][]byte{jsonBytes(doc)}, noFile: true, kind: "assignment-history"}
	case 4:
		// failing programs and malformed inputs
		progs := []string{"{ print $.a; print 1 / 0 }", "BEGIN { print 'x' } { print $ } END { print y.z() }", "{ print } END { print 'done' ", "{ print $.list[-9] }", "BEGIN { exit } { print }", "{ print $ }"}
		ins := [][]byte{[]byte(`{"a": 1, "list": [1]}`), []byte(`{"a": 1} {"a": `), []byte(`[1, 2] ] [3]`), []byte(""), []byte("[1]\n[2]\n")}
		return cliCase{prog: progs[rng.IntN(len(progs))], inputs: [][]byte{ins[rng.IntN(len(ins))]}, noFile: true, kind: "failing", failing: true}
	case 6:
		// program texts whose literals hold raw line ends, tabs and other control bytes, and CRLF between statements
		progs := []string{
			"{ print 'a\r\nb'.length(), 'x\r\ny' }\r\n{ print \"tab\there\" }\r\n",
			"BEGIN { s = 'line1\r\nline2\r\n'; print s.length(); printf('%s|', s) }\r\n{ print $.s + '\r\n' + $.n }",
			"# comment\r\n{ print ';\r\n'.length(), $.s ~ /a\r\nb/, 'q\rr', 'v\n\rw' }\r\nEND { print 'e\x0bf\x0cg' }",
			"{ $.note = 'first\r\nsecond' }",
			"{\r\n\tprint 'indented\r\n\tcontinuation',\r\n\t\t$.n\r\n}\r\n",
		}
		return cliCase{prog: progs[rng.IntN(len(progs))], inputs: [][]byte{c14Doc(rng)}, noFile: true, kind: "raw-line-ends-in-literals"}
	case 5:
		// JSONL and several files
		var ins [][]byte
		for i := 1 + rng.IntN(3); i > 0; i-- {
			ins = append(ins, []byte(fmt.Sprintf("[%d, %d]\n{\"v\": %d}\n", i, i*10, i)))
		}
		return cliCase{prog: "BEGINFILE { print 'bf', $file } { print $file, $ } ENDFILE { print 'ef', $file } END { print 'end' }", inputs: ins, kind: "jsonl-files"}
	default:
		// programs that modify $ in pattern rules and do not inspect it in BEGINFILE/ENDFILE
		progs := []string{"{ $.m = 1 }", "{ $.count = $.count + 1; print 'seen' }", "{ $[0] = 'first' }", "{ print $ is array, $ is object; $.tag = 't' }", "{ }", "{ $.x.y = [1] ; $.list = 0 }", "{ c++ } END { print c }", "{ if ($ is array) { $.push(9) } else { $.k = 9 } }",
			"{ print $; $.seen = 1 }", "{ print json($.list), $.n; $.list = 0; $.n = 'changed' }", "{ print $.length(), $ is object; if ($ is object) { $.a = null; $.extra = [1] } }"}
		n := rng.IntN(3)
		var sels []string
		for i := 0; i < n; i++ {
			sels = append(sels, c14SelPool[rng.IntN(len(c14SelPool))])
		}
		in := c14Doc(rng)
		for k := rng.IntN(3); k > 0; k-- { // 0-2 further values in the same input
			in = append(append(in, []string{"\n", " ", "\n\n"}[rng.IntN(3)]...), c14Doc(rng)...)
		}
		return cliCase{prog: progs[rng.IntN(len(progs))], inputs: [][]byte{in}, sels: sels, noFile: true, kind: "modify-root", roSel: true}
	}
}

type cliOut struct {
	exit   int
	stdout string
	stderr string
	ofile  string
	hasO   bool
	fault  string
}

type cliCfg struct {
	progFile bool   // -f
	input    string // stdin | files
	omode    string // "" | "-" | "path"
	stale    bool   // the -o FILE already exists with other, longer content
	inplace  bool   // -o names the (single) input file
	dupFirst int    // 0: no; 1: the first file operand is given again at the end; 2: again, spelled ./file1.json
}

// runCfg runs the binary in dir with the given configuration.
func runCfg(c *Case, cc cliCase, cfg cliCfg, dir string) *cliOut {
	os.MkdirAll(dir, 0o755)
	var args []string
	for _, s := range cc.sels {
		args = append(args, "-r", s)
	}
	opath := filepath.Join(dir, "out.json")
	os.Remove(opath)
	if cfg.omode == "path" && cfg.stale {
		// an existing, longer file at the -o path must be replaced, not overwritten in place
		os.WriteFile(opath, []byte(strings.Repeat("STALE CONTENT OF AN EARLIER RUN\n", 200)), 0o644)
	}
	if cfg.inplace && cfg.omode == "path" && cfg.input == "files" && len(cc.inputs) == 1 {
		opath = filepath.Join(dir, "file1.json")
	}
	switch cfg.omode {
	case "-":
		args = append(args, "-o", "-")
	case "path":
		args = append(args, "-o", opath)
	}
	if cfg.progFile {
		pf := filepath.Join(dir, "prog.jqawk")
		os.WriteFile(pf, []byte(cc.prog), 0o644)
		args = append(args, "-f", pf, "--")
	} else {
		args = append(args, "--", cc.prog)
	}
	var stdin []byte
	if cfg.input == "stdin" {
		stdin = cc.inputs[0]
	} else {
		for i, in := range cc.inputs {
			p := filepath.Join(dir, fmt.Sprintf("file%d.json", i+1))
			os.WriteFile(p, in, 0o644)
			args = append(args, fmt.Sprintf("file%d.json", i+1))
		}
		switch cfg.dupFirst {
		case 1:
			args = append(args, "file1.json")
		case 2:
			args = append(args, "./file1.json")
		}
	}
	r := RunCli(c.env.Jqawk, args, stdin, dir, 60*time.Second)
	o := &cliOut{exit: r.Exit, stdout: string(r.Stdout), stderr: string(r.Stderr), fault: cliFault(r)}
	if r.TimedOut {
		o.fault = "timeout"
	}
	if b, err := os.ReadFile(opath); err == nil && !(cfg.stale && strings.HasPrefix(string(b), "STALE CONTENT") && strings.Count(string(b), "STALE") == 200) {
		o.ofile, o.hasO = string(b), true
		if cfg.inplace && r.Exit != 0 && len(cc.inputs) == 1 && bytes.Equal(b, cc.inputs[0]) {
			o.ofile, o.hasO = "", false // a failed run left the input file as it was: nothing was written
		}
	}
	return o
}

func c14Run(c *Case) {
	if c.Idx == 0 {
		c14ErrorPaths(c)
		c14SelectorScope(c)
		return
	}
	rng := c.Rng
	cc := c14Case(rng)
	if strings.ContainsRune(cc.prog, 0) || len(cc.inputs) == 0 {
		c.Inconclusive("unsuitable-case")
		return
	}
	dir := filepath.Join(c.env.Scratch, "c14")
	defer os.RemoveAll(dir)
	// the cell of the configuration matrix
	cell := (c.Idx - 1) % 54
	cfg := cliCfg{progFile: cell%2 == 1}
	inputMode := (cell / 2) % 3 // 0 stdin, 1 one file, 2 several files
	nsel := (cell / 6) % 3
	cfg.omode = []string{"", "-", "path"}[(cell/18)%3]
	cfg.stale = c.Idx%2 == 0
	switch inputMode {
	case 0:
		cfg.input = "stdin"
		cc.inputs = cc.inputs[:1]
	case 1:
		cfg.input = "files"
		cc.inputs = cc.inputs[:1]
	default:
		cfg.input = "files"
		for len(cc.inputs) < 2 {
			cc.inputs = append(cc.inputs, c14Doc(rng))
		}
	}
	if cfg.input == "files" && len(cc.inputs) == 1 && cfg.omode == "path" && c.Idx%3 == 0 {
		cfg.inplace = true // rewrite the input file in place
		cfg.stale = false
	}
	if cfg.input == "files" && cfg.omode == "" && c.Idx%5 == 0 && !strings.Contains(cc.prog, "$file") {
		cfg.dupFirst = 1 + c.Idx/5%2 // the same file named twice is read twice, in the order given
	}
	for len(cc.sels) > nsel {
		cc.sels = cc.sels[:len(cc.sels)-1]
	}
	for len(cc.sels) < nsel {
		cc.sels = append(cc.sels, c14SelPool[rng.IntN(len(c14SelPool))])
	}
	if cc.roSel && nsel == 2 {
		// overlapping selections: the second pass looks at what the first pass may have stored into
		switch rng.IntN(4) {
		case 0:
			cc.sels[1] = cc.sels[0]
		case 1:
			cc.sels[0], cc.sels[1] = []string{"$", "$.a", "$.list", "$.o"}[rng.IntN(4)], "$"
		case 2:
			cc.sels[0], cc.sels[1] = "$", []string{"$", "$.a", "$.list", "$.o", "$.n"}[rng.IntN(5)]
		}
	}
	cellName := fmt.Sprintf("%s/%s%d/sel%d/o=%s", map[bool]string{false: "inline", true: "-f"}[cfg.progFile], cfg.input, len(cc.inputs), nsel, cfg.omode)
	c.Count("cell:" + cellName)
	c.Count("kind:" + cc.kind)
	rp := map[string]any{"program": cc.prog, "selectors": cc.sels, "cell": cellName}
	var ins []string
	for _, in := range cc.inputs {
		ins = append(ins, string(in))
	}
	rp["inputs"] = ins

	// R1: the binary against the library on the same tree
	var files []InFile
	for i, in := range cc.inputs {
		name := fmt.Sprintf("file%d.json", i+1)
		if cfg.input == "stdin" {
			name = "<stdin>"
		}
		files = append(files, InFile{Name: name, Data: in})
	}
	if cfg.dupFirst != 0 {
		files = append(files, files[0])
		c.Count("cells_with_a_repeated_file_operand")
	}
	if cfg.inplace {
		c.Count("cells_rewriting_the_input_in_place")
	}
	lib := RunLib(cc.prog, files, cc.sels, RunOpts{WantRoot: true, Budget: 400000})
	if lib.Class == "budget" {
		c.Inconclusive("budget")
		return
	}
	bin := runCfg(c, cc, cfg, dir)
	if bin.fault != "" {
		c.Violation(fmt.Sprintf("%s: binary %s | stderr %q | program %s", cellName, bin.fault, clip(bin.stderr, 120), clip(cc.prog, 160)), nil, rp)
		return
	}
	wantStdout := string(lib.Stdout)
	wantExit0 := lib.Class == "ok"
	wantJSON, wantJSONOut := "", false
	if lib.Class == "ok" && cfg.omode != "" {
		switch {
		case len(cc.inputs) > 1:
			wantExit0 = false // -o with several input files is refused
		case !lib.HasRoot || lib.RootErr != "":
			wantExit0 = false
		default:
			wantJSON, wantJSONOut = lib.RootJSON, true
		}
	}
	if len(lib.Stdout) > 0 || wantJSONOut {
		c.NonTrivial(cellName + "|" + cc.prog + strings.Join(ins, "|") + strings.Join(cc.sels, "|"))
	}
	gotStdout := bin.stdout
	if cfg.omode == "-" && wantJSONOut {
		wantStdout += wantJSON
	}
	switch {
	case (bin.exit == 0) != wantExit0:
		c.Violation(fmt.Sprintf("%s: exit status %d but the library run ended as %s (root error %q) | stderr %q | program %s", cellName, bin.exit, lib.Class, lib.RootErr, clip(bin.stderr, 100), clip(cc.prog, 160)), nil, rp)
		return
	case gotStdout != wantStdout:
		c.Violation(fmt.Sprintf("%s: stdout of the binary differs from the library's output: %s | program %s", cellName, diffAt(wantStdout, gotStdout), clip(cc.prog, 160)), nil, rp)
		return
	case cfg.omode == "path" && wantJSONOut && (!bin.hasO || bin.ofile != wantJSON):
		c.Violation(fmt.Sprintf("%s: -o FILE content differs from the library's JSON (written=%v): %s", cellName, bin.hasO, diffAt(wantJSON, bin.ofile)), nil, rp)
		return
	case bin.exit != 0 && strings.TrimSpace(bin.stderr) == "":
		c.Violation(cellName+": non-zero exit without a diagnostic", nil, rp)
		return
	}
	c.Held()

	// R2: -f vs inline
	alt := cfg
	alt.progFile = !cfg.progFile
	b2 := runCfg(c, cc, alt, dir)
	if b2.exit != bin.exit || b2.stdout != bin.stdout || b2.ofile != bin.ofile {
		c.Violation(fmt.Sprintf("%s: -f FILE and the same text inline behave differently: exit %d/%d, stdout %s", cellName, bin.exit, b2.exit, diffAt(bin.stdout, b2.stdout)), nil, rp)
		return
	}
	c.Held()
	if cfg.dupFirst != 0 {
		return // the remaining relations are stated for operands that are all different
	}
	// R3: stdin vs the same bytes in a named file (programs that do not mention $file)
	if len(cc.inputs) == 1 && cc.noFile && !strings.Contains(cc.prog, "$file") {
		alt := cfg
		if cfg.input == "stdin" {
			alt.input = "files"
		} else {
			alt.input = "stdin"
		}
		b3 := runCfg(c, cc, alt, dir)
		if b3.exit != bin.exit || b3.stdout != bin.stdout || b3.ofile != bin.ofile {
			c.Violation(fmt.Sprintf("%s: input on stdin and the same bytes in a file behave differently: exit %d/%d, stdout %s", cellName, bin.exit, b3.exit, diffAt(bin.stdout, b3.stdout)), nil, rp)
			return
		}
		c.Held()
	}
	// R4: -o FILE writes exactly the bytes -o - prints after the program's own output
	if cfg.omode != "" && len(cc.inputs) == 1 {
		a1, a2 := cfg, cfg
		a1.omode, a2.omode = "-", "path"
		o1 := runCfg(c, cc, a1, dir)
		o2 := runCfg(c, cc, a2, dir)
		noO := cfg
		noO.omode = ""
		o0 := runCfg(c, cc, noO, dir)
		if o1.exit == 0 && o2.exit == 0 {
			if o1.stdout != o0.stdout+o2.ofile || o2.stdout != o0.stdout {
				c.Violation(fmt.Sprintf("%s: `-o -` prints %q after the program's output but `-o FILE` wrote %q", cellName, clip(strings.TrimPrefix(o1.stdout, o0.stdout), 80), clip(o2.ofile, 80)), nil, rp)
				return
			}
			c.Held()
		} else if (o1.exit == 0) != (o2.exit == 0) {
			c.Violation(fmt.Sprintf("%s: `-o -` exits %d but `-o FILE` exits %d", cellName, o1.exit, o2.exit), nil, rp)
			return
		}
	}
	// R5: -r E behaves as BEGINFILE { $ = E } (side-effect-free selectors, programs that do not inspect $ in BEGINFILE/ENDFILE)
	if cc.roSel && len(cc.sels) == 1 {
		eq := cc
		eq.sels = nil
		eq.prog = "BEGINFILE { $ = " + cc.sels[0] + " } " + cc.prog
		be := runCfg(c, eq, cfg, dir)
		c.Count("selector_vs_beginfile")
		if be.fault != "" || be.exit != bin.exit || be.stdout != bin.stdout || be.ofile != bin.ofile {
			rp["equivalent_program"] = eq.prog
			c.Violation(fmt.Sprintf("%s: `-r '%s'` and `BEGINFILE { $ = %s }` behave differently: exit %d vs %d; stdout %q vs %q; -o %q vs %q | program %s", cellName, cc.sels[0], cc.sels[0], bin.exit, be.exit,
				clip(bin.stdout, 60), clip(be.stdout, 60), clip(bin.ofile, 60), clip(be.ofile, 60), cc.prog), nil, rp)
			return
		}
		c.Held()
	}
	// R6: `-r A -r B` processes the value once per selector, each starting from the document as read
	if cc.roSel && len(cc.sels) == 2 && len(cc.inputs) == 1 && len(splitTopLevel(cc.inputs[0])) == 1 && !strings.Contains(cc.prog, "END") && !strings.Contains(cc.prog, "c++") && !strings.Contains(cc.prog, "count") {
		noO := cfg
		noO.omode = ""
		a, b := cc, cc
		a.sels, b.sels = cc.sels[:1], cc.sels[1:]
		oa, ob, oab := runCfg(c, a, noO, dir), runCfg(c, b, noO, dir), runCfg(c, cc, noO, dir)
		c.Count("two_selectors_vs_one_by_one")
		if oa.exit == 0 && ob.exit == 0 {
			if oab.exit != 0 || oab.stdout != oa.stdout+ob.stdout {
				c.Violation(fmt.Sprintf("%s: `-r '%s' -r '%s'` prints %q but the two selectors one by one print %q + %q | program %s", cellName, cc.sels[0], cc.sels[1], clip(oab.stdout, 80), clip(oa.stdout, 60), clip(ob.stdout, 60), cc.prog), nil, rp)
				return
			}
			if cfg.omode != "" {
				ob2 := runCfg(c, b, cfg, dir)
				if ob2.exit == 0 && bin.exit == 0 {
					w1, w2 := bin.ofile, ob2.ofile
					if cfg.omode == "-" {
						w1, w2 = strings.TrimPrefix(bin.stdout, oab.stdout), strings.TrimPrefix(ob2.stdout, ob.stdout)
					}
					if w1 != w2 {
						c.Violation(fmt.Sprintf("%s: with `-r '%s' -r '%s'` -o writes %q, with the last selector alone %q | program %s", cellName, cc.sels[0], cc.sels[1], clip(w1, 80), clip(w2, 80), cc.prog), nil, rp)
						return
					}
				}
			}
			c.Held()
		}
	}
	// R7: files, the values inside a file, and the selectors are processed in the order given, each exactly once:
	// for a program without state across values the output is the concatenation of the outputs per value
	if cc.roSel && !strings.Contains(cc.prog, "END") && !strings.Contains(cc.prog, "c++") && !strings.Contains(cc.prog, "count") {
		var vals [][]byte
		for _, in := range cc.inputs {
			vals = append(vals, splitTopLevel(in)...)
		}
		if len(vals) >= 2 {
			noO := cfg
			noO.omode = ""
			whole := runCfg(c, cc, noO, dir)
			var sb strings.Builder
			allOK := whole.exit == 0 && whole.fault == ""
			for _, v := range vals {
				one := cc
				one.inputs = [][]byte{v}
				cf := noO
				o := runCfg(c, one, cf, dir)
				if o.exit != 0 || o.fault != "" {
					allOK = false
					break
				}
				sb.WriteString(o.stdout)
			}
			c.Count("whole_run_vs_value_by_value")
			c.CountN("values_in_value_by_value_runs", len(vals))
			if allOK {
				if whole.stdout != sb.String() {
					c.Violation(fmt.Sprintf("%s: %d input values with %d selector(s): the whole run prints %q, the values one by one print %q | program %s", cellName, len(vals), len(cc.sels), clip(whole.stdout, 100), clip(sb.String(), 100), cc.prog), nil, rp)
					return
				}
				c.Held()
			}
		}
	}
	if c.Idx%300 == 2 {
		c.Sample(map[string]any{"cell": cellName, "program": clip(cc.prog, 300), "selectors": cc.sels, "inputs": ins})
	}
}

// c14SelectorScope: `-r E` against `BEGINFILE { $ = E }` for selectors that mention what the program defines
// (functions, global names, $file) or that assign names. The implementation evaluates a selector in an interpreter
// of its own, so these differ: known finding K-SELSCOPE, one entry per witness below (a witness that is not listed
// in findings/KNOWN_FINDINGS.txt, or any other disagreement, is an ordinary violation).
var c14ScopeWitnesses = []struct{ id, sel, prog, in string }{
	{"function", "f($)", "function f(x) { return x.a }\n{ print $ }", `{"a":{"b":[1,2]},"k":"a"}`},
	{"global", "$[k]", "BEGIN { k = 'a' } { print $ }", `{"a":{"b":[1,2]},"k":"a"}`},
	{"file-name", "$file", "{ print $ }", `{"a":1}`},
	{"redefined-builtin", "num($.v)", "function num(x) { return 'mine' }\n{ print $ }", `{"v":10} {"v":20} {"v":30}`},
	{"state-across-values", "n = n + $.v", "{ print $ }", `{"v":10} {"v":20} {"v":30}`},
	{"assigned-name-read-by-program", "x = $.a", "{ print x, $ }", `{"a":{"b":[1,2]},"k":"a"}`},
	// controls: the same shapes without anything from outside the selector agree today and must keep agreeing
	{"control-member", "$.a", "function f(x) { return x.a }\n{ print f($), $ }", `{"a":{"a":[1,2]},"k":"a"}`},
	{"control-own-name", "(t = $.v) + t", "{ print $ }", `{"v":10} {"v":20}`},
}

func c14SelectorScope(c *Case) {
	for _, w := range c14ScopeWitnesses {
		files := []InFile{{Name: "d.json", Data: []byte(w.in)}}
		a := RunLib(w.prog, files, []string{w.sel}, RunOpts{WantRoot: true, Budget: 100000})
		bprog := "BEGINFILE { $ = " + w.sel + " }\n" + w.prog
		b := RunLib(bprog, files, nil, RunOpts{WantRoot: true, Budget: 100000})
		c.NonTrivial("selector-scope:" + w.id)
		c.Count("selector_scope_witnesses")
		if a.Class == b.Class && string(a.Stdout) == string(b.Stdout) && a.RootJSON == b.RootJSON {
			c.Held()
			continue
		}
		c.Violation(fmt.Sprintf("R5 (%s): -r %q ends as %s %q, BEGINFILE { $ = %s } as %s %q | program %s", w.id, w.sel, a.Class, clip(string(a.Stdout)+a.Msg, 80), w.sel, b.Class, clip(string(b.Stdout)+b.Msg, 80), clip(w.prog, 100)),
			[]string{"selscope:" + w.id}, map[string]any{"selector": w.sel, "program": w.prog, "program_beginfile_form": bprog, "input": w.in})
	}
}

func c14ErrorPaths(c *Case) {
	dir := filepath.Join(c.env.Scratch, "c14e")
	os.MkdirAll(dir, 0o755)
	defer os.RemoveAll(dir)
	os.WriteFile(filepath.Join(dir, "a.json"), []byte("[1, 2]"), 0o644)
	os.WriteFile(filepath.Join(dir, "b.json"), []byte("[3]"), 0o644)
	os.WriteFile(filepath.Join(dir, "empty.json"), []byte(""), 0o644)
	os.WriteFile(filepath.Join(dir, "p.jqawk"), []byte("{ print $ }"), 0o644)
	os.Mkdir(filepath.Join(dir, "adir"), 0o755)
	os.Mkdir(filepath.Join(dir, "ro"), 0o555)
	type ec struct {
		name   string
		args   []string
		stdin  []byte
		wantOK bool
		stdout string
	}
	cases := []ec{
		{"nonexistent program file", []string{"-f", "nope.jqawk", "a.json"}, nil, false, ""},
		{"nonexistent input file", []string{"--", "{ print $ }", "nope.json"}, nil, false, ""},
		{"nonexistent second input file", []string{"--", "{ print $ }", "a.json", "nope.json"}, nil, false, "1\n2\n"}, // files are processed in the order given: the first one is done by then
		{"directory as input", []string{"--", "{ print $ }", "adir"}, nil, false, ""},
		{"-o naming a directory", []string{"-o", "adir", "--", "{ }", "a.json"}, nil, false, ""},
		{"-o into a missing directory", []string{"-o", "missing/out.json", "--", "{ }", "a.json"}, nil, false, ""},
		{"-o with two input files", []string{"-o", "-", "--", "{ print $ }", "a.json", "b.json"}, nil, false, "1\n2\n3\n"},
		{"-o with an input that holds no value", []string{"-o", "-", "--", "{ print $ }", "empty.json"}, nil, false, ""},
		{"-o with empty stdin", []string{"-o", "-", "--", "{ print $ }"}, []byte(""), false, ""},
		{"files in argument order", []string{"--", "{ print $file, $ }", "b.json", "a.json"}, nil, true, "b.json 3\na.json 1\na.json 2\n"},
		{"selectors in argument order", []string{"-r", "$[1]", "-r", "$[0]", "--", "{ print $ }", "a.json"}, nil, true, "2\n1\n"},
		{"-f with inputs", []string{"-f", "p.jqawk", "a.json", "b.json"}, nil, true, "1\n2\n3\n"},
		{"empty program", []string{"--", "", "a.json"}, nil, true, ""},
		{"syntax error", []string{"--", "{ print ", "a.json"}, nil, false, ""},
		{"runtime error after output", []string{"--", "{ print $; print 1 / 0 }", "a.json"}, nil, false, "1\n"},
		{"malformed input after a value", []string{"--", "{ print $ }"}, []byte("[1] [2"), false, "1\n"},
	}
	for _, e := range cases {
		r := RunCli(c.env.Jqawk, e.args, e.stdin, dir, 120*time.Second)
		if r.TimedOut {
			c.Inconclusive("binary-watchdog")
			continue
		}
		c.NonTrivial("errpath:" + e.name)
		c.Count("error_paths")
		rp := map[string]any{"args": e.args, "stdout": string(r.Stdout), "stderr": string(r.Stderr), "exit": r.Exit}
		if f := cliFault(r); f != "" {
			c.Violation(e.name+": "+f+" | stderr "+clip(string(r.Stderr), 160), nil, rp)
			continue
		}
		switch {
		case e.wantOK && (r.Exit != 0 || string(r.Stdout) != e.stdout):
			c.Violation(fmt.Sprintf("%s: exit %d, stdout %q (want %q), stderr %q", e.name, r.Exit, clip(string(r.Stdout), 80), e.stdout, clip(string(r.Stderr), 80)), nil, rp)
		case !e.wantOK && (r.Exit == 0 || strings.TrimSpace(string(r.Stderr)) == "" || string(r.Stdout) != e.stdout):
			c.Violation(fmt.Sprintf("%s: expected a non-zero status with a diagnostic (and stdout %q); got exit %d, stdout %q, stderr %q", e.name, e.stdout, r.Exit, clip(string(r.Stdout), 80), clip(string(r.Stderr), 80)), nil, rp)
		default:
			c.Held()
		}
	}
	// standard output that cannot be written (a full device): a run that has something to print fails with a
	// diagnostic, a run that prints nothing is not disturbed
	if full, err := os.OpenFile("/dev/full", os.O_WRONLY, 0); err == nil {
		defer full.Close()
		for _, e := range []struct {
			name   string
			args   []string
			wantOK bool
		}{
			{"print to a full device", []string{"--", "{ print $ }", "a.json"}, false},
			{"printf to a full device", []string{"--", "BEGIN { printf('%s', 'x') }", "a.json"}, false},
			{"a rule without a body prints to a full device", []string{"--", "$ > 1", "a.json"}, false},
			{"print in END to a full device", []string{"--", "{ n++ } END { print n }", "a.json"}, false},
			{"-o - to a full device", []string{"-o", "-", "--", "{ }", "a.json"}, false},
			{"-o - after print to a full device", []string{"-o", "-", "--", "{ print 'x' }", "a.json"}, false},
			{"-o FILE after print to a full device", []string{"-o", "out-full2.json", "--", "{ print 'x' }", "a.json"}, false},
			{"-o FILE after printf in BEGIN to a full device", []string{"-o", "out-full3.json", "--", "BEGIN { printf('%s', 'y') }", "a.json"}, false},
			{"-o FILE with nothing printed, stdout a full device", []string{"-o", "out-full.json", "--", "{ $ = 1 }", "a.json"}, true},
			{"nothing printed, stdout a full device", []string{"--", "{ n += $ }", "a.json"}, true},
			{"pattern never true, stdout a full device", []string{"--", "$ > 5 { print }", "a.json"}, true},
		} {
			heartbeat()
			cmd := exec.Command(c.env.Jqawk, e.args...)
			cmd.Dir = dir
			cmd.Stdin = bytes.NewReader(nil)
			var se bytes.Buffer
			cmd.Stdout, cmd.Stderr = full, &se
			cmd.Env = append(os.Environ(), "GOTRACEBACK=single")
			err := cmd.Run()
			r := &CliResult{Stderr: se.Bytes()}
			if ee, ok := err.(*exec.ExitError); ok {
				r.Exit = ee.ExitCode()
				if ws, ok := ee.Sys().(syscall.WaitStatus); ok && ws.Signaled() {
					r.Signal = ws.Signal().String()
				}
			} else if err != nil {
				c.Inconclusive("could-not-start")
				continue
			}
			c.NonTrivial("errpath:" + e.name)
			c.Count("full_device_paths")
			rp := map[string]any{"args": e.args, "stdout": "/dev/full", "stderr": se.String(), "exit": r.Exit}
			switch f := cliFault(r); {
			case f != "":
				c.Violation(e.name+": "+f+" | stderr "+clip(se.String(), 160), nil, rp)
			case e.wantOK && r.Exit != 0:
				c.Violation(fmt.Sprintf("%s: nothing is written to standard output, yet exit %d, stderr %q", e.name, r.Exit, clip(se.String(), 100)), nil, rp)
			case !e.wantOK && (r.Exit == 0 || strings.TrimSpace(se.String()) == ""):
				c.Violation(fmt.Sprintf("%s: the output is lost, yet exit %d, stderr %q (expected a non-zero status with a diagnostic)", e.name, r.Exit, clip(se.String(), 100)), nil, rp)
			default:
				c.Held()
			}
		}
	} else {
		c.Inconclusive("no-/dev/full")
	}
	// more file operands than the process may hold open at once: they are read one after another, so the limit on
	// open descriptors does not limit the number of files
	{
		var names []string
		want := 0
		for i := 1; i <= 150; i++ {
			n := fmt.Sprintf("many-%03d.json", i)
			os.WriteFile(filepath.Join(dir, n), []byte(fmt.Sprintf("[%d] %d", i, i)), 0o644)
			names = append(names, n)
			want += 2 * i
		}
		for _, t := range []struct {
			name string
			args []string
			want string
		}{
			{"150 files under a limit of 40 descriptors", append([]string{"--", "{ s += $ } END { print s }"}, names...), fmt.Sprintf("%d\n", want)},
			{"150 files under a limit of 40 descriptors, with selectors and ENDFILE", append([]string{"-r", "$", "-r", "[$]", "--", "ENDFILE { n++ } END { print n, $file }"}, names...), "600 many-150.json\n"},
		} {
			sh := "ulimit -n 40 || exit 97; exec \"$0\" \"$@\""
			r := RunCli("/bin/sh", append([]string{"-c", sh, c.env.Jqawk}, t.args...), nil, dir, 120*time.Second)
			if r.TimedOut || r.Exit == 97 {
				c.Inconclusive("descriptor-limit-not-applied")
				continue
			}
			c.NonTrivial("errpath:" + t.name)
			c.Count("descriptor_limit_paths")
			if f := cliFault(r); f != "" || r.Exit != 0 || string(r.Stdout) != t.want {
				c.Violation(fmt.Sprintf("%s: exit %d, stdout %q (want %q), stderr %q %s", t.name, r.Exit, clip(string(r.Stdout), 60), t.want, clip(string(r.Stderr), 120), f), nil, map[string]any{"args": t.args[:4]})
			} else {
				c.Held()
			}
		}
	}
	// EIO on the first and second read of an input file
	if _, err := exec.LookPath("strace"); err == nil {
		var sb strings.Builder
		for i := 0; i < 400; i++ {
			fmt.Fprintf(&sb, "[%d]\n", i)
		}
		path := filepath.Join(dir, "big.json")
		os.WriteFile(path, []byte(sb.String()), 0o644)
		for _, n := range []int{1, 2} {
			heartbeat()
			logf := filepath.Join(dir, "strace.log")
			cmd := exec.Command("strace", "-f", "-o", logf, "-P", path, "-e", "trace=read", "-e", fmt.Sprintf("inject=read:error=EIO:when=%d", n), c.env.Jqawk, "--", "{ print $ }", path)
			var so, se bytes.Buffer
			cmd.Stdout, cmd.Stderr = &so, &se
			err := cmd.Run()
			slog, _ := os.ReadFile(logf)
			if !bytes.Contains(slog, []byte("(INJECTED)")) {
				c.Inconclusive("strace-fault-not-delivered")
				continue
			}
			exit := 0
			if ee, ok := err.(*exec.ExitError); ok {
				exit = ee.ExitCode()
			}
			c.NonTrivial(fmt.Sprintf("errpath:eio-%d", n))
			if exit == 0 || !strings.Contains(se.String(), "could not parse") {
				c.Violation(fmt.Sprintf("EIO on read #%d of an input file: exit %d, stderr %q", n, exit, clip(se.String(), 100)), nil, nil)
			} else {
				c.Held()
			}
		}
	}
}

func init() {
	register(&Prop{
		ID: "C14", Level: "exploration",
		Rule: "each case is a (program, inputs, selectors) triple from the pools of C02/C07/C09 plus failing programs, malformed inputs, JSONL, root-modifying programs and program texts with raw CR LF / tab / control bytes inside literals, run in one cell of the 54-cell configuration matrix {inline, -f} x {stdin, 1 file, 2-3 files} x {0, 1, 2 -r} x {no -o, -o -, -o FILE} (cells are visited round-robin by case index). Relations checked on the real binary: (R1) stdout, -o bytes and exit class equal the library's result on the same tree (files and selectors in the same order; -o with several inputs refused); in a third of the one-file cells -o FILE names the input file itself, in a fifth of the file cells the first file operand is repeated at the end (also spelled ./file); (R2) -f FILE == inline; (R3) stdin == the same bytes in a file for programs that do not mention $file; (R4) the bytes `-o -` prints after the program's own output are exactly what `-o FILE` writes; (R5) `-r E` == `BEGINFILE { $ = E }` for side-effect-free selectors (members present / missing / out of range, method calls, literals) and programs that modify $ only in pattern rules, including what -o writes, also over several files and several values per input; (R6) two selectors print what each prints alone, one after the other, and -o writes what the last alone writes; (R7) for programs without state across values, a run over several files / several values per input / several selectors prints exactly the concatenation of the runs value by value (each processed once, in order). Enumerated: 16 error paths and orderings (missing program / input files, directory as input, unwritable -o, -o with two files, -o without any value, file and selector order, error after output) strace-injected EIO, and 9 runs with standard output on /dev/full (a run that has something to print fails with a diagnostic, one that prints nothing succeeds). 8 fixed selector / program pairs that mention functions, globals, $file or assign names, run as `-r E` and as `BEGINFILE { $ = E }` (6 are witnesses of known finding K-SELSCOPE, 2 are controls). Non-trivial = the case produces output or an -o document; distinct by cell+program+inputs+selectors. 150 files under a limit of 40 open descriptors.",
		NumCases: func(tier string) int {
			if tier == "thorough" {
				return 1 + 54*1000
			}
			return 1 + 54*60
		},
		Run:           c14Run,
		MinConclusive: func(tier string) int { return 600 },
		Chunk:         func(tier string) int { return 12 },
		Exhaustive: func(tier string) string {
			return "54-cell command-line configuration matrix (every cell visited >= 6 times); error-path list"
		},
		Assumptions: []string{"programs are passed after `--` (a program starting with '-' is otherwise taken as a flag)", "the library run on the same tree is the reference for R1; R2-R5 compare the binary with itself"},
	})
}

// splitTopLevel cuts a text holding several whitespace-separated JSON documents into the documents.
func splitTopLevel(in []byte) [][]byte {
	var out [][]byte
	depth, start, inStr, esc := 0, -1, false, false
	for i, b := range in {
		if inStr {
			switch {
			case esc:
				esc = false
			case b == '\\':
				esc = true
			case b == '"':
				inStr = false
			}
			continue
		}
		switch b {
		case '"':
			inStr = true
			if start < 0 {
				start = i
			}
		case '{', '[':
			if start < 0 {
				start = i
			}
			depth++
		case '}', ']':
			depth--
			if depth == 0 && start >= 0 {
				out = append(out, in[start:i+1])
				start = -1
			}
		}
	}
	return out
}
