package main

// C16 — string, number, object methods and num()/json() honour their contract.

import (
	"fmt"
	"math"
	"math/rand/v2"
	"sort"
	"strconv"
	"strings"
	"unicode/utf8"
)

var c16Methods = []string{"length", "push", "pop", "popfirst", "contains", "sort", "pluck", "split", "lower", "upper", "floor", "ceil", "round"}

var c16ArgLists = [][]func() Expr{
	{},
	{func() Expr { return N("1") }}, {func() Expr { return S("a") }}, {func() Expr { return &NullLit{} }}, {func() Expr { return Arr(N("1")) }}, {func() Expr { return S("") }},
	{func() Expr { return N("1") }, func() Expr { return S("b") }}, {func() Expr { return S("a") }, func() Expr { return S("b") }},
	{func() Expr { return S("a") }, func() Expr { return N("2") }, func() Expr { return &BoolLit{V: true} }},
}

func c16Matrix(c *Case, mi int) {
	var exprs []c05Expr
	name := ""
	for ri, recv := range c05Grid {
		for ai, al := range c16ArgLists {
			x := c05Expr{doc: map[string]any{}}
			var args []Expr
			for _, a := range al {
				args = append(args, a())
			}
			if mi < len(c16Methods) {
				name = c16Methods[mi]
				var setup []Stmt
				re, _ := supply(recv, 0, "", &setup, x.doc)
				x.e = jsonOf(Meth(re, name, args...))
				if recv.kind == "number" || recv.kind == "unset" || recv.kind == "function" || recv.kind == "native" {
					if _, isU := re.(*Unary); isU {
						x.e = jsonOf(Meth(&Paren{X: re}, name, args...))
					}
				}
			} else {
				name = []string{"num", "json", "printf"}[mi-len(c16Methods)]
				// builtins: receiver value becomes the first argument
				all := append([]Expr{recv.lit()}, args...)
				if ai == 0 && ri%4 == 0 {
					all = nil // no argument at all
				}
				if name == "printf" {
					x.e = CallE(V(name), all...)
				} else {
					x.e = jsonOf(CallE(V(name), all...))
				}
			}
			x.id = fmt.Sprintf("%s|%s|args%d", name, recv.name, ai)
			x.key = x.id
			c.Count("matrix_method:" + name)
			c.Count("matrix_receiver_kind:" + recv.kind)
			exprs = append(exprs, x)
		}
	}
	c05RunExprs(c, exprs)
}

// ---- sampled receivers / arguments, supplied through the input document

var c16StrPool = []string{"", "a", "aBc", "abc,def", ",a,,b,", "aaa", "aaaa", "héllo wörld", "日本語テキスト", "ǅ ß ı İ", "a\tb\nc", "x--y--z", "--", "ab ab ab", "\"quoted\" 'single'", "\\back\\slash", "𝒳 𝓎", "MiXeD 123 ÄÖÜ", "ﬁ ﬂ", "a\u0000b", "a\uFFFDB\uFFFD", "\uFFFD"}
var c16SepPool = []string{"", ",", "a", "aa", "--", " ", "é", "ab", "日", "zzz", "abc,def,ghi", "\t", "\""}

func randUnicodeString(rng *rand.Rand) string {
	if rng.IntN(3) > 0 {
		return c16StrPool[rng.IntN(len(c16StrPool))]
	}
	var sb strings.Builder
	al := []rune("ab,- éß日A𝒳İ")
	for i := rng.IntN(10); i > 0; i-- {
		sb.WriteRune(al[rng.IntN(len(al))])
	}
	return sb.String()
}

func randHalfish(rng *rand.Rand) float64 {
	switch rng.IntN(10) {
	case 0:
		return float64(rng.IntN(2001)-1000) + 0.5
	case 1:
		return -(float64(rng.IntN(1000)) + 0.5)
	case 2:
		return []float64{0.49999999999999994, -0.49999999999999994, 0.5, -0.5, 1.5, -1.5, 2.5, -2.5, math.Copysign(0, -1), 0}[rng.IntN(10)]
	case 3:
		return float64(rng.Int64N(1<<52)) + 0.5
	case 4:
		return math.Ldexp(float64(rng.Int64N(1<<53)), rng.IntN(20)) // integers beyond 2^53
	case 5:
		return math.Ldexp(rng.Float64(), -rng.IntN(60))
	case 6:
		return -math.Ldexp(rng.Float64(), -rng.IntN(60))
	}
	return randDouble(rng)
}

func c16Sampled(c *Case) {
	rng := c.Rng
	var exprs []c05Expr
	doc := map[string]any{}
	add := func(id string, e Expr, nontrivial bool) {
		x := c05Expr{id: fmt.Sprintf("%s#%d", id, len(exprs)), e: e, doc: doc}
		if nontrivial {
			x.key = x.id + CanonExpr(e) + string(jsonBytes(doc))
		} else {
			x.key = "trivial"
		}
		exprs = append(exprs, x)
	}
	field := func(v any) Expr {
		k := fmt.Sprintf("f%d", len(doc))
		doc[k] = v
		return Mem(V("$"), k)
	}
	for k := 0; k < 12; k++ {
		switch rng.IntN(9) {
		case 0, 1:
			s, sep := randUnicodeString(rng), c16SepPool[rng.IntN(len(c16SepPool))]
			if rng.IntN(3) == 0 && len(s) > 0 {
				// separator taken from the subject: at an end, repeated, overlapping
				rs := []rune(s)
				a := rng.IntN(len(rs))
				b := a + 1 + rng.IntN(min(2, len(rs)-a))
				sep = string(rs[a:b])
			}
			add("split", jsonOf(Meth(field(s), "split", field(sep))), sep == "" || strings.HasPrefix(s, sep) || strings.HasSuffix(s, sep) || !isASCII(s))
			c.Count("method:split")
		case 2:
			s := randUnicodeString(rng)
			add("upper", Meth(field(s), "upper"), !isASCII(s))
			add("lower", Meth(field(s), "lower"), !isASCII(s))
			add("length", Meth(field(s), "length"), !isASCII(s))
			c.Count("method:case+length")
		case 3, 4:
			x := randHalfish(rng)
			m := []string{"floor", "ceil", "round"}[rng.IntN(3)]
			add(m, Meth(field(x), m), x != math.Trunc(x))
			c.Count("method:" + m)
		case 5:
			o := map[string]any{}
			keys := []string{"a", "b", "c", "length", "pluck", "k1", "é"}
			for i := rng.IntN(8); i > 0; i-- {
				o[keys[rng.IntN(len(keys))]] = float64(rng.IntN(9))
			}
			var ks []Expr
			absent := false
			for i := rng.IntN(5); i > 0; i-- {
				kk := append(keys, "zz", "absent")[rng.IntN(len(keys)+2)]
				if _, ok := o[kk]; !ok {
					absent = true
				}
				ks = append(ks, S(kk))
			}
			of := field(o)
			add("pluck", Arr(jsonOf(Meth(of, "pluck", ks...)), jsonOf(of), Meth(of, "length")), absent)
			c.Count("method:pluck")
		case 6, 7:
			pool := []string{"1", "-1", "+2", "0.5", ".5", "5.", "1e3", "1E-2", "007", "010", "0017", "-0123", "+00042", "0777", "00", "-0", "1_000", "0o17", "0b11", "1e", "", " ", " 1", "1 ", "abc", "1 2", "1,5", "--1", "0x10", "12abc", "9007199254740993", "1e308", "4.9e-324"}
			s := pool[rng.IntN(len(pool))]
			add("num", jsonOf(CallE(V("num"), field(s))), !strings.ContainsAny(s, "0123456789") || strings.ContainsAny(s, " ,ex-"))
			c.Count("builtin:num")
		default:
			// num(str(x)) == x for finite x
			x := randHalfish(rng)
			add("num-str-roundtrip", Bin("==", CallE(V("num"), Bin("+", S(""), field(x))), field(x)), true)
			c.Count("law:num(str(x))==x")
		}
	}
	c05RunExprs(c, exprs)
}

func isASCII(s string) bool {
	for i := 0; i < len(s); i++ {
		if s[i] >= 0x80 {
			return false
		}
	}
	return true
}

// ---- laws checked on the implementation's output alone (no reference functions)

func c16Laws(c *Case) {
	rng := c.Rng
	for k := 0; k < 6; k++ {
		s, sep := randUnicodeString(rng), c16SepPool[rng.IntN(len(c16SepPool))]
		if rng.IntN(2) == 0 && len(s) > 0 {
			rs := []rune(s)
			a := rng.IntN(len(rs))
			sep = string(rs[a : a+1])
		}
		doc := map[string]any{"s": s, "sep": sep}
		lib := RunLib("{ print json($.s.split($.sep)) }", []InFile{{Name: "in", Data: jsonBytes(doc)}}, nil, RunOpts{})
		c.Count("law_runs:split")
		if lib.Class != "ok" {
			c.Violation(fmt.Sprintf("split law: %q.split(%q) failed: %s %s", s, sep, lib.Class, lib.Msg), nil, nil)
			continue
		}
		v, _, err := decodeOne(lib.Stdout)
		pieces, ok := v.([]any)
		if err != nil || !ok {
			c.Violation(fmt.Sprintf("split law: %q.split(%q) did not print a JSON array: %q", s, sep, clip(string(lib.Stdout), 80)), nil, nil)
			continue
		}
		var ps []string
		bad := ""
		for _, p := range pieces {
			ps = append(ps, p.(string))
			if sep != "" && strings.Contains(p.(string), sep) {
				bad = "a piece contains the separator"
			}
			if sep == "" && utf8.RuneCountInString(p.(string)) != 1 {
				bad = "empty separator: a piece is not one character"
			}
		}
		if strings.Join(ps, sep) != s {
			bad = "pieces joined by the separator do not give the subject back"
		}
		c.NonTrivial("lawsplit:" + s + "/" + sep)
		if bad != "" {
			c.Violation(fmt.Sprintf("split law: %q.split(%q) = %q: %s", s, sep, ps, bad), nil, map[string]any{"doc": string(jsonBytes(doc))})
		} else {
			c.Held()
		}
	}
	for k := 0; k < 6; k++ {
		x := randHalfish(rng)
		lib := RunLib("{ print $.x.floor(), $.x.ceil(), $.x.round() }", []InFile{{Name: "in", Data: jsonBytes(map[string]any{"x": x})}}, nil, RunOpts{})
		c.Count("law_runs:rounding")
		f := strings.Fields(string(lib.Stdout))
		if lib.Class != "ok" || len(f) != 3 {
			c.Violation(fmt.Sprintf("rounding law: x=%v: %s %q", x, lib.Class, lib.Stdout), nil, nil)
			continue
		}
		fl, _ := strconv.ParseFloat(f[0], 64)
		ce, _ := strconv.ParseFloat(f[1], 64)
		ro, _ := strconv.ParseFloat(f[2], 64)
		bad := ""
		switch {
		case fl != math.Trunc(fl) || ce != math.Trunc(ce) || ro != math.Trunc(ro):
			bad = "result not integral"
		case !(fl <= x && x <= ce) || ce-fl > 1:
			bad = "floor <= x <= ceil violated"
		case math.Abs(ro-x) > 0.5:
			bad = "|round(x) - x| > 0.5"
		case math.Abs(x-math.Trunc(x)) == 0.5 && math.Abs(ro) < math.Abs(x):
			bad = "half not rounded away from zero"
		}
		c.NonTrivial(fmt.Sprintf("lawround:%v", x))
		if bad != "" {
			c.Violation(fmt.Sprintf("rounding law: x=%v floor=%s ceil=%s round=%s: %s", x, f[0], f[1], f[2], bad), nil, nil)
		} else {
			c.Held()
		}
	}
	for k := 0; k < 4; k++ {
		s := randUnicodeString(rng)
		lib := RunLib("{ print json([$.s.upper(), $.s.upper().upper(), $.s.lower(), $.s.lower().lower(), $.s.length()]) }", []InFile{{Name: "in", Data: jsonBytes(map[string]any{"s": s})}}, nil, RunOpts{})
		c.Count("law_runs:case")
		v, _, err := decodeOne(lib.Stdout)
		a, ok := v.([]any)
		if lib.Class != "ok" || err != nil || !ok || len(a) != 5 {
			c.Violation(fmt.Sprintf("case law: %q: %s %q", s, lib.Class, clip(string(lib.Stdout), 80)), nil, nil)
			continue
		}
		c.NonTrivial("lawcase:" + s)
		if a[0] != a[1] || a[2] != a[3] || a[4].(float64) != float64(len(s)) {
			c.Violation(fmt.Sprintf("case law: upper/lower not idempotent or length not in bytes for %q: %v", s, a), nil, nil)
		} else {
			c.Held()
		}
	}
	// pluck: exactly the requested key set, original unchanged
	for k := 0; k < 4; k++ {
		o := map[string]any{}
		keys := []string{"a", "b", "length", "x", "é", "user.name", "a.b"}
		for i := rng.IntN(6); i > 0; i-- {
			o[keys[rng.IntN(len(keys))]] = float64(rng.IntN(9))
		}
		// nested objects: a requested key names an own key of the receiver and nothing else (no paths)
		if rng.IntN(2) == 0 {
			o["user"] = map[string]any{"name": "ann", "a": map[string]any{"b": 1.0}}
		}
		if rng.IntN(3) == 0 {
			o["a"] = map[string]any{"b": map[string]any{"c": 2.0}, "length": 5.0}
		}
		var req []string
		for i := 1 + rng.IntN(4); i > 0; i-- {
			req = append(req, append(keys, "nope", "pluck", "user.name", "a.b", "a.b.c", "user", "user.a.b", "a.length", ".", "user.", ".name")[rng.IntN(len(keys)+11)])
		}
		var sb strings.Builder
		for i, r := range req {
			if i > 0 {
				sb.WriteString(", ")
			}
			sb.WriteString("'" + r + "'")
		}
		prog := "{ print json([$.pluck(" + sb.String() + "), $]) }"
		lib := RunLib(prog, []InFile{{Name: "in", Data: jsonBytes(o)}}, nil, RunOpts{})
		c.Count("law_runs:pluck")
		v, _, err := decodeOne(lib.Stdout)
		a, ok := v.([]any)
		if lib.Class != "ok" || err != nil || !ok || len(a) != 2 {
			c.Violation(fmt.Sprintf("pluck law: %s on %s: %s (%s) %q", prog, jsonBytes(o), lib.Class, lib.Msg, clip(string(lib.Stdout), 80)), nil, nil)
			continue
		}
		got, _ := a[0].(map[string]any)
		want := map[string]any{}
		for _, r := range req {
			if v, ok := o[r]; ok {
				want[r] = v
			} else {
				want[r] = nil
			}
		}
		c.NonTrivial("lawpluck:" + prog + string(jsonBytes(o)))
		if !jsonEqual(want, any(got)) || !jsonEqual(any(o), a[1]) {
			ks := make([]string, 0)
			for k := range got {
				ks = append(ks, k)
			}
			sort.Strings(ks)
			c.Violation(fmt.Sprintf("pluck law: %s on %s gave keys %v = %s (want %s), original afterwards %s", prog, jsonBytes(o), ks, jsonBytes(got), jsonBytes(want), jsonBytes(a[1])), nil, nil)
		} else {
			c.Held()
		}
	}
}

// methods called directly on an expression that yields a value which was never stored in a variable: a character of
// a string, a call result, a parenthesised expression, a literal, a method result (never a crash; string methods on
// single characters against Go's strings package)
func c16DirectReceivers(c *Case) {
	recvs := []string{"'Qx'[0]", "'Qx'[1]", "$.s[0]", "$.s[2]", "s[1]", "pick($.s)[0]", "first($.s)", "('a' + 'B')", "('ab')[0]", "$.s.upper()[0]", "$.s.split('')[0]", "$.list[0][0]", "[$.s][0][1]", "{k: $.s}.k[0]", "'é日'[0]", "$.s[99]", "$.n", "($.n + 0.5)", "[1, 2]", "$.list", "{a: 1}", "null", "true"}
	meths := []string{"upper()", "lower()", "length()", "split('')", "split('x')", "floor()", "ceil()", "round()", "contains(1)", "push(1)", "pop()", "sort()", "pluck('a')", "upper().lower().length()"}
	for _, r := range recvs {
		for _, m := range meths {
			prog := "function pick(v) { return v } function first(v) { return v[0] } { s = $.s; print 'pre'; print " + r + "." + m + "; print 'post' }"
			lib := RunLib(prog, []InFile{{Name: "in", Data: []byte(`{"s": "Hello", "n": 2.5, "list": ["Wx", "yz"]}`)}}, nil, RunOpts{Budget: 100000})
			c.NonTrivial("direct:" + r + "." + m)
			c.Count("direct_receiver_calls")
			if lib.Class != "ok" && lib.Class != "runtime" {
				c.Violation(fmt.Sprintf("%s.%s ended as %s (%s %s)", r, m, lib.Class, lib.Msg, lib.PanicVal), nil, map[string]any{"program": prog})
				continue
			}
			out := string(lib.Stdout)
			if !strings.HasPrefix(out, "pre\n") {
				c.Violation(fmt.Sprintf("%s.%s: earlier output lost: %q", r, m, clip(out, 60)), nil, map[string]any{"program": prog})
				continue
			}
			// the plain string cases have a closed-form answer
			want := map[string]string{"'Qx'[0].upper()": "Q", "'Qx'[0].lower()": "q", "'Qx'[1].upper()": "X", "$.s[0].lower()": "h", "$.s[2].upper()": "L", "s[1].upper()": "E", "'Qx'[0].length()": "1",
				"first($.s).lower()": "h", "pick($.s)[0].lower()": "h", "('a' + 'B').upper()": "AB", "('a' + 'B').length()": "2", "$.s.upper()[0].lower()": "h", "$.list[0][0].lower()": "w", "[$.s][0][1].upper()": "E", "{k: $.s}.k[0].lower()": "h",
				"('ab')[0].upper()": "A", "$.s.split('')[0].lower()": "h", "'Qx'[0].upper().lower().length()": "1"}
			if w, ok := want[r+"."+m]; ok {
				if lib.Class != "ok" || out != "pre\n"+w+"\npost\n" {
					c.Violation(fmt.Sprintf("%s.%s: want %q, got %s (%s) %q", r, m, w, lib.Class, lib.Msg, clip(out, 60)), nil, map[string]any{"program": prog})
					continue
				}
			}
			c.Held()
		}
	}
}

// string literals of the program text that hold bytes which are no valid UTF-8 (a Latin-1 program, a cut-off
// sequence): length counts bytes, so a case-mapped copy has the same length wherever no character changes its
// encoded size, the bytes that are no characters stay as they are, and split('') gives the pieces back
func c16RawBytes(c *Case) {
	raws := []string{"A\xffB", "\xff", "ab\xc3", "\xe6\x97", "x\x80y\x80", "\xfe\xffok", "é\xffÉ", "\xc3\xa9\xc3", "Z\xf0\x9f\x98z", "plain",
		"a\uFFFDB\uFFFD", "\uFFFD", "\uFFFD\xff\uFFFDq", "\xef\xbf", "\uFFFE\uFFFF\U0010FFFFz"} // (U+FFFD itself is a character like any other)
	for _, raw := range raws {
		for _, meth := range []string{"upper", "lower"} {
			prog := "BEGIN { s = \"" + raw + "\"; t = s." + meth + "(); print s.length(), t.length(), t." + meth + "() == t, s.split('').length() >= 1; u = ''; for (p in s.split('')) { u = u + p } print u == s, u.length(); print t }"
			lib := RunLib(prog, nil, nil, RunOpts{Budget: 100000})
			c.NonTrivial("raw:" + raw + meth)
			c.Count("raw_byte_string_calls")
			want := refCase(raw, meth == "upper")
			n := len(raw)
			exp := fmt.Sprintf("%d %d true true\ntrue %d\n%s\n", n, len(want), n, want)
			if lib.Class == "ok" && string(lib.Stdout) == exp {
				c.Held()
			} else {
				c.Violation(fmt.Sprintf("%q.%s(): want %q, got %s (%s) %q", raw, meth, exp, lib.Class, lib.Msg, clip(string(lib.Stdout), 80)), nil, map[string]any{"program": prog})
			}
		}
	}
}

// every split() gives a new array: what a caller does to one result is not seen in the next, equal call
func c16SplitFresh(c *Case) {
	for _, t := range []struct{ prog, want string }{
		{"BEGIN { s = '2024-05-17'; p = s.split('-'); p.pop(); p.push('x'); p[0] = 'y'; q = s.split('-'); print q, p; q.popfirst(); print s.split('-'), '2024-05-17'.split('-').length() }", "[\"2024\", \"05\", \"17\"] [\"y\", \"05\", \"x\"]\n[\"2024\", \"05\", \"17\"] 3\n"},
		{"{ parts = $.d.split('-'); print parts.popfirst(), parts.length(); parts.push('tail') }", "a 2\na 2\na 2\n"},
		{"function first(s) { w = s.split(' '); r = w.popfirst(); w[0] = 'gone'; return r } BEGIN { print first('to be or'), first('to be or'), first('to be or'); print 'to be or'.split(' ') }", "to to to\n[\"to\", \"be\", \"or\"]\n"},
		{"BEGIN { a = 'x,y'.split(','); b = 'x,y'.split(','); a[0] = 1; b.push(2); print a, b, 'x,y'.split(','); c = ''.split(''); c.push(1); print ''.split(''), 'ab'.split(''), 'ab'.split('').pop(), 'ab'.split('') }", "[1, \"y\"] [\"x\", \"y\", 2] [\"x\", \"y\"]\n[] [\"a\", \"b\"] b [\"a\", \"b\"]\n"},
		// and pluck returns a new object: stores into the result do not reach the receiver, nor the other way round (seventh round)
		{"BEGIN { o = {a: 1, b: 2}; p = o.pluck('a'); p.a = 99; print o.a, p.a, o.b; o.a = 5; print p.a, o.a }", "1 99 2\n99 5\n"},
		{"BEGIN { o = {a: 1, b: 2}; p = o.pluck('b', 'a'); o.b += 5; o.a++; print p.a, p.b, o.a, o.b; p.b++; print o.b, p.b }", "1 2 2 7\n7 3\n"},
		{"{ p = $.pluck('d'); p.d = 'gone'; print $.d, p.d }", "a-b-c gone\na-b-c gone\na-b-c gone\n"},
		{"function pk(o) { return o.pluck('n') } BEGIN { src = {n: 1}; x = pk(src); y = pk(src); x.n += 10; src.n += 100; print x.n, y.n, src.n }", "11 1 101\n"},
	} {
		lib := RunLib(t.prog, []InFile{{Name: "in.json", Data: []byte(`{"d": "a-b-c"} {"d": "a-b-c"} {"d": "a-b-c"}`)}}, nil, RunOpts{Budget: 100000})
		c.NonTrivial("split-fresh:" + t.prog)
		c.Count("split_result_independence_programs")
		if lib.Class == "ok" && string(lib.Stdout) == t.want {
			c.Held()
		} else {
			c.Violation(fmt.Sprintf("results of split() / pluck() are values of their own: want %q, got %s (%s) %q | %s", t.want, lib.Class, lib.Msg, clip(string(lib.Stdout), 100), t.prog), nil, map[string]any{"program": t.prog})
		}
	}
}

// one source-level call site applied to receivers of different kinds in turn (whatever a site remembers about the
// receiver it saw first is wrong for the next), and num() of long digit strings (nearest double)
func c16SiteAndDigits(c *Case) {
	progs := []struct{ prog, want string }{
		{"function size(v) { return v.length() } BEGIN { print size('abc'), size([1, 2]), size({a: 1, b: 2, c: 3}), size(''), size([]), size({}) , size('é') }", "3 2 3 0 0 0 2\n"},
		{"function size(v) { return v.length() } BEGIN { print size({a: 1}), size('abcd'), size([1]), size({a: 1, b: 2}) }", "1 4 1 2\n"},
		{"BEGIN { for (v in [[3, 1], 'ab', {k: 1}, [2], 'xyz']) { print v.length() } }", "2\n2\n1\n1\n3\n"},
		{"{ print $.v.length() }", "3\n2\n1\n0\n"},
		{"function up(v) { return v.upper() } BEGIN { print up('a'), up('é'), up('B1') }", "A É B1\n"},
		{"function has(v, x) { return v.contains(x) } BEGIN { print has([1, 2], 2), has(['a'], 'b'), has([], null) }", "true false false\n"},
		{"function pk(v) { return v.pluck('a') } function ln(v) { return v.length() } BEGIN { print pk({a: 1, b: 2}), ln('xy'), pk({b: 1}), ln({a: 1}) }", "{\"a\": 1} 2 {\"a\": null} 1\n"},
	}
	in := `{"v": "abc"} {"v": [1, 2]} {"v": {"k": 1}} {"v": ""}`
	for _, t := range progs {
		lib := RunLib(t.prog, []InFile{{Name: "in", Data: []byte(in)}}, nil, RunOpts{Budget: 100000})
		c.NonTrivial("site:" + t.prog)
		c.Count("one_site_many_receiver_kinds")
		if lib.Class != "ok" || string(lib.Stdout) != t.want {
			c.Violation(fmt.Sprintf("one call site, receivers of several kinds: want %q, got %s (%s %s) %q | %s", t.want, lib.Class, lib.Msg, lib.PanicVal, clip(string(lib.Stdout), 80), t.prog), nil, map[string]any{"program": t.prog})
			continue
		}
		c.Held()
	}
	// a site that first saw a method of one kind and then gets a receiver without it: an ordinary runtime error, never a crash
	for _, prog := range []string{
		"function pk(v) { return v.pluck('a') } BEGIN { print pk({a: 1}); print pk('str') }", "function srt(v) { return v.sort() } BEGIN { print srt([2, 1]); print srt({a: 1}) }",
		"function sp(v) { return v.split(',') } BEGIN { print sp('a,b'); print sp([1]) }", "function fl(v) { return v.floor() } BEGIN { print fl(2.5); print fl('2.5') }",
	} {
		lib := RunLib(prog, nil, nil, RunOpts{Budget: 100000})
		c.NonTrivial("site-error:" + prog)
		if lib.Class != "runtime" || !strings.Contains(string(lib.Stdout), "\n") || strings.Count(string(lib.Stdout), "\n") != 1 {
			c.Violation(fmt.Sprintf("a method a receiver kind does not have, at a site that had it before: want one output line and a runtime error, got %s (%s %s) %q | %s", lib.Class, lib.Msg, lib.PanicVal, clip(string(lib.Stdout), 80), prog), nil, map[string]any{"program": prog})
			continue
		}
		c.Held()
	}
	rng := c.Rng
	for k := 0; k < 60; k++ {
		n := 15 + rng.IntN(14)
		var sb strings.Builder
		sb.WriteByte(byte('1' + rng.IntN(9)))
		for i := 1; i < n; i++ {
			sb.WriteByte(byte('0' + rng.IntN(10)))
		}
		ds := sb.String()
		want, _ := strconv.ParseFloat(ds, 64)
		// (num of the number itself, a whole number of 15-28 digits: that number)
		lib := RunLib("{ print num($.s) == $.n && num(num($.s)) == $.n && num($.n) == $.n && num(0 - $.n) == 0 - $.n, num($.s) - $.n + (num($.n) - $.n) }", []InFile{{Name: "in", Data: []byte(`{"s": "` + ds + `", "n": ` + ds + `}`)}}, nil, RunOpts{})
		c.Count("law_runs:num-of-long-digit-strings")
		c.NonTrivial("digits:" + ds)
		if lib.Class != "ok" || string(lib.Stdout) != "true 0\n" {
			c.Violation(fmt.Sprintf("num(%q), num of that result, or num of the number %s itself is not the nearest double %v (the same digits read as a JSON number): %s %q", ds, ds, want, lib.Class, clip(string(lib.Stdout), 60)), nil, map[string]any{"digits": ds})
			continue
		}
		c.Held()
	}
}

// pluck over several records in one run, each result modified afterwards: every result is a new object whose
// absent keys are null, whatever was stored into earlier results
func c16PluckHistory(c *Case) {
	rng := c.Rng
	keys := []string{"a", "b", "length", "x", "é", "nick"}
	var req []string
	for i := 1 + rng.IntN(4); i > 0; i-- {
		req = append(req, append(keys, "nope", "pluck")[rng.IntN(len(keys)+2)])
	}
	var recs []map[string]any
	var in strings.Builder
	for n := 2 + rng.IntN(4); n > 0; n-- {
		o := map[string]any{}
		for i := rng.IntN(5); i > 0; i-- {
			o[keys[rng.IntN(len(keys))]] = float64(rng.IntN(9))
		}
		recs = append(recs, o)
		in.Write(jsonBytes(o))
		in.WriteByte('\n')
	}
	var args, stores strings.Builder
	for i, r := range req {
		if i > 0 {
			args.WriteString(", ")
		}
		args.WriteString("'" + r + "'")
		switch rng.IntN(3) {
		case 0:
			fmt.Fprintf(&stores, "r['%s'] = 'filled'; ", r)
		case 1:
			fmt.Fprintf(&stores, "r['%s']++; ", r)
		default:
			fmt.Fprintf(&stores, "r['%s'] += 5; ", r)
		}
	}
	prog := "{ r = $.pluck(" + args.String() + "); print '@@'; print json([r, $]); " + stores.String() + "print json($); last = r } END { print '@@'; print json(last) }"
	lib := RunLib(prog, []InFile{{Name: "in", Data: []byte(in.String())}}, nil, RunOpts{Budget: 100000})
	c.Count("law_runs:pluck-history")
	c.NonTrivial("pluckhist:" + prog + in.String())
	parts := strings.Split(string(lib.Stdout), "@@\n")
	if lib.Class != "ok" || len(parts) != len(recs)+2 {
		c.Violation(fmt.Sprintf("pluck history: %s (%s), %d output sections for %d records | %s", lib.Class, lib.Msg, len(parts)-1, len(recs), prog), nil, map[string]any{"program": prog, "input": in.String()})
		return
	}
	for i, o := range recs {
		v, used, err := decodeOne([]byte(parts[i+1]))
		a, ok := v.([]any)
		if err != nil || !ok || len(a) != 2 {
			c.Violation("pluck history: unreadable output section "+clip(parts[i+1], 80), nil, map[string]any{"program": prog, "input": in.String()})
			return
		}
		// the record after the stores into the result: the result is a new object, so the record is as it was
		rest := parts[i+1][used:]
		after, _, err := decodeOne([]byte(rest))
		if err != nil || !jsonEqual(any(o), after) {
			c.Violation(fmt.Sprintf("pluck history: record %d %s is %s after stores into the object that pluck(%v) returned | %s", i, jsonBytes(o), clip(strings.TrimSpace(rest), 80), req, prog), nil, map[string]any{"program": prog, "input": in.String()})
			return
		}
		want := map[string]any{}
		for _, r := range req {
			if v, ok := o[r]; ok {
				want[r] = v
			} else {
				want[r] = nil
			}
		}
		if !jsonEqual(any(want), a[0]) || !jsonEqual(any(o), a[1]) {
			c.Violation(fmt.Sprintf("pluck history: record %d %s plucked for %v gave %s (want %s; record afterwards %s) after earlier results were modified | %s", i, jsonBytes(o), req, jsonBytes(a[0]), jsonBytes(want), jsonBytes(a[1]), prog), nil, map[string]any{"program": prog, "input": in.String()})
			return
		}
	}
	c.Held()
}

func c16Cases(tier string) int {
	n := len(c16Methods) + 3
	if tier == "thorough" {
		return n + 500000 + 500000
	}
	return n + 10000 + 6000
}

func c16Run(c *Case) {
	nm := len(c16Methods) + 3
	ns := 10000
	if c.Tier == "thorough" {
		ns = 500000
	}
	switch {
	case c.Idx < nm:
		c16Matrix(c, c.Idx)
		if c.Idx == 0 {
			round8Hand(c, "C16")
			c16DirectReceivers(c)
		}
		if c.Idx == 1 {
			c16SiteAndDigits(c)
		}
		if c.Idx == 2 {
			c16RawBytes(c)
			c16SplitFresh(c)
		}
	case c.Idx < nm+ns:
		c16Sampled(c)
		if c.Idx == nm {
			c.Sample(map[string]any{"kind": "sampled batch of method calls on document fields (split/upper/lower/length/floor/ceil/round/pluck/num)"})
		}
	default:
		c16Laws(c)
		c16PluckHistory(c)
	}
}

func init() {
	register(&Prop{
		ID: "C16", Level: "exploration",
		Rule:          "enumerated: 13 methods + 3 builtins x 32 receiver values (all 10 kinds) x 9 argument lists (0-3 arguments of several kinds): result vs reference, and never a panic; 14 methods called directly on 23 receiver expressions that were never stored (a character of a string, a call result, a parenthesised expression, a literal, a method result): never a crash, closed-form results for the string cases; 11 programs applying one call site to receivers of several kinds in turn; num() of 60 digit strings of 15-28 digits against the same digits read as a JSON number; sampled: receivers/arguments supplied through the input document so every UTF-8 string is reachable (multi-byte, separators at the ends / repeated / overlapping / empty / longer than the subject; doubles at and around halves, beyond 2^53, tiny; objects and key lists with present/absent/repeated keys and the method names length/pluck; numeric and non-numeric spellings for num) compared with reference functions; algebraic laws checked on the implementation's output alone (split pieces/join, floor<=x<=ceil, round half away, case idempotence, byte length, pluck key set (also for keys with dots over nested objects: a key names an own key, never a path) and immutability, also over 2-5 records in one run whose results are each modified after the call, num(str(x))==x). Non-trivial = non-ASCII / separator at an end or empty / non-integral number / absent key; distinct by call+document. String literals of the program holding bytes that are no valid UTF-8 (10 strings x upper / lower): length counts bytes, those bytes stay as they are, split(\"\") gives the pieces back. num() of whole numbers of 15-28 digits (as string, of its own result, of the number itself) is that number. U+FFFD as a character; 4 hand-computed programs: results of equal split() calls are independent arrays; 4 more: stores through the result of pluck() and through its receiver do not reach the other, and the pluck histories print the record again after the stores.",
		NumCases:      c16Cases,
		Run:           c16Run,
		MinConclusive: func(tier string) int { return 5000 },
		Exhaustive:    func(tier string) string { return "method/builtin x receiver value x argument list matrix" },
		Assumptions:   []string{"contracts of DESIGN.md section 3.10", "unicode.ToUpper/ToLower define the case mapping; bytes that are no valid UTF-8 are kept as they are (checked on string literals of the program; in the input document the JSON reader replaces them, which is [P])"},
	})
}
