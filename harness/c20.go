package main

// C20 — unbounded single steps are refused with an error, not by exhausting the process.
// Every case runs in its own worker subprocess (address-space limit 4 GiB): monitor M9.

import (
	"fmt"
	"strconv"
	"strings"
	"syscall"
	"time"
)

type limitCase struct {
	name  string
	prog  string
	input []byte
	// expectation bands
	want string // ok | error | either   (error = runtime or json error, never a crash)
	// the output must start with this marker and, when want==ok or the run is ok, end with okTail
	marker string
	okTail string
	mk     func() string // builds the program text when the case runs (multi-megabyte programs)
}

func recShapes() []struct{ name, tmpl string } {
	// %N = nesting prefix, %S = nesting suffix, %L = limit expression (depth target or none)
	return []struct{ name, tmpl string }{
		{"direct", "function r(n) { %Greturn %Nr(n + 1)%S }"},
		{"mutual-2", "function r(n) { %Greturn %Nq(n + 1)%S } function q(n) { return r(n + 1) }"},
		{"mutual-3", "function r(n) { %Greturn %Nq(n + 1)%S } function q(n) { return p(n + 1) } function p(n) { return r(n + 1) }"},
		{"match-expression-body", "function r(n) { %Greturn match (n) { v => %Nr(v + 1)%S } }"},
		{"match-block-body", "function r(n) { %Gmatch (n) { v => { return %Nr(v + 1)%S } } }"},
		{"through-argument", "function id(v) { return v } function r(n) { %Greturn id(%Nr(n + 1)%S) }"},
	}
}

func nestings() []struct{ name, pre, suf string } {
	return []struct{ name, pre, suf string }{
		{"plain", "", ""},
		{"100-prefix-minus", strings.Repeat("- ", 100), ""},
		{"3000-prefix-minus", strings.Repeat("- ", 3000), ""},
		{"400-term-binary-chain", "", strings.Repeat(" - 1", 400)},
		{"3000-term-binary-chain", "", strings.Repeat(" + 1", 3000)},
		{"300-term-comparison-and-logic-chain", "", strings.Repeat(" && 1", 300)},
		{"100-parens-and-plus", strings.Repeat("1 + (", 100), strings.Repeat(")", 100)},
		{"3000-array-literals", strings.Repeat("[", 3000), strings.Repeat("]", 3000)},
	}
}

func c20Cases_() []limitCase {
	var out []limitCase
	for _, sh := range recShapes() {
		for _, ne := range nestings() {
			for _, target := range []int{1000, 3000, 0} {
				guard := ""
				want := "error"
				tail := ""
				if target > 0 {
					guard = fmt.Sprintf("if (n >= %d) { return 'bottom' } ", target)
					want = "either"
					if target == 1000 && ne.name == "plain" {
						want = "ok" // recursion a thousand deep works
					}
					tail = "done\n"
				}
				p := strings.NewReplacer("%G", guard, "%N", ne.pre, "%S", ne.suf).Replace(sh.tmpl)
				p += " BEGIN { print 'marker'; x = r(1); print 'done' }"
				if len(p) > 65536 {
					continue
				}
				out = append(out, limitCase{name: fmt.Sprintf("recursion/%s/%s/depth-%d", sh.name, ne.name, target), prog: p, want: want, marker: "marker\n", okTail: tail})
			}
		}
	}
	// the frame that crosses the limit may be a function frame or a match frame: every shape entered at 5 different depths / frame kinds
	entries := []struct{ name, funcs, call string }{
		{"one-wrapper", "function w1(n) { return r(n) }", "x = w1(1)"},
		{"two-wrappers", "function w1(n) { return w2(n) } function w2(n) { return r(n) }", "x = w1(1)"},
		{"from-match-expression-body", "", "x = match (1) { k => r(k) }"},
		{"from-match-block-body", "", "match (1) { k => { x = r(k) } }"},
		{"from-match-in-wrapper", "function w1(n) { return match (n) { k => r(k) } }", "x = w1(1)"},
		{"from-nested-matches", "", "x = match (1) { k => match (k) { j => r(j) } }"},
	}
	for _, sh := range recShapes() {
		for _, en := range entries {
			p := strings.NewReplacer("%G", "", "%N", "", "%S", "").Replace(sh.tmpl) + " " + en.funcs + " BEGIN { print 'marker'\n" + en.call + "\nprint 'done' }"
			out = append(out, limitCase{name: fmt.Sprintf("recursion/%s/entered-%s/depth-0", sh.name, en.name), prog: p, want: "error", marker: "marker\n"})
		}
	}
	// recursion through a rule's pattern
	out = append(out, limitCase{name: "recursion/through-pattern/plain/depth-0", prog: "function r(n) { return r(n + 1) } BEGIN { print 'marker' } r(1) { print 'body' }", input: []byte("[1]"), want: "error", marker: "marker\n"})
	out = append(out, limitCase{name: "recursion/fib-like-two-calls/depth-0", prog: "function r(n) { return r(n + 1) + r(n + 2) } BEGIN { print 'marker'; r(1) }", want: "error", marker: "marker\n"})

	// array extension
	idx := []struct {
		text string
		band string // store band
		read string // read band
	}{
		{"999999", "ok", "ok"}, {"1000000", "ok", "ok"}, {"1048576", "either", "ok"}, {"1048577", "either", "ok"}, {"1999999", "either", "ok"},
		{"2000000", "error", "either"}, {"1000000000", "error", "either"}, {"1000000000000000000", "error", "either"}, {"99999999999999999999999", "error", "either"},
		{"-1", "error", "error"}, {"-1000000000000000000", "error", "error"}, {"0.5", "either", "either"},
	}
	for _, ix := range idx {
		for _, base := range []string{"empty", "nonempty"} {
			init := "a = []"
			if base == "nonempty" {
				init = "a = [1, 2, 3]"
			}
			band := ix.band
			rband := ix.read
			if base == "nonempty" && ix.text == "-1" {
				band, rband = "ok", "ok"
			}
			out = append(out, limitCase{name: "array/store/" + base + "/" + ix.text, prog: "BEGIN { print 'marker'; " + init + "; a[" + ix.text + "] = 7; print 'stored', a.length() > 0; print 'done' }", want: band, marker: "marker\n", okTail: "done\n"})
			out = append(out, limitCase{name: "array/read/" + base + "/" + ix.text, prog: "BEGIN { print 'marker'; " + init + "; v = a[" + ix.text + "]; print 'read', a.length(); print 'done' }", want: rband, marker: "marker\n", okTail: "done\n"})
		}
		out = append(out, limitCase{name: "array/store-dollar-path/" + ix.text, prog: "{ print 'marker'; $.list[" + ix.text + "] = 7; print 'done' }", input: []byte(`{"list": [1, 2]}`), want: mapBand(ix.band, ix.text), marker: "marker\n", okTail: "done\n"})
		out = append(out, limitCase{name: "array/store-fresh-nested/" + ix.text, prog: "BEGIN { print 'marker'; o.a.b[" + ix.text + "] = 7; print 'done' }", want: mapBandFresh(ix.band, ix.text), marker: "marker\n", okTail: "done\n"})
	}
	out = append(out, limitCase{name: "array/store-in-loop/1000000", prog: "BEGIN { print 'marker'; for (i = 0; i < 4; i++) { a = []; a[1000000] = i } print 'done' }", want: "ok", marker: "marker\n", okTail: "done\n"})
	out = append(out, limitCase{name: "array/store-in-loop/2000000", prog: "BEGIN { print 'marker'; for (i = 0; i < 4; i++) { a = []; a[2000000] = i } print 'done' }", want: "error", marker: "marker\n"})
	out = append(out, limitCase{name: "array/grow-by-push/100000", prog: "BEGIN { print 'marker'; a = []; for (i = 0; i < 100000; i++) { a.push(i) } print a.length(); print 'done' }", want: "ok", marker: "marker\n", okTail: "100000\ndone\n"})
	// the limit is on the index, not on the distance from the current end
	out = append(out, limitCase{name: "array/store-long-then-beyond/1000000+2000000", prog: "BEGIN { print 'marker'; a[1000000] = 1; print 'first'; a[2000000] = 2; print 'done' }", want: "error", marker: "marker\nfirst\n"})
	out = append(out, limitCase{name: "array/store-long-then-beyond/1000000+3000000", prog: "BEGIN { print 'marker'; a = [1]; a[1000000] = 1; print 'first'; a[3000000] = 2; print 'done' }", want: "error", marker: "marker\nfirst\n"})
	out = append(out, limitCase{name: "array/store-stepping/1000000-per-step", prog: "BEGIN { print 'marker'; for (i = 1; i < 40; i++) { a[i * 1000000] = i } print 'done' }", want: "error", marker: "marker\n"})
	out = append(out, limitCase{name: "array/store-stepping-by-push-and-index", prog: "BEGIN { print 'marker'; a[1000000] = 1; for (i = 0; i < 1000; i++) { a.push(i) } a[a.length() + 1000000] = 2; print 'done' }", want: "error", marker: "marker\n"})
	out = append(out, limitCase{name: "array/read-long-then-beyond", prog: "BEGIN { print 'marker'; a[1000000] = 1; v = a[5000000]; print a.length() < 2000000; print 'done' }", want: "either", marker: "marker\n", okTail: "true\ndone\n"})
	// ordinary long-running programs at shallow depth are not refused: the limits bound nesting, not history
	for _, l := range c07Longs() {
		out = append(out, limitCase{name: "long-history/" + l.name, prog: "BEGIN { print 'marker' } " + l.prog, input: []byte(l.input), want: "ok", marker: "marker\n", okTail: l.want})
	}
	out = append(out, limitCase{name: "long-history/deep-then-long", prog: "function r(n) { if (n >= 900) { return 0 } return 1 + r(n + 1) } BEGIN { print 'marker'; for (i = 0; i < 300; i++) { t = t + r(0) } print t }", want: "ok", marker: "marker\n", okTail: "270000\n"})
	out = append(out, limitCase{name: "long-history/printf-many", prog: "BEGIN { print 'marker'; for (i = 0; i < 20000; i++) { printf('%8s', 'x') } print ''; print 'done' }", want: "ok", marker: "marker\n", okTail: "done\n"})
	out = append(out, limitCase{name: "array/huge-then-small", prog: "BEGIN { print 'marker'; a[2000000] = 1 }", want: "error", marker: "marker\n"})

	// printf width
	// a width taken from the argument list is not part of the language: '*' is an unknown code, whatever the argument
	for _, a := range []string{"5", "70000", "-3000000000", "4000000000000000000", "-70000", "65537"} {
		out = append(out, limitCase{name: "printf/%*s/" + a, prog: "BEGIN { print 'marker'; printf('%*s|', " + a + ", 'x'); print ''; print 'done' }", want: "error", marker: "marker\n"})
	}
	for _, w := range []struct{ w, band string }{{"9999999999999999999", "error"}, {"12345678901234567890", "error"}, {"-9223372036854775809", "error"}, {"9223372036854775807", "error"}, {"9223372036854775808", "error"},
		{"18446744073709551616", "error"}, {"18446744073709551621", "error"}, {"18446744073709617152", "error"}, {"4294967296", "error"}, {"4294967301", "error"}, {"-4294967301", "error"}, {"2147483648", "error"}, {"340282366920938463463374607431768211461", "error"}, {"000000000000000000000000000005", "either"}, {"65535", "ok"}, {"-65535", "ok"},
		{"4096", "ok"}, {"65536", "ok"}, {"-65536", "ok"}, {"065536", "ok"}, {"65537", "error"}, {"-65537", "error"}, {"10000000000", "error"}, {"-10000000000", "error"}, {"999999999999999999999999999999", "error"}, {"100000", "error"}} {
		for _, code := range []string{"s", "f", "v"} {
			arg := "'x'"
			if code == "f" {
				arg = "1.5"
			}
			out = append(out, limitCase{name: "printf/%" + w.w + code, prog: "BEGIN { print 'marker'; printf('%" + w.w + code + "|', " + arg + "); print ''; print 'done' }", want: w.band, marker: "marker\n", okTail: "done\n"})
		}
	}
	// JSON input nesting
	for _, d := range []struct {
		n    int
		band string
	}{{1000, "ok"}, {5000, "ok"}, {9999, "either"}, {10001, "either"}, {20000, "error"}, {1000000, "error"}} {
		for _, kind := range []string{"array", "object", "mixed"} {
			var sb strings.Builder
			var closers []byte
			for i := 0; i < d.n; i++ {
				obj := kind == "object" || (kind == "mixed" && i%2 == 1)
				if obj {
					sb.WriteString("{\"a\":")
					closers = append(closers, '}')
				} else {
					sb.WriteByte('[')
					closers = append(closers, ']')
				}
			}
			sb.WriteString("1")
			for i := len(closers) - 1; i >= 0; i-- {
				sb.WriteByte(closers[i])
			}
			sb.WriteString("\n[\"second\"]\n")
			tail := "got\ngot\ndone\n"
			out = append(out, limitCase{name: fmt.Sprintf("json-nesting/%s/%d", kind, d.n), prog: "BEGIN { print 'marker' } BEGINFILE { print 'got' } END { print 'done' }", input: []byte(sb.String()), want: d.band, marker: "marker\n", okTail: tail})
		}
	}
	// program texts of several megabytes: nesting and line ends without bound in the source text itself
	rep := strings.Repeat
	for _, hp := range []struct {
		name, band, tail string
		mk               func() string
	}{
		{"3000000-parentheses", "either", "1\n", func() string {
			return "BEGIN { print 'marker'; print " + rep("(", 3000000) + "1" + rep(")", 3000000) + " }"
		}},
		{"150000-parentheses", "either", "1\n", func() string {
			return "BEGIN { print 'marker'; print " + rep("(", 150000) + "1" + rep(")", 150000) + " }"
		}},
		{"3000-parentheses", "ok", "1\n", func() string {
			return "BEGIN { print 'marker'; print " + rep("(", 3000) + "1" + rep(")", 3000) + " }"
		}},
		{"3000000-prefix-not", "either", "", func() string { return "BEGIN { print 'marker'; print " + rep("!", 3000000) + "1 }" }},
		{"3000000-array-brackets", "either", "", func() string { return "BEGIN { print 'marker'; x = " + rep("[", 3000000) + rep("]", 3000000) + " }" }},
		{"2000000-unclosed-brackets", "error", "", func() string { return "BEGIN { print 'marker'; x = " + rep("[", 2000000) }},
		{"4000000-unclosed-parentheses", "error", "", func() string { return "BEGIN { print 'marker'; print " + rep("(", 4000000) }},
		{"2000000-chained-assignments", "either", "", func() string { return "BEGIN { print 'marker'; " + rep("a = ", 2000000) + "1 }" }},
		{"600000-nested-rule-blocks", "either", "", func() string { return "BEGIN " + rep("{", 600000) + " print 1 " + rep("}", 600000) }},
		{"1000000-nested-ifs", "either", "", func() string { return "BEGIN { print 'marker'; " + rep("if (1) ", 1000000) + "print 1 }" }},
		{"3000000-nested-blocks", "either", "", func() string { return "BEGIN { print 'marker'; " + rep("{", 3000000) + rep("}", 3000000) + " }" }},
		{"1000000-nested-match", "either", "", func() string {
			return "BEGIN { print 'marker'; print " + rep("match (1) { x => ", 1000000) + "1" + rep(" }", 1000000) + " }"
		}},
		{"12000000-line-ends", "ok", "1\n", func() string { return "BEGIN { print 'marker'" + rep("\n", 12000000) + " print 1 }" }},
		{"3000000-comment-lines", "ok", "1\n", func() string { return "BEGIN { print 'marker'" + rep("# c\n", 3000000) + " print 1 }" }},
		{"1000000-statements", "ok", "done\n", func() string { return "BEGIN { print 'marker'\n" + rep("x = x + 1\n", 1000000) + "print 'done' }" }},
	} {
		marker := "marker\n"
		if hp.band != "ok" {
			marker = "" // a program refused by the parser prints nothing at all
		}
		out = append(out, limitCase{name: "huge-program/" + hp.name, want: hp.band, marker: marker, okTail: hp.tail, mk: hp.mk})
	}
	// unterminated deep input (never closed)
	out = append(out, limitCase{name: "json-nesting/unclosed/1000000", prog: "BEGIN { print 'marker' } { print 'got' }", input: []byte(strings.Repeat("[", 1000000)), want: "error", marker: "marker\n"})
	return out
}

func mapBand(band, ix string) string {
	if ix == "-1" {
		return "ok" // $.list has two elements
	}
	return band
}

func mapBandFresh(band, ix string) string {
	if ix == "-1" {
		return "error"
	}
	return band
}

var c20List = c20Cases_()

func c20Run(c *Case) {
	lc := c20List[c.Idx]
	if lc.mk != nil {
		lc.prog = lc.mk()
	}
	var files []InFile
	if len(lc.input) > 0 {
		files = []InFile{{Name: "in.json", Data: lc.input}}
	}
	family := strings.SplitN(lc.name, "/", 2)[0]
	budget := 2000000000
	if family == "recursion" {
		// a recursion that is refused after a few thousand frames executes a few ten thousand statements; one that is still
		// running after a hundred million has not been refused (ninth round: a self tail call that re-uses its frame)
		budget = 100000000
	}
	lib := RunLib(lc.prog, files, nil, RunOpts{Budget: budget})
	var ru syscall.Rusage
	syscall.Getrusage(syscall.RUSAGE_SELF, &ru)
	c.Count("family:" + family)
	c.Count("outcome:" + lib.Class)
	c.Max("peak_rss_kb:"+family, int(ru.Maxrss))
	c.Max("max_frame_depth", lib.MaxDepth)
	c.NonTrivial(lc.name)
	rp := map[string]any{"case": lc.name, "program": clip(lc.prog, 2000), "class": lib.Class, "msg": lib.Msg, "stdout": clip(string(lib.Stdout), 300), "peak_rss_kb": ru.Maxrss}
	out := string(lib.Stdout)
	isErr := lib.Class == "runtime" || lib.Class == "json" || (lc.mk != nil && lib.Class == "syntax")
	switch {
	case lib.Class == "budget" && family == "recursion":
		c.Violation(fmt.Sprintf("%s: still running after %d statements - the recursion is neither finished nor refused", lc.name, budget), nil, rp)
		return
	case lib.Class != "ok" && !isErr:
		c.Violation(fmt.Sprintf("%s: ended as %s (%s %s)", lc.name, lib.Class, lib.Msg, lib.PanicVal), nil, rp)
		return
	case lc.mk != nil && lib.Class == "ok" && !strings.HasPrefix(out, "marker\n"):
		c.Violation(fmt.Sprintf("%s: the program ran but its first output is missing: %q", lc.name, clip(out, 60)), nil, rp)
		return
	case !strings.HasPrefix(out, lc.marker):
		c.Violation(fmt.Sprintf("%s: output written before the limit was reached is lost: %q", lc.name, clip(out, 60)), nil, rp)
		return
	case lc.want == "ok" && lib.Class != "ok":
		c.Violation(fmt.Sprintf("%s: below the limit but refused: %s (%s)", lc.name, lib.Class, lib.Msg), nil, rp)
		return
	case lc.want == "error" && !isErr:
		c.Violation(fmt.Sprintf("%s: beyond the limit but not refused (outcome ok, %d output bytes)", lc.name, len(out)), nil, rp)
		return
	case lib.Class == "ok" && lc.okTail != "" && !strings.HasSuffix(out, lc.okTail):
		c.Violation(fmt.Sprintf("%s: run succeeded but the output does not end with %q: %q", lc.name, lc.okTail, clip(out[max(0, len(out)-80):], 80)), nil, rp)
		return
	}
	if strings.HasPrefix(lc.name, "recursion/") && isErr {
		c.Max("refusal_frame_depth", lib.MaxDepth)
	}
	// the same step through the command-line binary (its process has its own stack and memory settings)
	if (family == "recursion" || family == "long-history") && len(lc.prog) < 100000 && len(lc.input) < 100000 {
		args := []string{"--", lc.prog}
		r := RunCli(c.env.Jqawk, args, lc.input, c.env.Scratch, 170*time.Second)
		c.Count("binary_runs")
		switch {
		case r.TimedOut:
			c.Inconclusive("binary-watchdog")
			return
		case cliFault(r) != "":
			c.Violation(fmt.Sprintf("%s through the binary: %s | stderr %s", lc.name, cliFault(r), clip(string(r.Stderr), 200)), nil, rp)
			return
		case !strings.HasPrefix(string(r.Stdout), lc.marker):
			c.Violation(fmt.Sprintf("%s through the binary: output written before the limit was reached is lost: %q", lc.name, clip(string(r.Stdout), 60)), nil, rp)
			return
		case (r.Exit == 0) != (lib.Class == "ok"):
			c.Violation(fmt.Sprintf("%s: the binary exits %d but the library run ended as %s", lc.name, r.Exit, lib.Class), nil, rp)
			return
		}
	}
	if c.Idx == 0 || c.Idx == len(c20List)-3 {
		c.Sample(map[string]any{"case": lc.name, "program": clip(lc.prog, 300), "outcome": lib.Class, "message": lib.Msg, "peak_rss_kb": ru.Maxrss, "max_frame_depth": lib.MaxDepth})
	}
	c.Held()
	_ = strconv.Itoa
}

func init() {
	register(&Prop{
		ID: "C20", Level: "exploration",
		Rule:             "enumerated boundary programs, each run in its own subprocess under a 4 GiB address-space limit (process death, also by running out of memory, is a violation): recursion of 6 shapes (direct, mutual-2, mutual-3, through match expression body, through match block body, through an argument) x 8 per-level expression nestings (none, 100 / 3000 prefix operators, 100 parenthesised additions, 3000 array literals, chains of 400 / 3000 / 300 binary operators) x depth targets {1000, 3000, unbounded}, each shape also entered through one / two wrapper functions and from inside match bodies (so that the frame crossing the limit is a function frame in some and a match frame in others), plus recursion from a rule pattern and with two recursive calls; ordinary long histories at shallow depth (70000-150000 loop rounds / calls / input values with signals, 300 x 900-deep recursion) must not be refused; array stores and reads at indices 999999 / 1000000 / 1048576 / 1048577 / 1999999 / 2000000 / 1e9 / 1e18 / 1e23 / -1 / -1e18 / 0.5 on empty and non-empty arrays, through $-paths, through freshly created nested paths, repeated in a loop, and beyond the limit on an array that is already a million long (the limit is on the index, not on the distance); printf widths 4096 / +-65535 / +-65536 / 065536 / +-65537 / 1e5 / +-1e10 / 30 digits, and widths at and beyond 2^31, 2^32, 2^63, 2^64, 2^128 (+ small offsets, which wrap to small numbers in fixed-width arithmetic) for %s %f %v; program texts of 1-12 MB (3 000 000 nested parentheses / brackets / prefix operators / blocks, 1 000 000 nested ifs / matches, 12 000 000 consecutive line ends, 3 000 000 comment lines, 1 000 000 statements): refused with a syntax error or run, never a crash; JSON input nested 1000 / 5000 / 9999 / 10001 / 20000 / 1000000 deep in arrays, objects and mixtures followed by a second value, and a million unclosed brackets. The recursion and long-history programs also run through the command-line binary (no signal, no Go trace, same outcome class as the library). Oracle: bands, not today's constants (1000 frames, index <= 1e6, width <= 65536, nesting <= 5000 must work; unbounded recursion, index >= 2e6, width > 65536, nesting >= 20000 must be an ordinary runtime/JSON error; in between either), the marker printed before the step must be kept. Evidence: peak RSS per family and the frame depth at refusal (hook). Every case is non-trivial.",
		NumCases:         func(tier string) int { return len(c20List) },
		Run:              c20Run,
		MinConclusive:    func(tier string) int { return len(c20List) * 9 / 10 },
		Chunk:            func(tier string) int { return 1 },
		CrashIsViolation: true,
		Exhaustive:       func(tier string) string { return "the boundary program table (quick and thorough run the same table)" },
		Assumptions:      []string{"limits are checked as bands so that a maintainer may move a constant; only orders of magnitude are pinned by the property", "depth 1000 is required to work only without additional per-level expression nesting"},
	})
}
