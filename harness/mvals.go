package main

// Reference model, part 1: values, coercions, rendering (DESIGN §3.1, §3.11).

import (
	"math"
	"regexp"
	"sort"
	"strconv"
	"strings"
)

type Kind int

const (
	KNum Kind = iota
	KStr
	KBool
	KNull
	KUnset
	KArr
	KObj
	KRegex
	KFunc
	KNative
)

var kindNames = []string{"number", "string", "bool", "null", "unset", "array", "object", "regex", "function", "native"}

func (k Kind) String() string { return kindNames[k] }

type Val struct {
	K    Kind
	N    float64
	S    string // string / regex pattern / native name
	B    bool
	A    *MArr
	O    *MObj
	F    *Func
	Recv *Val // bound receiver of a native method
	J    bool // string produced by json(): compared semantically when printed
}

type Slot struct {
	V      Val
	absent bool // placeholder created on the way to a store; holds null until stored
}

type MArr struct {
	E      []*Slot
	shared bool // reachable from more than one place (conservative)
}

type MObj struct {
	Keys []string // insertion order (rendering order is not compared)
	M    map[string]*Slot
}

func mNum(f float64) Val  { return Val{K: KNum, N: f} }
func mStr(s string) Val   { return Val{K: KStr, S: s} }
func mBool(b bool) Val    { return Val{K: KBool, B: b} }
func mNull() Val          { return Val{K: KNull} }
func mUnset() Val         { return Val{K: KUnset} }
func newMArr() *MArr      { return &MArr{} }
func newMObj() *MObj      { return &MObj{M: map[string]*Slot{}} }
func mArrVal(a *MArr) Val { return Val{K: KArr, A: a} }
func mObjVal(o *MObj) Val { return Val{K: KObj, O: o} }

func (o *MObj) Set(k string, v Val) {
	if s, ok := o.M[k]; ok {
		s.V = v
		return
	}
	o.Keys = append(o.Keys, k)
	o.M[k] = &Slot{V: v}
}

func (o *MObj) SortedKeys() []string {
	ks := append([]string(nil), o.Keys...)
	sort.Strings(ks)
	return ks
}

var numericRe = regexp.MustCompile(`^[+-]?([0-9]+(\.[0-9]*)?|\.[0-9]+)([eE][+-]?[0-9]+)?$`)

// numericString: the [S] notion of a numeric string. pinned reports spellings that Go's
// ParseFloat accepts but the statements do not define.
func numericString(s string) (f float64, ok bool, pinned bool) {
	if numericRe.MatchString(s) {
		f, err := strconv.ParseFloat(s, 64)
		if err != nil { // overflow to Inf: non-finite is [P]
			return f, true, true
		}
		return f, true, false
	}
	if _, err := strconv.ParseFloat(s, 64); err == nil {
		return 0, false, true // inf, nan, hex, underscores ... [P]
	}
	return 0, false, false
}

func (m *Model) truthy(v Val) bool {
	switch v.K {
	case KNum:
		return v.N != 0
	case KStr:
		return v.S != ""
	case KBool:
		return v.B
	case KArr, KObj, KFunc, KNative:
		return true
	}
	return false
}

func (m *Model) num(v Val) float64 {
	switch v.K {
	case KNum:
		return v.N
	case KBool:
		if v.B {
			return 1
		}
		return 0
	case KStr:
		f, ok, pinned := numericString(v.S)
		if pinned {
			m.tag("pinned:numeric-spelling")
			g, err := strconv.ParseFloat(v.S, 64)
			if err == nil || !math.IsNaN(g) && g != 0 {
				return g
			}
			return 0
		}
		if ok {
			return f
		}
		return 0
	}
	return 0
}

func fmtNum(f float64) string { return strconv.FormatFloat(f, 'f', -1, 64) }

func (m *Model) str(v Val) string {
	switch v.K {
	case KStr:
		return v.S
	case KNum:
		if math.IsInf(v.N, 0) || math.IsNaN(v.N) {
			m.tag("pinned:nonfinite")
		}
		return fmtNum(v.N)
	case KUnset:
		return ""
	}
	m.tag("pinned:str-of-" + v.K.String())
	return ""
}

// pretty renders a value as print does. Objects are rendered with sorted keys; the
// comparator treats object renderings order-insensitively.
func (m *Model) pretty(v Val, nested bool, path []any) string {
	switch v.K {
	case KStr:
		if nested {
			return "\"" + v.S + "\""
		}
		if v.J {
			return jsonOpen + v.S + jsonClose
		}
		return v.S
	case KNum:
		if math.IsInf(v.N, 0) || math.IsNaN(v.N) {
			m.tag("pinned:nonfinite")
		}
		return fmtNum(v.N)
	case KBool:
		if v.B {
			return "true"
		}
		return "false"
	case KNull:
		return "null"
	case KArr:
		for _, p := range path {
			if p == any(v.A) {
				return "<circular reference>"
			}
		}
		var sb strings.Builder
		sb.WriteByte('[')
		np := append(path[:len(path):len(path)], any(v.A))
		for i, e := range v.A.E {
			if i > 0 {
				sb.WriteString(", ")
			}
			sb.WriteString(m.pretty(e.V, true, np))
		}
		sb.WriteByte(']')
		return sb.String()
	case KObj:
		for _, p := range path {
			if p == any(v.O) {
				return "<circular reference>"
			}
		}
		var sb strings.Builder
		sb.WriteByte('{')
		np := append(path[:len(path):len(path)], any(v.O))
		for i, k := range v.O.SortedKeys() {
			if i > 0 {
				sb.WriteString(", ")
			}
			sb.WriteString("\"" + k + "\": ")
			sb.WriteString(m.pretty(v.O.M[k].V, true, np))
		}
		sb.WriteByte('}')
		if len(v.O.Keys) > 1 {
			m.multiKeyPrinted = true
		}
		return sb.String()
	case KFunc:
		m.tag("pinned:print-function")
		return "<function>"
	case KNative:
		m.tag("pinned:print-function")
		return "<nativefunction>"
	case KRegex:
		m.tag("pinned:print-regex")
		return "<regex>"
	case KUnset:
		m.tag("pinned:print-unset")
		return "<unknown>"
	}
	return "?"
}

// toJSONValue converts to a Go value for encoding/json comparison; err on cycles and
// inexpressible values.
func (m *Model) toGo(v Val, path []any) (any, string) {
	switch v.K {
	case KStr:
		return v.S, ""
	case KNum:
		if math.IsInf(v.N, 0) || math.IsNaN(v.N) {
			return nil, "non-finite"
		}
		return v.N, ""
	case KBool:
		return v.B, ""
	case KNull:
		return nil, ""
	case KUnset:
		m.tag("pinned:json-unset")
		return nil, ""
	case KArr:
		for _, p := range path {
			if p == any(v.A) {
				return nil, "cycle"
			}
		}
		np := append(path[:len(path):len(path)], any(v.A))
		out := make([]any, 0, len(v.A.E))
		for _, e := range v.A.E {
			g, err := m.toGo(e.V, np)
			if err != "" {
				return nil, err
			}
			out = append(out, g)
		}
		return out, ""
	case KObj:
		for _, p := range path {
			if p == any(v.O) {
				return nil, "cycle"
			}
		}
		np := append(path[:len(path):len(path)], any(v.O))
		out := map[string]any{}
		for _, k := range v.O.Keys {
			g, err := m.toGo(v.O.M[k].V, np)
			if err != "" {
				return nil, err
			}
			out[k] = g
		}
		return out, ""
	}
	return nil, "inexpressible " + v.K.String()
}

// fromGo builds a model value from decoded JSON (json.Decoder without UseNumber).
func fromGo(g any) Val {
	switch x := g.(type) {
	case nil:
		return mNull()
	case bool:
		return mBool(x)
	case float64:
		return mNum(x)
	case string:
		return mStr(x)
	case []any:
		a := newMArr()
		for _, e := range x {
			a.E = append(a.E, &Slot{V: fromGo(e)})
		}
		return mArrVal(a)
	case map[string]any:
		o := newMObj()
		ks := make([]string, 0, len(x))
		for k := range x {
			ks = append(ks, k)
		}
		sort.Strings(ks)
		for _, k := range ks {
			o.Set(k, fromGo(x[k]))
		}
		return mObjVal(o)
	}
	panic("fromGo: unexpected type")
}
