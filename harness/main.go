package main

import (
	"encoding/json"
	"flag"
	"fmt"
	"os"
	"path/filepath"
	"strconv"
	"syscall"
)

func main() {
	if len(os.Args) < 3 {
		fmt.Fprintln(os.Stderr, "usage: harness run|worker <property> [flags] | harness replay <file> [flags]")
		os.Exit(2)
	}
	mode := os.Args[1]
	arg := os.Args[2]
	fs := flag.NewFlagSet(mode, flag.ExitOnError)
	tier := fs.String("tier", "quick", "")
	seed := fs.Int64("seed", 1, "")
	jq := fs.String("jqawk", "", "")
	jqRace := fs.String("jqawk-race", "", "")
	repo := fs.String("repo", "/repo", "")
	scratch := fs.String("scratch", filepath.Join(verifRoot(), "build", "scratch"), "")
	from := fs.Int("from", 0, "")
	to := fs.Int("to", 0, "")
	journal := fs.String("journal", "", "")
	out := fs.String("out", "", "")
	only := fs.Int("case", -1, "run only this case index (no evidence written)")
	verbose := fs.Bool("v", false, "")
	fs.Parse(os.Args[3:])

	self, _ := os.Executable()

	if mode == "replay" {
		b, err := os.ReadFile(arg)
		if err != nil {
			fmt.Fprintln(os.Stderr, err)
			os.Exit(2)
		}
		var rp struct {
			Property string
			Tier     string
			Seed     int64
			Case     int
			Desc     string
		}
		if err := json.Unmarshal(b, &rp); err != nil {
			fmt.Fprintln(os.Stderr, err)
			os.Exit(2)
		}
		fmt.Printf("replaying property=%s tier=%s seed=%d case=%d\n  recorded: %s\n", rp.Property, rp.Tier, rp.Seed, rp.Case, oneLine(rp.Desc, 400))
		p := props[rp.Property]
		if p == nil {
			fmt.Fprintln(os.Stderr, "unknown property", rp.Property)
			os.Exit(2)
		}
		env := &Env{Prop: p, Tier: rp.Tier, Seed: rp.Seed, Jqawk: *jq, Repo: *repo, Scratch: *scratch, Known: loadFindings(), Verbose: true}
		os.Exit(orchestrate(env, self, rp.Case))
	}

	p := props[arg]
	if p == nil {
		fmt.Fprintln(os.Stderr, "unknown property", arg)
		os.Exit(2)
	}
	if v := os.Getenv("VERIF_SEED"); v != "" && mode == "run" {
		if n, err := strconv.ParseInt(v, 10, 64); err == nil {
			*seed = n
		}
	}
	env := &Env{Prop: p, Tier: *tier, Seed: *seed, Jqawk: *jq, JqawkRace: *jqRace, Repo: *repo, Scratch: *scratch, Known: loadFindings(), Verbose: *verbose}
	switch mode {
	case "run":
		os.Exit(orchestrate(env, self, *only))
	case "worker":
		// address-space limit: runaway allocation ends this worker only (classified as inconclusive)
		lim := uint64(4) << 30
		syscall.Setrlimit(syscall.RLIMIT_AS, &syscall.Rlimit{Cur: lim, Max: lim})
		installWatchdog()
		runWorker(env, *from, *to, *journal, *out)
	default:
		fmt.Fprintln(os.Stderr, "unknown mode", mode)
		os.Exit(2)
	}
}
