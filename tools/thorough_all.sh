#!/bin/bash
# thorough tier of every check (evidence redirected: this is a sweep, not the registered evidence)
cd "$(dirname "$0")/.."
for p in ${@:-C02 C03 C04 C05 C06 C07 C08 C09 C10 C11 C12 C13 C14 C15 C16 C17 C18 C19 C20 C01}; do
  /usr/bin/time -f "$p wall %es maxrss %MKB" env VERIF_EVIDENCE_DIR="$PWD/build/thorough-evidence" ./check $p thorough 2>&1 | grep -E "^SUMMARY|^VIOLATION|^ERROR|^KNOWN|wall .*maxrss|^  " | cut -c1-260 | head -30
done
