#!/bin/bash
# benign variants of /repo must leave every check silent
cd /verif
ALL="C01 C02 C03 C04 C05 C06 C07 C08 C09 C10 C11 C12 C13 C14 C15 C16 C17 C18 C19 C20"
for p in mutants/benign/*.patch; do ./selftest.sh --benign "$p" $ALL 2>&1 | tail -3; done
