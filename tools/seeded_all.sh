#!/bin/bash
# ingest every change the sub-agents left under /tmp/wt-C*/SEEDED/m* (first pass), or re-run the stored ones
ROOT="$(cd "$(dirname "$0")/.." && pwd)"
if [ "${1:-}" = "--stored" ]; then
  for d in "$ROOT"/seeded/C*; do
    n=$(basename "$d"); p=${n%%-*}
    src=$(mktemp -d /tmp/verif-seedsrc.XXXXXX); cp "$d"/patch.diff "$src/"; [ -f "$d/demo.sh" ] && cp "$d/demo.sh" "$src/"; [ -f "$d/demo_test.go.txt" ] && cp "$d/demo_test.go.txt" "$src/demo_test.go"; [ -f "$d/note.md" ] && cp "$d/note.md" "$src/"
    mkdir -p "$src/$(echo $n | sed 's/.*-//')"; 
    "$ROOT/tools/ingest_seeded.sh" "$p" "$src" "$n" 2>&1 | tail -1
    rm -rf "$src"
  done
  exit 0
fi
# usage: seeded_all.sh [worktree-prefix [name-infix]]   e.g.  seeded_all.sh /tmp/w2- r2
PFX="${1:-/tmp/wt-}"; INFIX="${2:-}"
for d in "$PFX"C*/SEEDED/m*; do
  p=$(echo "$d" | sed -E 's#.*-(C[0-9]+)/SEEDED/.*#\1#'); m=$(basename "$d")
  "$ROOT/tools/ingest_seeded.sh" "$p" "$d" "$p-$INFIX$m" 2>&1 | tail -1
done
