#!/bin/bash
# usage: tools/ingest_ported.sh <dir-with out/<name>/...>   (a porting job's output directory)
# Re-confirms stored seeded changes that were re-written for the current tree (the old patch is kept as
# patch.before-<head>.diff); changes whose intent is moot on the current tree move to seeded/obsolete/.
cd "$(dirname "$0")/.."
HEAD=$(git -C /repo rev-parse --short HEAD)
for d in "$1"/*/; do
  n=$(basename "$d")
  [ -d seeded/$n ] || { echo "UNKNOWN $n"; continue; }
  if [ -f "$d/OBSOLETE.md" ]; then
    mkdir -p seeded/obsolete; rm -rf seeded/obsolete/$n; git mv -k seeded/$n seeded/obsolete/$n 2>/dev/null || mv seeded/$n seeded/obsolete/$n
    cp "$d/OBSOLETE.md" seeded/obsolete/$n/; echo "OBSOLETE $n"; continue
  fi
  [ -f "$d/patch.diff" ] || { echo "NOPATCH $n"; continue; }
  pid=$(python3 -c "import json;print(json.load(open('seeded/$n/meta.json'))['breaks_property'])")
  [ -f seeded/$n/patch.before-$HEAD.diff ] || cp seeded/$n/patch.diff seeded/$n/patch.before-$HEAD.diff
  # demo_test.go.txt is stored with the .txt suffix; the ingest script expects demo_test.go
  [ -f "$d/demo_test.go.txt" ] && cp "$d/demo_test.go.txt" "$d/demo_test.go"
  ONLY_OWN=1 tools/ingest_seeded.sh "$pid" "${d%/}" "$n" 2>&1 | tail -2
done
