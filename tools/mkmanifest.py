#!/usr/bin/env python3
# Regenerates /verif/MANIFEST.json from the table below (run after adding a check).
import json, os, subprocess
ROOT = os.path.dirname(os.path.dirname(os.path.abspath(__file__)))
hooks = subprocess.run(["git", "-C", "/repo", "log", "--format=%H %s"], capture_output=True, text=True).stdout.splitlines()
hook_commits = [l.split()[0] for l in hooks if l.split(" ", 1)[1].startswith("verif:")]

CHECKS = json.load(open(os.path.join(ROOT, "tools", "checks.json")))
allids = [json.loads(l)["id"] for l in open(os.path.join(ROOT, "properties.jsonl"))]
checks = []
for pid in allids:
    if pid not in CHECKS:
        continue
    c = CHECKS[pid]
    checks.append({
        "property_id": pid,
        "quick_cmd": f"./check {pid} quick",
        "thorough_cmd": f"./check {pid} thorough",
        "evidence_file": f"/verif/evidence/{pid}.json",
        "replay_cmd_template": f"./check {pid} --replay {{path}}",
        "engine": "harness",
        "level_claimed": {"category": c["level"], "text": c["text"], "design_ref": c.get("design_ref", "DESIGN.md section 4 " + pid)},
        "level_note": c["note"],
        "technique": c["technique"],
    })
na = [{"property_id": pid, "reason": "check not built yet in this session (runtime monitoring applies; see DESIGN.md section 4)"} for pid in allids if pid not in CHECKS]
m = {
    "version": 1,
    "setup_cmd": "./check --build-only",
    "hooks": {
        "guard": "verif",
        "enable": "go build -tags verif (the harness module replaces github.com/alligator/jqawk with /repo and is built with -tags verif; the product binary is built without the tag)",
        "baseline_off_cmd": "cd /repo && GOFLAGS=-mod=mod GOPROXY=off GOSUMDB=off go test -vet=off -count=1 ./...",
        "source_commits": hook_commits,
        "add_only": True,
    },
    "engines": [{"name": "harness", "path": "/verif/harness", "serves_properties": [c["property_id"] for c in checks],
                 "kind_free_text": "Go harness: generators + renderers + reference model + monitors (outcome classifier, trace-vs-model comparator, metamorphic comparator, frame automaton over hooks, reader/writer ledger, error-position checker, JSON equality, syscall ledger, resource sentinel); runs the real library in-process under build tag verif and the real binary as a subprocess"}],
    "checks": checks,
    "notes": "All checks are runtime monitoring of the real code (library built from /repo with -tags verif, binary built from /repo without it). Known findings: findings/KNOWN_FINDINGS.txt. Seeded changes used to validate the monitors: seeded/.",
    "not_applicable": na,
}
json.dump(m, open(os.path.join(ROOT, "MANIFEST.json"), "w"), indent=1)
open(os.path.join(ROOT, "MANIFEST.hooks"), "w").write("guard: build tag verif\nfiles: src/verif_on.go (//go:build verif), src/verif_off.go (//go:build !verif), call sites added in src/evaluator.go\ncommits:\n" + "\n".join(hook_commits) + "\n")
print("checks:", [c["property_id"] for c in checks], "n/a:", len(na))
