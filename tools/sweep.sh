#!/bin/bash
# quick tier of every check at several seeds; prints only what is not clean
cd "$(dirname "$0")/.."
for s in "$@"; do
  for p in C01 C02 C03 C04 C05 C06 C07 C08 C09 C10 C11 C12 C13 C14 C15 C16 C17 C18 C19 C20; do
    out=$(VERIF_SEED=$s VERIF_EVIDENCE_DIR=/verif/build/sweep-evidence timeout 1800 ./check $p quick 2>&1); rc=$?
    if [ $rc -ne 0 ] || echo "$out" | grep -q "^VIOLATION\|^ERROR"; then echo "seed=$s $p rc=$rc"; echo "$out" | grep -A1 "^VIOLATION\|^ERROR" | head -6 | cut -c1-300; fi
  done
  echo "seed $s done"
done
rm -rf /verif/build/sweep-evidence
