#!/bin/bash
# usage: tools/ingest_seeded.sh <property-id> <dir-with patch.diff demo_test.go|demo.sh note.md> <name> [extra check ids...]
# Confirms a seeded change (applies, builds, passes the repository's tests, demonstration fails with /
# passes without), runs the property's check against it and stores everything under seeded/<name>/.
set -u
PID="$1"; SRC="$2"; NAME="$3"; shift 3
ROOT="$(cd "$(dirname "$0")/.." && pwd)"
export GOFLAGS=-mod=mod GOPROXY=off GOSUMDB=off GOTOOLCHAIN=local
SCR=$(mktemp -d /tmp/verif-scratch.XXXXXX)
trap 'rm -rf "$SCR"' EXIT
BASE="${SEED_BASE_REPO:-/repo}"   # the tree the change was written against (default: /repo as it is)
rsync -a --exclude .git --exclude /jqawk "$BASE/" "$SCR/"
cd "$SCR" || exit 2
run_demo() {
  if [ -f "$SRC/demo_test.go" ]; then
    cp "$SRC/demo_test.go" "$SCR/zz_seeded_demo_test.go"
    names=$(grep -oE '^func (Test[A-Za-z0-9_]+)' "$SRC/demo_test.go" | awk '{print $2}' | paste -sd'|')
    timeout 300 go test -vet=off -count=1 -run "^($names)\$" . >"$SCR/.demo.out" 2>&1; rc=$?
    rm -f "$SCR/zz_seeded_demo_test.go"
    return $rc
  else
    # the script sits where the agent wrote it (root/SEEDED/<m>/demo.sh) and may locate the project from its own path
    mkdir -p "$SCR/SEEDED/$(basename "$SRC")"; cp "$SRC/demo.sh" "$SCR/SEEDED/$(basename "$SRC")/demo.sh"
    ( cd "$SCR"; ulimit -v 8000000; JQAWK_ROOT="$SCR" timeout 600 bash "SEEDED/$(basename "$SRC")/demo.sh" >"$SCR/.demo.out" 2>&1 ); rc=$?
    rm -rf "$SCR/SEEDED"; return $rc
  fi
}
run_demo; clean_rc=$?
git apply --check "$SRC/patch.diff" 2>/dev/null || patch -p1 --dry-run -s < "$SRC/patch.diff" >/dev/null 2>&1 || { echo "REJECT $NAME: patch does not apply to the current tree"; exit 3; }
patch -p1 -s < "$SRC/patch.diff" || { echo "REJECT $NAME: patch failed"; exit 3; }
go build ./... 2>"$SCR/.build.err" || { echo "REJECT $NAME: does not build"; exit 4; }
go test -vet=off -count=1 . >"$SCR/.test.out" 2>&1 || { echo "REJECT $NAME: fails the repository's test-suite"; tail -5 "$SCR/.test.out"; exit 4; }
run_demo; mut_rc=$?
if [ $clean_rc -ne 0 ]; then echo "REJECT $NAME: demonstration fails on the unchanged tree"; exit 5; fi
if [ $mut_rc -eq 0 ]; then echo "REJECT $NAME: demonstration passes with the change"; exit 5; fi
caught=""; missed=""
ALL="C01 C02 C03 C04 C05 C06 C07 C08 C09 C10 C11 C12 C13 C14 C15 C16 C17 C18 C19 C20"
ids="$PID $*"
# if the owning check misses it, every other check gets a try (recorded: which checks catch which change)
out=$(VERIF_REPO="$SCR" VERIF_EVIDENCE_DIR="$SCR/.evidence" "$ROOT/check" "$PID" quick 2>&1)
if ! echo "$out" | grep -q "^VIOLATION" && [ -z "${ONLY_OWN:-}" ]; then ids="$ALL"; fi
for id in $ids; do
  out=$(VERIF_REPO="$SCR" VERIF_EVIDENCE_DIR="$SCR/.evidence" "$ROOT/check" "$id" quick 2>&1)
  n=$(echo "$out" | grep -c '^VIOLATION')
  if [ "$n" -gt 0 ]; then caught="$caught $id"; echo "  $id: $(echo "$out" | grep -A1 '^VIOLATION' | sed -n 2p | cut -c1-200)"; else missed="$missed $id"; fi
done
mkdir -p "$ROOT/seeded/$NAME"
cp "$SRC/patch.diff" "$ROOT/seeded/$NAME/"
[ -f "$SRC/demo_test.go" ] && cp "$SRC/demo_test.go" "$ROOT/seeded/$NAME/demo_test.go.txt"
[ -f "$SRC/demo.sh" ] && cp "$SRC/demo.sh" "$ROOT/seeded/$NAME/"
[ -f "$SRC/note.md" ] && cp "$SRC/note.md" "$ROOT/seeded/$NAME/"
python3 - "$PID" "$NAME" "$caught" "$missed" "$ROOT" <<'EOF'
import json,sys,os
pid,name,caught,missed,root=sys.argv[1:6]
note=""
p=f"{root}/seeded/{name}/note.md"
if os.path.exists(p): note=open(p).read()
meta={"breaks_property":pid,"name":name,"needs_to_manifest":note.strip()[:1500],
 "confirmed":{"applies_to_repo_head":True,"builds":True,"repository_tests_pass":True,"demonstration_passes_without_change":True,"demonstration_fails_with_change":True,
   "how":"tools/ingest_seeded.sh: scratch copy of /repo under /tmp, patch applied, go build ./..., go test -vet=off -count=1 ., demonstration run before and after"},
 "checks_run":(caught+" "+missed).split(),"caught_by":caught.split(),"missed_by":missed.split()}
json.dump(meta,open(f"{root}/seeded/{name}/meta.json","w"),indent=1)
EOF
if [ -n "$caught" ]; then echo "CAUGHT $NAME by$caught"; else echo "MISSED $NAME (ran:$missed)"; fi
