#!/usr/bin/env python3
# Rewrites section 8 of DESIGN.md (between the SECTION8 markers) from seeded/*/meta.json,
# seeded/PASS1-before-strengthening.log, seeded/REVERSE.log and seeded/BENIGN.log.
import json, glob, os, re
R = os.path.dirname(os.path.dirname(os.path.abspath(__file__)))
pass1 = {}
for p1 in sorted(glob.glob(os.path.join(R, "seeded", "PASS1*-before-strengthening.log"))):
    for l in open(p1):
        m = re.match(r"(CAUGHT|MISSED|REJECT|INVALID) (C\d\d-(?:r\d)?m\d)( by(.*))?", l)
        if m:
            pass1[m.group(2)] = (m.group(1), (m.group(4) or "").strip())
rows = []
for f in sorted(glob.glob(os.path.join(R, "seeded", "C*", "meta.json"))):
    m = json.load(open(f))
    name = m["name"]
    note = m.get("needs_to_manifest", "")
    first = ""
    for line in note.splitlines():
        line = line.strip().lstrip("#").strip()
        if line and not line.lower().startswith(("note", "seeded")):
            first = line
            break
    first = re.sub(r"[`|]", "", first)[:150]
    b = pass1.get(name, ("-", ""))
    before = {"CAUGHT": "caught by " + b[1], "MISSED": "missed by all 20", "REJECT": "-", "INVALID": "-", "-": "-"}[b[0]]
    mr = re.search(r"-r(\d)m", name)
    if before == "missed by all 20" and mr and int(mr.group(1)) >= 6:
        before = "missed by its own check (the only one run)"
    rows.append(f"| {name} | {m['breaks_property']} | {first} | {before} | {' '.join(m['caught_by']) or '**missed**'} |")
out = ["## 8. Which checks catch which changes (as built)", "",
"### 8.1 Changes written by independent sub-agents",
"",
"In each of several rounds twenty sub-agents were each given the text of one property and a scratch git worktree of /repo",
"(nothing from /verif) and asked for two changes that break the property, still compile and pass the",
"279 tests, and need something specific to manifest; from the second round on they were also given the one-line",
"summaries of the earlier changes to the same property and told to use other mechanisms (names `C<nn>-m<i>`: first",
"round, `-r2m<i>`, `-r3m<i>`, ...: later rounds). Every change below was re-confirmed by",
"`tools/ingest_seeded.sh` on a scratch copy (applies to HEAD, builds, test-suite passes, the agent's",
"demonstration passes without and fails with the change) before the checks were run against it with",
"`VERIF_REPO`; patch, demonstration, note and `meta.json` are under `seeded/<name>/`. 'first pass' is the",
"result against the checks as they were when the agents of that round were started (the owning check first, then",
"all 20 quick checks when it missed; `seeded/PASS1*-before-strengthening.log`); 'now' is the committed machinery (quick tier).",
"",
"| change | property | what it does (first line of the agent's note) | first pass | caught now by |",
"|---|---|---|---|---|"] + rows + [""]
n_now = sum(1 for r in rows if "**missed**" not in r)
n_own = 0
for f in sorted(glob.glob(os.path.join(R, "seeded", "C*", "meta.json"))):
    m = json.load(open(f))
    if m["breaks_property"] in m["caught_by"]:
        n_own += 1
def rnd(name):
    m = re.search(r"-r(\d)m", name)
    return int(m.group(1)) if m else 1
per = {}
for k, v in pass1.items():
    c = per.setdefault(rnd(k), [0, 0])
    c[1] += 1
    if v[0] == "CAUGHT":
        c[0] += 1
p1txt = "; ".join(f"round {r}: {c[0]} of {c[1]}" for r, c in sorted(per.items()))
out += [f"First pass (any of the 20 checks, as they were when that round's agents started; in rounds 6-9 only the check of the agent's property, in round 9 with one neighbour, was run): {p1txt}. Now: {n_now} of {len(rows)} caught, {n_own} of them by the check of the property the agent was given.",
"Still missed, and not claimed: C05-r2m1 alters how NaN compares (NaN from `inf - inf`, or the string 'NaN') and C05-r8m2 reports a quotient that overflows (`1e308 / 1e-10`) as a division by zero - non-finite values are [P] throughout (section 3.1) because no property statement fixes them; C02-r8m1 lets a `-r` selector keep its own variables from one value to the next, the territory of the open finding K-SELSCOPE (no statement fixes the selector's private state; `-r E` = `BEGINFILE { $ = E }` would even demand it); C02-r9m1 makes a `next` in a BEGIN / END / BEGINFILE / ENDFILE rule drop the later rules of that kind - what `next` does outside the pattern rules is fixed by no statement (pinned); C06-r8m2 lowers the parser's nesting limit to 4 096, inside the band in which C20 accepts either outcome for program nesting - the fully parenthesised form of a 6 000-term sum is then refused, as the one of a 250 000-term sum is on the unchanged tree.",
"Five further changes are kept under `seeded/obsolete/` with a note each: C09-r6m2 weakened a helper (`existingSpeculative`) that repair 60de3d8 then removed altogether; C04-r3m1 manifested only through the array-length defect K-ALIAS and is harmless since that was repaired; C01-m2 (a Go panic of integer `%`) and C14-r2m2 (a per-value slice of roots that was never reset) perverted code that the sixth round's repairs replaced (626a211, 3a6b155); C07-r6m2 changes what `next` does in BEGIN / END / BEGINFILE / ENDFILE rules, which no statement fixes (pinned, reported as a NOTE).",
"The sixth round's repairs of /repo touched lines under 39 stored changes (and the three repairs that followed the review under 3 more, ported by hand); 3 re-applied by three-way merge, 36 were re-written for the new tree by six sub-agents (given the old patch, its note and demonstration and a scratch clone; `patch.before-c9e43cc.diff` keeps the original) and re-confirmed by `tools/ingest_ported.sh`; one demonstration (C10-m2) used `false++`, which is a syntax error since 12c2390, and now stores through a match binding instead.",
"For round 2 the first pass was run afterwards against the commit that preceded the round (a3da53e), because I had started strengthening from the agents' reports before running anything; for rounds 1 and 3 it was run before any change.", ""]
out += ["What the misses of the first round had in common, and what was added (section 4 describes the workloads as they are now):", "",
"* **state that survives between evaluations of one expression site** (regex compiled once per site; method cell cached on the AST node; shared true/false/null cells; shared key buffer): workloads evaluated every site once. Added: operator functions `opf<i>(l, r)` so that one site sees a whole batch of operand pairs, and a batch whose members agree alone but not in sequence is itself a violation (C05); recursion re-entering a method call site (C15); nested for-in over two multi-key objects, directly and through a function (C07); disturber programs that store into cells obtained from literals, and numeric-looking object keys whose numeric and string orders disagree (C10).",
"* **values that are null by absence rather than by literal** (missing member, index past the end: they carry the speculative-creation bookkeeping): added as operands (C05), as call arguments whose parameter the callee assigns (C08, C09), as loop-variable sources (C09).",
"* **thresholds just beyond what the workload reached**: 2 500 `next`s where the limit is 4 096 - the long histories now run 10 000 elements (C08); runs of four and five operands of one operator, all 9 261 operator triples in the quick tier too (C06).",
"* **forms the renderer avoided**: `7.floor()` and `-2.5.floor()` were written with parentheses / spaces - an integer literal directly followed by `.` is now [S] and rendered as is, prefix operators against a method call on a literal are in the special-form table, also written without any white space (C06, C13); multi-line string and regex literals before a planted fault (C12); `next` executed while a rule's pattern is evaluated, via a function or a match block (C02; the model no longer treats it as [P]).",
"* **environment of the binary**: the `-o` file was removed before each run - it now pre-exists with longer stale content in every second case; two selectors were only compared with the library, which shares the defect - `-r A -r B` must now print what `-r A` and `-r B` print one after the other and `-o` must equal that of the last selector alone (C14); documents had no `%` (C04, C14).",
"",
"Second round (10 missed at first): *histories* rather than single steps - bookkeeping that leaks a little on every `break` / `continue` / `return` / `next` and only fails after 50 000 of them (C07, C20: long runs with results in closed form); a limit applied to the distance from the current end instead of the index (C20); a signal raised from a loop *header* (C07); `-o` onto an existing longer file / in place, and escape-looking text behind an escaped backslash (C04); compound divide by zero positioned through a synthesised token (C12); sort stability only beyond 12 elements (C15); a later alternative that would match too, empty block bodies (C19); crashes on cyclic / aliased values handed to value-walking operations, which the sampled generator reached too rarely (C01).",
"",
"Third round (19 missed at first): *two routes to the same thing* - an operator site re-entered through recursion while its other operand is pending (C05), match bindings read after a recursive call through the same match, argument names equal to the callee's parameter names in another order (C08), cycle members reachable from the printed value by their own routes (C17), a format or divisor site that worked on the first record and fails on the second (C11), one source position holding different literals in two programs of one process (C10); *stores where only reads had been tried* - into `$` in BEGIN, into `$index`, into results of `pluck` and `sort`, through paths keyed by booleans / null / unset (C02, C16, C15, C01); *conditions with effects* - else-if chains, loop bounds that move (C07); *raw bytes* - CR LF inside literals (C13, C14), one- and two-byte inputs (C01), values larger than any buffer and named pipes (C03). The missed change C09-r3m1 exposed a flaw of the reference model itself (every array passed to any native call was treated as shared, so most resizing steps of C15's histories were discarded as 'not stated'); correcting it more than doubled C15's effective workload.",
"",
"Fourth round (22 missed at first; the agents were told to prefer triggers that a generator of typical programs rarely produces): *sizes and counts just past a threshold* - 13 rules, 32-element arrays, pad counts that are multiples of 64, 65 536 frames, a value at byte offset 512 of the input, 19-digit widths (C02, C15, C18, C08, C04, C20); *values that are null by absence or look like something else* - a missing member compared with 0, a pushed `b[9]`, a string that spells a number given to %f, dotted pluck keys, a regex held in a variable (C02, C15, C18, C16, C12); *receivers and operands that were never stored* - `s[0].upper()`, a number literal with a method suffix after `*`, `!x is T` (C16, C06); *program shapes* - BEGIN-only programs on damaged input, comma-less object literals, body-less rules around method-only changes, prints whose arguments print (C03, C13, C17); *short reads* - the same bytes in reads of one byte (C10). One agent reported, while probing, a crash that was already in the tree (F25, section 5): none of my checks had a call whose argument assigns to its own receiver.",
"",
"Fifth round: again triggers chosen to be rare - a condition re-evaluated only when its operands are of different kinds, a literal of 8+ items, a subscript of 14+ tokens, 18 distinct regex texts, documents nested deeper than 4096, digit strings of 17+ digits, doubles 4 ulp apart, a byte at offset 0, the binary's own stack ceiling, file operands naming one file twice, `-o` onto the input file. Writing a hand-computed program for one of them (own keys named like methods) exposed defect F26 (section 5) on the unchanged tree.",
"",
"Sixth round (written against the repaired tree c9e43cc, with the hint that partly undoing or mis-generalising one of the recent repairs is welcome; 14 of 40 missed at first): *resources of the process rather than of the language* - more file operands than descriptors once files are closed only at exit (C02, C14), standard output that is a regular file and therefore \"safe\" to buffer (C03); *the one double that is not an int64* - 2^63 passes a `<= MaxInt64` guard written in floating point (C04; C05 caught the same slip in `%`); *formats that end inside a directive* after a flag (C01); *stores where a method name is not a member* on arrays, strings and numbers (C11); *results that alias what they were made from* - `sort()` sharing cells with its receiver, `split()` handing out its previous result, one cell per byte for string indexing shared by all runs of the process (C09, C16, C10); *a genuine U+FFFD* among bytes that are no UTF-8 (C16); *long case lists* (a dispatch table keyed by the literal's text defeats equality by coercion) and *names bound by an alternative that then fails* (C19); *the receiver's location stored into by an argument of the same call* (C15). One change (C07-r6m2) turned out to be about behaviour no statement fixes, see above.",
"",
"Seventh round (written against the final tree 0197c53, same brief as before but without the list of earlier changes; 5 of 40 missed at first by the check of their property): a conversion of digit strings through int64 that wraps for 19-digit numerals (C05); a parser that re-balances runs of 16 and more `+` / `*` (C06); `next` forgotten in the explicit decrement that replaced a `defer` (C08; caught at once by C07's long runs, but C08's histories stopped at 10 000 elements); `%` by a divisor that truncates to zero slipping through a merged `== 0` test (C11; C05 catches the value, C11 had no such fault kind); `pluck` storing the receiver's own cells (C16).",
"",
"Eighth round (started after the seventh round's additions, with the one-line summaries of all 275 earlier changes and the request for other mechanisms; 24 of 40 missed at first by the check of their property - the owning check alone was run, several of these are caught by a neighbouring check, see the table): *features and fast paths nobody asked for* - regex literals as case patterns compiled with `MustCompile` (C01), a one-line writer for scalar arrays that drops the marshalling error (C04), a printer depth guard (C17, C20), a format-only printf fast path, a subscript fast path for `a[-x]` that swallows the rest of the subscript (C06), implicit line joining inside brackets (C13), a NUL byte taken for the end of the text (C11); *state kept too long* - a constant array literal built once (C15), the frame table of a match case kept on the case node and overwritten by recursion (C19), an auto-fill budget per process (C10), no frame at all for a case that binds nothing (C08); *sizes* - 65 536 pieces (C16), width texts of seven characters (C18), reused token slots that only show for an even token count (C12). Two changes are not counted as breaks: C02-r8m1 lets a selector keep its own variables from one value to the next, which is what `-r E` = `BEGINFILE { $ = E }` (C14) would give and what the open finding K-SELSCOPE is about - no statement fixes the selector's private state; C05-r8m2 reports `1e308 / 1e-10` as a division by zero, which concerns non-finite results, pinned like C05-r2m1.",
"",
"Ninth round (six properties only - C02, C03, C09, C12, C14, C20 - one change each, in the last hour; numeric limits and non-finite numbers excluded by the brief; 2 of 6 caught at first): a self tail call that re-uses its frame, so that `return r(n + 1)` never reaches the call-depth limit - my recursion cases had a budget of 2 000 000 000 statements and simply never came back (C20: a recursion still running after 100 000 000 statements is now reported as not refused); a failed write of the program's own output hidden when `-o FILE` is given (C14: two more full-device paths); the key of a missing member kept as text and read back as an index, so that `o.m['2'] = 7` creates an array (C09: 5 hand-computed programs). C02-r9m1 changes what `next` does in BEGIN / END / BEGINFILE / ENDFILE rules - fixed by no statement, not claimed (as C07-r6m2).",
"",
"### 8.2 The reverse of every repair",
"",
"`tools/reverse_all.sh` undoes each `fix:` commit (or pair of commits) of /repo in a scratch clone (`git revert`, a three-way merge) and runs the check of the property it is recorded under. Run at the final tree:",
"", "```"]
rv = os.path.join(R, "seeded", "REVERSE.log")
if os.path.exists(rv):
    out += [l.rstrip() for l in open(rv) if l.startswith(("CAUGHT", "MISSED", "SKIP"))]
out += ["```", "",
"SKIP / INVALID: later repairs rewrote the same lines (or build on what the commit introduced), so the commit no longer reverts mechanically. Most of those were reverted and caught when the tree still allowed it (`seeded/REVERSE-at-c9e43cc.log`, `seeded/REVERSE-earlier.log` run at 6a498f0 or before):",
"", "```"]
rve = os.path.join(R, "seeded", "REVERSE-earlier.log")
rvc = os.path.join(R, "seeded", "REVERSE-at-c9e43cc.log")
skipped = set()
if os.path.exists(rv):
    for l in open(rv):
        if l.startswith(("SKIP", "INVALID")):
            for w in l.replace(":", " ").split():
                if len(w) >= 7 and all(ch in "0123456789abcdef+" for ch in w):
                    skipped.add(w)
seen_prev = set()
for prev in (rvc, rve):
    if os.path.exists(prev):
        for l in open(prev):
            if l.startswith("CAUGHT") and any(("reverse-of-" + h + " ") in l for h in skipped) and l not in seen_prev:
                seen_prev.add(l)
                out.append(l.rstrip())
out += ["```", "",
"The remaining four (c5d9a4e, 5d9bd9c, 42e9a45, 3c8a603) never reverted mechanically; for each the owning check was run on the tree as it was just before the repair, which is its exact reverse: C01 reported 65 violations (c5d9a4e), C09 126 (5d9bd9c), C12 2 896 (42e9a45), C14 6 (3c8a603) - section 5.",
"MISSED reverse-of-1e9621e: that repair made `o.k.length = o.k = 5` fail like `o.k.size = o.k = 5` instead of storing into the object `o.k` used to hold. Both are the case in which the right-hand side replaces a container on the target's own path, which the thorough tier later showed to be undecided by the statement and which is pinned since (section 7.1); its reversal was caught while the model still demanded the error (`seeded/REVERSE-at-c9e43cc.log`) and is, correctly, no longer claimed.",
"", "### 8.3 Benign variants (must stay silent)", "",
"`tools/benign_all.sh` applies each patch under `mutants/benign/` and runs all twenty checks: reworded error messages; call depth limit 3000, evaluation nesting 30000 and array fill limit 1 500 000 (all inside the bands); object keys printed and iterated in reverse-sorted instead of sorted order; print assembling its line and writing it once, slices.Sort for the keys; a regex cache keyed by pattern text and padding that grows the array once; the sixth round's constants and wording (parser nesting bound 120 000, huge-index threshold 2^53, reworded diagnostics).",
"", "```"]
bn = os.path.join(R, "seeded", "BENIGN.log")
if os.path.exists(bn):
    out += [l.rstrip()[:200] for l in open(bn) if l.startswith(("SILENT", "FALSE-ALARM", "INVALID", "SKIP"))]
bn2 = os.path.join(R, "seeded", "BENIGN-after-round8.log")
if os.path.exists(bn2):
    out += ["```", "", "After the eighth round of seeded changes, against the sixteen checks that were changed in the last session, and (the last six lines) against the three changed after the ninth partial round:", "", "```"]
    out += [l.rstrip()[:200] for l in open(bn2) if l.startswith(("SILENT", "FALSE-ALARM", "INVALID", "SKIP"))]
out += ["```", "",
"### 8.4 Runs on the unchanged tree at the end of the work", "",
"Against /repo at 0197c53 (54 `fix:` commits after the pinned commit; the 279 tests pass with the hooks off): the quick tier of all twenty checks at seeds 1-27 (`tools/sweep.sh`), the thorough tier at seed 1 (twice: before and after the last three repairs), seeds 2, 3 and 4 (`tools/thorough_all.sh`, 50-70 minutes each) - the six KNOWN-FINDING lines of K-SELSCOPE from C14 in every run. These runs raised two alarms on the unchanged tree, both false and both from rules added in the last hours (section 7.1): C09 in the thorough tier (corrected in the model) and C01 at seed 8 (the rule was dropped); after the corrections the affected runs were repeated and are silent. The committed evidence files are from the quick tier at seed 1.",
"",
"Last session (seventh and eighth round of seeded changes, section 8.1): before anything was added, the quick tier of all twenty checks at seeds 28-36 (silent). After the additions: every changed check on the unchanged tree at seeds 1-9 (seventh round's five checks) and 1-6 (the sixteen checks changed after the eighth round), the quick tier of all twenty checks at seed 1 (the committed evidence) and at seeds 7-14 in the background (`vp run -- tools/sweep.sh`), the thorough tier of the twelve structurally changed checks at seed 1, and the six benign variants against the sixteen changed checks (all SILENT). The three checks changed after the ninth (partial) round - C09, C14, C20 - were then run on the unchanged tree at seeds 1-5, and the quick tier of all twenty checks once more at seeds 15 and 16 with everything in place (silent). No alarm on the unchanged tree; what was corrected before committing is in section 7.1.",
""]
d = open(os.path.join(R, "DESIGN.md")).read()
a, b = "<!-- SECTION8 BEGIN -->", "<!-- SECTION8 END -->"
body = a + "\n" + "\n".join(out) + "\n" + b
if a in d:
    d = d[:d.index(a)] + body + d[d.index(b) + len(b):]
else:
    d = d.rstrip("\n") + "\n\n---------------------------------------------------------------------------------------------\n\n" + body + "\n"
open(os.path.join(R, "DESIGN.md"), "w").write(d)
print("section 8 written:", len(rows), "seeded changes")
