#!/bin/bash
# reverse every fix: commit of /repo on a scratch copy and confirm that the owning check fires
cd /verif
grep '^fixed:' findings/KNOWN_FINDINGS.txt | while read -r _ prop hash rest; do
  p=${prop#property=}; h=${hash}
  ./selftest.sh --reverse "$h" "$p" 2>&1 | tail -1
done
